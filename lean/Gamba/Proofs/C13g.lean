/-
  Gamba.Proofs.C13g — helpers for the TEXT-level version of "the answer key of the Chomsky exercise passes
  `cfg_check_chomsky`": the check only looks at the answer-key grammar through its start variable, the SET of its
  productions (structural tests) and its language (enumeration), so the grammar that comes back from
  `parse_simple_cfg (cfg_print_simple G1)` — same productions in another order, renumbered alternatives, `V` and `Σ`
  rebuilt from the rules — gets the same verdict as `G1`.
-/
import Gamba.Model.CheckText
import Gamba.Proofs.C13f
import Gamba.Props.C12c
import Gamba.Props.C13a
import Gamba.Props.C16e
import Gamba.Props.C02cfg
import Gamba.Props.C08d
namespace Gamba
namespace C13g
open CFG Check

/-! ### tests on the rule list only depend on the set of productions -/

theorem all_rules_congr {R R' : List CRule}
    (h : ∀ A rhs, (∃ r, r ∈ R' ∧ r.lhs = A ∧ r.rhs = rhs) ↔ (∃ r, r ∈ R ∧ r.lhs = A ∧ r.rhs = rhs))
    (p : String → List Sym → Bool) :
    (R'.all fun r => p r.lhs r.rhs) = (R.all fun r => p r.lhs r.rhs) := by
  rw [Bool.eq_iff_iff, List.all_eq_true, List.all_eq_true]
  constructor
  · intro h1 r hr
    obtain ⟨r', hr', e1, e2⟩ := (h r.lhs r.rhs).mpr ⟨r, hr, rfl, rfl⟩
    have := h1 r' hr'
    rwa [e1, e2] at this
  · intro h1 r hr
    obtain ⟨r', hr', e1, e2⟩ := (h r.lhs r.rhs).mp ⟨r, hr, rfl, rfl⟩
    have := h1 r' hr'
    rwa [e1, e2] at this

/-- the structural part of `cfg_check_chomsky` is insensitive to the order, multiplicity and `aid`s of the rules
    (and does not look at `V`, `Σ`) -/
theorem chomskyStruct_congr {G1 G' : CFG} (hS : G'.S = G1.S)
    (hR : ∀ A rhs, (∃ r, r ∈ G'.R ∧ r.lhs = A ∧ r.rhs = rhs) ↔ (∃ r, r ∈ G1.R ∧ r.lhs = A ∧ r.rhs = rhs))
    (phase : Nat) (start : String) :
    C13a.chomskyStruct G' phase start = C13a.chomskyStruct G1 phase start := by
  unfold C13a.chomskyStruct
  rw [hS]
  have e2 : (G'.R.all fun r => !(r.rhs.isEmpty && decide (r.lhs ≠ G1.S))) =
      (G1.R.all fun r => !(r.rhs.isEmpty && decide (r.lhs ≠ G1.S))) :=
    all_rules_congr hR (fun A rhs => !(rhs.isEmpty && decide (A ≠ G1.S)))
  have e3 : (G'.R.all fun r => !CFG.isUnit r) = (G1.R.all fun r => !CFG.isUnit r) :=
    all_rules_congr hR (fun _ rhs => !CFG.isUnit ⟨"", 0, rhs⟩)
  have e4 : (G'.R.all fun r => decide (r.rhs.length ≤ 2)) = (G1.R.all fun r => decide (r.rhs.length ≤ 2)) :=
    all_rules_congr hR (fun _ rhs => decide (rhs.length ≤ 2))
  have e5 : (G'.R.all fun r => CFG.altIsChomsky r.rhs) = (G1.R.all fun r => CFG.altIsChomsky r.rhs) :=
    all_rules_congr hR (fun _ rhs => CFG.altIsChomsky rhs)
  rw [e2, e3, e4, e5]

/-- the language only depends on the start variable and the set of productions -/
theorem lang_congr {G1 G' : CFG} (hS : G'.S = G1.S)
    (hR : ∀ A rhs, (∃ r, r ∈ G'.R ∧ r.lhs = A ∧ r.rhs = rhs) ↔ (∃ r, r ∈ G1.R ∧ r.lhs = A ∧ r.rhs = rhs))
    (w : List String) : G'.Lang w ↔ G1.Lang w := by
  unfold CFG.Lang
  rw [hS]
  exact CFG.gen_congr hR

/-! ### names: single upper-case / single lower-case letters, and what `fresh_variable` returns -/

theorem isLower1_S_append (x : String) : CfgText.isLower1 ("S" ++ x) = false := by
  unfold CfgText.isLower1
  rw [String.toList_append]
  have : "S".toList = ['S'] := rfl
  rw [this]
  cases x.toList with
  | nil => rfl
  | cons c l => rfl

theorem isLower1_upperLetters : ∀ x, x ∈ upperLetters → CfgText.isLower1 x = false := by decide

theorem freshIndexed_S (V : List String) (fuel i : Nat) : ∃ x, freshIndexed V "S" fuel i = "S" ++ x := by
  induction fuel generalizing i with
  | zero => exact ⟨_, rfl⟩
  | succ n ih =>
    unfold freshIndexed
    split
    · exact ih _
    · exact ⟨_, rfl⟩

/-- the start variable that `cfg_to_chomsky` adds is never a single lower-case letter -/
theorem isLower1_freshVariable_S (V : List String) : CfgText.isLower1 (freshVariable V "S") = false := by
  have hS : CfgText.isLower1 "S" = false := rfl
  unfold freshVariable
  simp only
  split
  · split
    · obtain ⟨x, hx⟩ := freshIndexed_S V (V.length + 1) 0
      rw [hx]; exact isLower1_S_append x
    · exact hS
  · split
    · exact hS
    · cases hf : upperLetters.find? (fun x => decide (x ∉ V)) with
      | none => exact hS
      | some y => exact isLower1_upperLetters y (List.mem_of_find?_eq_some hf)

theorem not_lower_of_upper {a : String} (hu : CfgText.isUpper1 a = true) : CfgText.isLower1 a = false := by
  unfold CfgText.isUpper1 at hu
  unfold CfgText.isLower1
  split at hu
  · rename_i c hc
    exact CfgText.isLower_of_isUpper hu
  · cases hu

/-- the side condition of `cfg_words_exact` for a grammar in the simple format -/
theorem hd_of_simple {H : CFG} (hs : CfgText.isSimple H = true) :
    ∀ a, a ∈ H.Sigma → a ∉ H.V ∧ a ≠ freshVariable H.V "S" := by
  simp only [CfgText.isSimple, Bool.and_eq_true, List.all_eq_true] at hs
  intro a ha
  have hl := hs.2 a ha
  constructor
  · intro hV
    rw [not_lower_of_upper (hs.1 a hV)] at hl
    cases hl
  · intro e
    rw [e, isLower1_freshVariable_S] at hl
    cases hl

theorem isSimple_congr {G1 G' : CFG} (hV : ∀ A, A ∈ G'.V ↔ A ∈ G1.V) (hSig : ∀ a, a ∈ G'.Sigma ↔ a ∈ G1.Sigma) :
    CfgText.isSimple G' = CfgText.isSimple G1 := by
  unfold CfgText.isSimple
  rw [C13f.all_congr_mem hV, C13f.all_congr_mem hSig]

/-! ### the enumeration of a re-parsed answer key -/

/-- `cfg_words_up_to_n` is exact on every grammar that `parse_simple_cfg` returns and that is in the simple format
    (single upper-case variables, single lower-case terminals) -/
theorem words_parsed_simple {text : List Char} {G' : CFG} {e : String}
    (h : CfgText.parseSimpleCfg text = .ok (G', e)) (hs : CfgText.isSimple G' = true) (n : Nat) (w : List String) :
    w ∈ G'.wordsUpTo n ↔ w.length ≤ n ∧ G'.Lang w := by
  obtain ⟨hv, hS, ha⟩ := parseSimpleCfg_ok_valid text G' e h
  exact cfg_words_exact G' hv hS ha (hd_of_simple hs) n w

/-- the text-level checker on two texts that parse -/
theorem chomsky_of_parse {cfg answer : String} {G G' : CFG} {e e' : String}
    (h1 : CfgText.parseSimpleCfg cfg.toList = .ok (G, e)) (h2 : CfgText.parseSimpleCfg answer.toList = .ok (G', e'))
    (phase : Nat) (start : String) (len : Nat) :
    CheckText.chomsky cfg answer phase start len = CheckText.ofBool (chomskyCheck G G' phase start len) := by
  unfold CheckText.chomsky
  rw [h1, h2]

/-- the check of the RE-PARSED answer key `G'` of `G1` equals the check of `G1`, as soon as both enumerations
    are exact -/
theorem chomskyCheck_congr {G G1 G' : CFG} (hS : G'.S = G1.S)
    (hR : ∀ A rhs, (∃ r, r ∈ G'.R ∧ r.lhs = A ∧ r.rhs = rhs) ↔ (∃ r, r ∈ G1.R ∧ r.lhs = A ∧ r.rhs = rhs))
    (len : Nat)
    (h1 : ∀ w, w ∈ G1.wordsUpTo len ↔ w.length ≤ len ∧ G1.Lang w)
    (h' : ∀ w, w ∈ G'.wordsUpTo len ↔ w.length ≤ len ∧ G'.Lang w)
    (phase : Nat) (start : String) :
    chomskyCheck G G' phase start len = chomskyCheck G G1 phase start len := by
  rw [C13a.chomskyCheck_eq, C13a.chomskyCheck_eq, chomskyStruct_congr hS hR]
  congr 1
  apply C13f.compare_congr
  · intro w
    rw [h1, h', lang_congr hS hR]
  · intro w; exact Iff.rfl

/-! ### the conversion never removes a variable or changes Σ (no validity needed) -/

theorem freshVariables_V_mono (hint : String) (n : Nat) : ∀ (V : List String) (x : String), x ∈ V →
    x ∈ (freshVariables V hint n).2 := by
  induction n with
  | zero => intro V x hx; exact hx
  | succ n ih =>
    intro V x hx
    unfold freshVariables
    exact ih _ x (List.mem_append_left _ hx)

theorem binariseStep_V_mono (G : CFG) (i : Nat) (x : String) (hx : x ∈ G.V) : x ∈ (binariseStep G i).V := by
  unfold binariseStep
  split
  · exact hx
  · rename_i rule _
    simp only
    split
    · exact hx
    · have hm := freshVariables_V_mono rule.lhs (rule.rhs.length - 2) G.V x hx
      generalize freshVariables G.V rule.lhs (rule.rhs.length - 2) = p at hm
      obtain ⟨A, V'⟩ := p
      simp only
      split
      · exact hm
      · exact hx

theorem foldl_binariseStep_V_mono (l : List Nat) (G : CFG) (x : String) (hx : x ∈ G.V) :
    x ∈ (l.foldl binariseStep G).V := by
  induction l generalizing G with
  | nil => exact hx
  | cons i l ih => exact ih _ (binariseStep_V_mono G i x hx)

theorem binarise_V_mono (G : CFG) (x : String) (hx : x ∈ G.V) : x ∈ G.binarise.V :=
  foldl_binariseStep_V_mono _ G x hx

theorem replaceSymbol_V_mono (acc : TermAcc) (s : Sym) (x : String) (hx : x ∈ acc.V) :
    x ∈ (replaceSymbol acc s).1.V := by
  unfold replaceSymbol
  split
  · exact hx
  · split
    · exact hx
    · exact List.mem_append_left _ hx

theorem replaceSymbols_V_mono (ss : List Sym) : ∀ (acc : TermAcc) (x : String), x ∈ acc.V →
    x ∈ (replaceSymbols acc ss).1.V := by
  induction ss with
  | nil => intro acc x hx; exact hx
  | cons s ss ih =>
    intro acc x hx
    unfold replaceSymbols
    exact ih _ x (replaceSymbol_V_mono acc s x hx)

theorem isolateLoop_V_mono (x : String) : ∀ (n : Nat) (rs : List CRule), rs.length = n → ∀ (acc : TermAcc) (done : List CRule),
    x ∈ acc.V → x ∈ (isolateLoop acc done rs).1.V := by
  intro n
  induction n with
  | zero =>
    intro rs hn acc done hx
    have : rs = [] := List.length_eq_zero_iff.mp hn
    subst this
    rw [isolateLoop]; exact hx
  | succ n ih =>
    intro rs hn acc done hx
    obtain ⟨r, rs, rfl⟩ := List.exists_cons_of_length_eq_add_one hn
    simp only [List.length_cons, Nat.add_right_cancel_iff] at hn
    rw [isolateLoop]
    by_cases hlen : r.rhs.length ≥ 2
    · simp only [hlen, if_true]
      have hm := replaceSymbols_V_mono r.rhs acc x hx
      generalize replaceSymbols acc r.rhs = res at hm ⊢
      obtain ⟨acc', rhs'⟩ := res
      exact ih _ (by rw [List.length_map]; exact hn) _ _ hm
    · simp only [hlen, if_false]
      exact ih _ hn _ _ hx

theorem isolateTerminals_V_mono (G : CFG) (x : String) (hx : x ∈ G.V) : x ∈ G.isolateTerminals.V := by
  unfold isolateTerminals
  exact isolateLoop_V_mono x _ G.R rfl { V := G.V, repl := [] } [] hx

theorem applyChomsky_Sigma (G : CFG) (phase : Nat) (start : String) : (G.applyChomsky phase start).Sigma = G.Sigma := by
  rcases phase with _ | _ | _ | _ | _ | n
  · rw [C08d.applyChomsky_0]
  · rw [C08d.applyChomsky_1]; rfl
  · rw [C08d.applyChomsky_2]; rfl
  · rw [C08d.applyChomsky_3]; rfl
  · rw [C08d.applyChomsky_4, C08d.binarise_Sigma]; rfl
  · rw [C08d.applyChomsky_ge5 G (n + 5) start (by omega), C08d.isolateTerminals_Sigma, C08d.binarise_Sigma]; rfl

/-- from phase 1 on, the variables of the answer key contain those of `G` and the new start variable -/
theorem applyChomsky_V_mono (G : CFG) (phase : Nat) (start : String) (h1 : 1 ≤ phase) (x : String)
    (hx : x ∈ G.V ∨ x = freshVariable G.V start) : x ∈ (G.applyChomsky phase start).V := by
  have h0 : x ∈ (G.addStart start).removeEps.elimUnit.V := by
    show x ∈ G.V ++ [freshVariable G.V start]
    rw [List.mem_append, List.mem_singleton]; exact hx
  rcases phase with _ | _ | _ | _ | _ | n
  · omega
  · rw [C08d.applyChomsky_1]; exact h0
  · rw [C08d.applyChomsky_2]; exact h0
  · rw [C08d.applyChomsky_3]; exact h0
  · rw [C08d.applyChomsky_4]; exact binarise_V_mono _ x h0
  · rw [C08d.applyChomsky_ge5 G (n + 5) start (by omega)]
    exact isolateTerminals_V_mono _ x (binarise_V_mono _ x h0)

/-! ### the text-level statement -/

/-- core: the answer key `G1` is printable, passes the structural tests and has the language of `G`; `V` and `Σ` of
    `G` are contained in those of `G1` (so that `G` is in the simple format too) -/
theorem chomsky_text_core {cfg : String} {G : CFG} {e : String} (hp : CfgText.parseSimpleCfg cfg.toList = .ok (G, e))
    {G1 : CFG} (phase : Nat) (start : String) (len : Nat)
    (hstruct : C13a.chomskyStruct G1 phase start = true) (hlang : ∀ w, G1.Lang w ↔ G.Lang w)
    (hV : ∀ A, A ∈ G.V → A ∈ G1.V) (hSig : ∀ a, a ∈ G.Sigma → a ∈ G1.Sigma)
    (hpr : CfgText.Printable G1) {key : String} (hk : CfgText.printSimpleCfg G1 = .ok key) :
    CheckText.chomsky cfg key phase start len = .ok := by
  obtain ⟨hv, hS, ha⟩ := parseSimpleCfg_ok_valid _ G e hp
  obtain ⟨text, G', eps, hprint, hparse, sV, sSig, sS, sR, _⟩ := parse_print_cfg _ hpr
  rw [hk] at hprint
  cases hprint
  rw [chomsky_of_parse hp hparse, ofBool_ok_iff, C13a.chomskyCheck_eq, chomskyStruct_congr sS sR,
    hstruct, Bool.and_true, C12a.compare_isNone_iff]
  intro w
  have hs' : CfgText.isSimple G' = true := by rw [isSimple_congr sV sSig]; exact hpr.simple
  have hsG : CfgText.isSimple G = true := by
    have hs := hpr.simple
    simp only [CfgText.isSimple, Bool.and_eq_true, List.all_eq_true] at hs ⊢
    exact ⟨fun A hA => hs.1 A (hV A hA), fun a h => hs.2 a (hSig a h)⟩
  rw [words_parsed_simple hparse hs' len w, lang_congr sS sR, hlang, words_parsed_simple hp hsG len w]

/-- every hypothesis on names follows from `Printable`: only `start ∉ G.V` is left -/
theorem chomsky_text_self' {cfg : String} {G : CFG} {e : String} (hp : CfgText.parseSimpleCfg cfg.toList = .ok (G, e))
    (phase : Nat) (start : String) (len : Nat) (hstart : start ∉ G.V)
    (hpr : CfgText.Printable (G.applyChomsky phase start))
    {key : String} (hk : CfgText.printSimpleCfg (G.applyChomsky phase start) = .ok key) :
    CheckText.chomsky cfg key phase start len = .ok := by
  obtain ⟨hv, hS, ha⟩ := parseSimpleCfg_ok_valid _ G e hp
  have hSigEq := applyChomsky_Sigma G phase start
  by_cases h0 : phase = 0
  · subst h0
    rw [C08d.applyChomsky_0] at hpr hk
    exact chomsky_text_core hp 0 start len (by simp [C13a.chomskyStruct]) (fun _ => Iff.rfl) (fun _ h => h)
      (fun _ h => h) hpr hk
  · have h1 : 1 ≤ phase := by omega
    have hs := hpr.simple
    simp only [CfgText.isSimple, Bool.and_eq_true, List.all_eq_true] at hs
    have hd : ∀ a, a ∈ G.Sigma → a ∉ G.V ∧ a ≠ freshVariable G.V start := by
      intro a haS
      have hl := hs.2 a (by rw [hSigEq]; exact haS)
      constructor
      · intro hV
        rw [not_lower_of_upper (hs.1 a (applyChomsky_V_mono G phase start h1 a (Or.inl hV)))] at hl
        cases hl
      · intro e
        rw [not_lower_of_upper (hs.1 a (applyChomsky_V_mono G phase start h1 a (Or.inr e)))] at hl
        cases hl
    exact chomsky_text_core hp phase start len (C13a.chomskyStruct_self G phase start hv hS ha hd hstart)
      (applyChomsky_lang G phase start hv hS ha hd)
      (fun A hA => applyChomsky_V_mono G phase start h1 A (Or.inl hA))
      (fun a h => by rw [hSigEq]; exact h) hpr hk

/-! ### a Boolean test for `Printable` (for the examples) -/

def printableB (G : CFG) : Bool :=
  CfgText.isSimple G && G.valid && (G.V.all fun A => G.R.any fun r => decide (r.lhs = A)) &&
  (match G.R with | r :: _ => decide (r.lhs = G.S) | [] => false) &&
  (G.Sigma.all fun a => G.R.any fun r => decide (Sym.t a ∈ r.rhs))

theorem printable_of_printableB {G : CFG} (h : printableB G = true) : CfgText.Printable G := by
  simp only [printableB, Bool.and_eq_true, List.all_eq_true, List.any_eq_true, decide_eq_true_eq] at h
  obtain ⟨⟨⟨⟨h1, h2⟩, h3⟩, h4⟩, h5⟩ := h
  refine ⟨h1, h2, h3, ?_, h5⟩
  split at h4
  · rename_i r rs hR
    exact ⟨r, rs, hR, of_decide_eq_true h4⟩
  · cases h4

/-- `Except Err String` has no decidable equality: evaluate through `toOption` -/
theorem print_eq_of_toOption {G : CFG} {key : String} (h : (CfgText.printSimpleCfg G).toOption = some key) :
    CfgText.printSimpleCfg G = .ok key := by
  cases h' : CfgText.printSimpleCfg G with
  | error e => rw [h'] at h; cases h
  | ok k => rw [h'] at h; cases h; rfl

end C13g
end Gamba
