/- Gamba.Proofs.C11 — helper lemmas about the executable Turing-machine simulator model. -/
import Gamba.Model.TM
import Gamba.Spec.TM
import Gamba.Proofs.Words
namespace Gamba
variable {σ τ : Type} [DecidableEq σ] [DecidableEq τ]
set_option linter.unusedSectionVars false

/-! ### verdict / halting -/

theorem TM.verdict_eq_none_iff (T : TM σ τ) (q : σ) : T.verdict q = none ↔ T.halting q = false := by
  unfold TM.verdict TM.halting
  by_cases h1 : q = T.qAccept
  · simp only [if_pos h1, decide_eq_true h1, Bool.true_or, reduceCtorEq]
  · by_cases h2 : q = T.qReject
    · simp only [if_neg h1, if_pos h2, decide_eq_true h2, Bool.or_true, reduceCtorEq]
    · simp only [if_neg h1, if_neg h2, decide_eq_false h1, decide_eq_false h2, Bool.or_self]

theorem TM.halting_of_verdict (T : TM σ τ) {q : σ} {b : Bool} (h : T.verdict q = some b) :
    T.halting q = true := by
  cases hq : T.halting q with
  | true => rfl
  | false => rw [(T.verdict_eq_none_iff q).mpr hq] at h; cases h

theorem TM.verdict_isSome_of_halting (T : TM σ τ) {q : σ} (h : T.halting q = true) :
    ∃ b, T.verdict q = some b := by
  cases hv : T.verdict q with
  | some b => exact ⟨b, rfl⟩
  | none => rw [(T.verdict_eq_none_iff q).mp hv] at h; cases h

theorem TM.verdict_eq_true_iff (T : TM σ τ) (q : σ) : T.verdict q = some true ↔ q = T.qAccept := by
  unfold TM.verdict
  by_cases h1 : q = T.qAccept
  · simp only [if_pos h1]
    exact iff_of_true trivial h1
  · by_cases h2 : q = T.qReject
    · simp only [if_neg h1, if_pos h2, reduceCtorEq, Option.some.injEq]
      exact iff_of_false (fun h => h) h1
    · simp only [if_neg h1, if_neg h2, reduceCtorEq]
      exact iff_of_false (fun h => h) h1

theorem TM.verdict_eq_false_iff (T : TM σ τ) (hne : T.qReject ≠ T.qAccept) (q : σ) :
    T.verdict q = some false ↔ q = T.qReject := by
  unfold TM.verdict
  by_cases h1 : q = T.qAccept
  · subst h1
    simp only [if_true]
    constructor
    · intro h; cases h
    · intro h; exact absurd h.symm hne
  · by_cases h2 : q = T.qReject
    · simp only [if_neg h1, if_pos h2]
      exact iff_of_true trivial h2
    · simp only [if_neg h1, if_neg h2, reduceCtorEq]
      exact iff_of_false (fun h => h) h2

theorem TM.halting_qAccept (T : TM σ τ) : T.halting T.qAccept = true := by simp [TM.halting]
theorem TM.halting_qReject (T : TM σ τ) : T.halting T.qReject = true := by simp [TM.halting]

/-! ### the step function -/

theorem TM.action_eq_getD (T : TM σ τ) (q : σ) (a : τ) :
    (T.delta.lookup (q, a)).getD (T.qReject, a, Dir.R) = T.action q a := by
  unfold TM.action; cases T.delta.lookup (q, a) <;> rfl

theorem TM.step_of_action (T : TM σ τ) (c : TMConfig σ τ) {q' : σ} {b : τ} {d : Dir} :
    T.action c.q (c.tape.getD c.head T.blank) = (q', b, d) →
    T.step c =
      { q := q',
        tape := if (match d with | .L => c.head - 1 | .R => c.head + 1) = (c.tape.set c.head b).length
                then c.tape.set c.head b ++ [T.blank] else c.tape.set c.head b,
        head := match d with | .L => c.head - 1 | .R => c.head + 1 } := by
  intro h
  simp only [TM.step, TM.action_eq_getD, h]
  cases d <;> rfl

theorem TM.step_left (T : TM σ τ) (c : TMConfig σ τ) {q' : σ} {b : τ} (hh : c.head < c.tape.length)
    (h : T.action c.q (c.tape.getD c.head T.blank) = (q', b, Dir.L)) :
    T.step c = ⟨q', c.tape.set c.head b, c.head - 1⟩ := by
  rw [T.step_of_action c h]
  have : c.head - 1 ≠ (c.tape.set c.head b).length := by rw [List.length_set]; omega
  simp only [this, if_false]

theorem TM.step_right_lt (T : TM σ τ) (c : TMConfig σ τ) {q' : σ} {b : τ}
    (hh : c.head + 1 < c.tape.length)
    (h : T.action c.q (c.tape.getD c.head T.blank) = (q', b, Dir.R)) :
    T.step c = ⟨q', c.tape.set c.head b, c.head + 1⟩ := by
  rw [T.step_of_action c h]
  have : c.head + 1 ≠ (c.tape.set c.head b).length := by rw [List.length_set]; omega
  simp only [this, if_false]

theorem TM.step_right_eq (T : TM σ τ) (c : TMConfig σ τ) {q' : σ} {b : τ}
    (hh : c.head + 1 = c.tape.length)
    (h : T.action c.q (c.tape.getD c.head T.blank) = (q', b, Dir.R)) :
    T.step c = ⟨q', c.tape.set c.head b ++ [T.blank], c.head + 1⟩ := by
  rw [T.step_of_action c h]
  have : c.head + 1 = (c.tape.set c.head b).length := by rw [List.length_set]; omega
  simp only [this, if_true]

theorem TM.getD_of_getElem? {tape : List τ} {h : Nat} {a bl : τ} (ha : tape[h]? = some a) :
    tape.getD h bl = a := by
  rw [List.getD_eq_getElem?_getD, ha]; rfl

/-- executable step ⇒ spec step (needs the head on the tape) -/
theorem TM.Step_of_step (T : TM σ τ) (c : TMConfig σ τ) (hh : c.head < c.tape.length) :
    T.Step c (T.step c) := by
  obtain ⟨q, tape, h⟩ := c
  simp only at hh
  have ha : tape[h]? = some tape[h] := List.getElem?_eq_getElem hh
  have hg : tape.getD h T.blank = tape[h] := TM.getD_of_getElem? ha
  rcases hact : T.action q tape[h] with ⟨q', b, d⟩
  have hact' : T.action (TMConfig.mk q tape h).q
      ((TMConfig.mk q tape h).tape.getD (TMConfig.mk q tape h).head T.blank) = (q', b, d) := by
    simp only [hg, hact]
  cases d with
  | L =>
    rw [T.step_left _ hh hact']
    exact TM.Step.left ha hact
  | R =>
    by_cases hlt : h + 1 < tape.length
    · rw [T.step_right_lt _ hlt hact']
      exact TM.Step.right ha hact hlt
    · have heq : h + 1 = tape.length := by omega
      rw [T.step_right_eq _ heq hact']
      exact TM.Step.rightExtend ha hact heq

/-- spec step ⇒ executable step (the spec step itself forces the head on the tape) -/
theorem TM.step_of_Step (T : TM σ τ) {c c' : TMConfig σ τ} (hs : T.Step c c') : T.step c = c' := by
  cases hs with
  | @left q q' tape h a b ha hact =>
    have hh : h < tape.length := (List.getElem?_eq_some_iff.mp ha).1
    exact T.step_left ⟨q, tape, h⟩ hh (by simp only [TM.getD_of_getElem? ha, hact])
  | @right q q' tape h a b ha hact hlt =>
    exact T.step_right_lt ⟨q, tape, h⟩ hlt (by simp only [TM.getD_of_getElem? ha, hact])
  | @rightExtend q q' tape h a b ha hact heq =>
    exact T.step_right_eq ⟨q, tape, h⟩ heq (by simp only [TM.getD_of_getElem? ha, hact])

/-- the head invariant is preserved by a step -/
theorem TM.step_head_lt (T : TM σ τ) (c : TMConfig σ τ) (hh : c.head < c.tape.length) :
    (T.step c).head < (T.step c).tape.length := by
  rcases hact : T.action c.q (c.tape.getD c.head T.blank) with ⟨q', b, d⟩
  cases d with
  | L => rw [T.step_left c hh hact]; simp only [List.length_set]; omega
  | R =>
    by_cases hlt : c.head + 1 < c.tape.length
    · rw [T.step_right_lt c hlt hact]; simp only [List.length_set]; exact hlt
    · have heq : c.head + 1 = c.tape.length := by omega
      rw [T.step_right_eq c heq hact]
      simp only [List.length_append, List.length_set, List.length_singleton]; omega

theorem TM.init_head_lt (T : TM σ τ) (w : List τ) : (T.init w).head < (T.init w).tape.length := by
  unfold TM.init
  cases w with
  | nil => simp
  | cons a w => simp

@[simp] theorem TM.init_q (T : TM σ τ) (w : List τ) : (T.init w).q = T.q0 := rfl

/-! ### `stepN` -/

@[simp] theorem TM.stepN_zero (T : TM σ τ) (c : TMConfig σ τ) : T.stepN 0 c = c := rfl

theorem TM.stepN_succ (T : TM σ τ) (i : Nat) (c : TMConfig σ τ) :
    T.stepN (i + 1) c = T.stepN i (T.step c) := rfl

theorem TM.stepN_succ' (T : TM σ τ) (i : Nat) (c : TMConfig σ τ) :
    T.stepN (i + 1) c = T.step (T.stepN i c) := by
  induction i generalizing c with
  | zero => rfl
  | succ i ih => rw [TM.stepN_succ, ih, ← TM.stepN_succ]

theorem TM.stepN_head_lt (T : TM σ τ) (i : Nat) (c : TMConfig σ τ) (hh : c.head < c.tape.length) :
    (T.stepN i c).head < (T.stepN i c).tape.length := by
  induction i generalizing c with
  | zero => exact hh
  | succ i ih => rw [TM.stepN_succ]; exact ih _ (T.step_head_lt c hh)

/-! ### `runLoop` -/

theorem TM.runLoop_eq_some_iff (T : TM σ τ) (k : Nat) (c : TMConfig σ τ) (b : Bool) :
    T.runLoop k c = some b ↔
      ∃ i, 1 ≤ i ∧ i ≤ k ∧ T.verdict (T.stepN i c).q = some b ∧
        ∀ j, 1 ≤ j → j < i → T.halting (T.stepN j c).q = false := by
  induction k generalizing c with
  | zero =>
    simp only [TM.runLoop]
    constructor
    · intro h; cases h
    · rintro ⟨i, h1, h2, _⟩; omega
  | succ k ih =>
    simp only [TM.runLoop]
    cases hv : T.verdict (T.step c).q with
    | some b' =>
      simp only [Option.some.injEq]
      constructor
      · rintro rfl
        exact ⟨1, Nat.le_refl _, by omega, hv, fun j h1 h2 => by omega⟩
      · rintro ⟨i, h1, _, hvi, hmin⟩
        by_cases hi : i = 1
        · subst hi
          have : T.stepN 1 c = T.step c := rfl
          rw [this, hv] at hvi
          exact Option.some.inj hvi
        · have := hmin 1 (Nat.le_refl _) (by omega)
          have h2 : T.stepN 1 c = T.step c := rfl
          rw [h2, T.halting_of_verdict hv] at this
          cases this
    | none =>
      simp only
      rw [ih]
      have hnh : T.halting (T.step c).q = false := (T.verdict_eq_none_iff _).mp hv
      constructor
      · rintro ⟨i, h1, h2, hvi, hmin⟩
        refine ⟨i + 1, by omega, by omega, hvi, ?_⟩
        intro j hj1 hj2
        by_cases hj : j = 1
        · subst hj; exact hnh
        · obtain ⟨j', rfl⟩ : ∃ j', j = j' + 1 := ⟨j - 1, by omega⟩
          rw [TM.stepN_succ]
          exact hmin j' (by omega) (by omega)
      · rintro ⟨i, h1, h2, hvi, hmin⟩
        by_cases hi : i = 1
        · subst hi
          have h2 : T.stepN 1 c = T.step c := rfl
          rw [h2, hv] at hvi
          cases hvi
        · obtain ⟨i', rfl⟩ : ∃ i', i = i' + 1 := ⟨i - 1, by omega⟩
          refine ⟨i', by omega, by omega, hvi, ?_⟩
          intro j hj1 hj2
          have := hmin (j + 1) (by omega) (by omega)
          rw [TM.stepN_succ] at this
          exact this

theorem TM.runLoop_eq_none_iff (T : TM σ τ) (k : Nat) (c : TMConfig σ τ) :
    T.runLoop k c = none ↔ ∀ i, 1 ≤ i → i ≤ k → T.halting (T.stepN i c).q = false := by
  induction k generalizing c with
  | zero =>
    simp only [TM.runLoop, true_iff]
    intro i h1 h2; omega
  | succ k ih =>
    simp only [TM.runLoop]
    cases hv : T.verdict (T.step c).q with
    | some b' =>
      simp only [reduceCtorEq, false_iff]
      intro h
      have := h 1 (Nat.le_refl _) (by omega)
      have h2 : T.stepN 1 c = T.step c := rfl
      rw [h2, T.halting_of_verdict hv] at this
      cases this
    | none =>
      simp only
      rw [ih]
      have hnh : T.halting (T.step c).q = false := (T.verdict_eq_none_iff _).mp hv
      constructor
      · intro h i h1 h2
        by_cases hi : i = 1
        · subst hi; exact hnh
        · obtain ⟨i', rfl⟩ : ∃ i', i = i' + 1 := ⟨i - 1, by omega⟩
          rw [TM.stepN_succ]
          exact h i' (by omega) (by omega)
      · intro h i h1 h2
        have := h (i + 1) (by omega) (by omega)
        rw [TM.stepN_succ] at this
        exact this

/-! ### `accepts` -/

/-- the generic characterisation of a decided verdict: first halting time `i ≤ k`, verdict read there -/
theorem TM.accepts_eq_some_iff (T : TM σ τ) (w : List τ) (k : Nat) (b : Bool) :
    T.accepts w k = some b ↔
      ∃ i, i ≤ k ∧ T.verdict (T.stepN i (T.init w)).q = some b ∧
        ∀ j, j < i → T.halting (T.stepN j (T.init w)).q = false := by
  unfold TM.accepts
  cases hv : T.verdict T.q0 with
  | some b' =>
    simp only [Option.some.injEq]
    constructor
    · rintro rfl
      exact ⟨0, Nat.zero_le _, hv, fun j hj => by omega⟩
    · rintro ⟨i, _, hvi, hmin⟩
      by_cases hi : i = 0
      · subst hi
        simp only [TM.stepN_zero, TM.init_q] at hvi
        rw [hv] at hvi; exact Option.some.inj hvi
      · have := hmin 0 (by omega)
        simp only [TM.stepN_zero, TM.init_q] at this
        rw [T.halting_of_verdict hv] at this; cases this
  | none =>
    simp only
    rw [TM.runLoop_eq_some_iff]
    have hnh : T.halting T.q0 = false := (T.verdict_eq_none_iff _).mp hv
    constructor
    · rintro ⟨i, h1, h2, hvi, hmin⟩
      refine ⟨i, h2, hvi, ?_⟩
      intro j hj
      by_cases hj0 : j = 0
      · subst hj0; exact hnh
      · exact hmin j (by omega) hj
    · rintro ⟨i, h2, hvi, hmin⟩
      by_cases hi : i = 0
      · subst hi
        simp only [TM.stepN_zero, TM.init_q] at hvi
        rw [hv] at hvi; cases hvi
      · exact ⟨i, by omega, h2, hvi, fun j _ hj => hmin j hj⟩

theorem TM.accepts_eq_none_iff (T : TM σ τ) (w : List τ) (k : Nat) :
    T.accepts w k = none ↔ ∀ i, i ≤ k → T.halting (T.stepN i (T.init w)).q = false := by
  unfold TM.accepts
  cases hv : T.verdict T.q0 with
  | some b' =>
    simp only [reduceCtorEq, false_iff]
    intro h
    have := h 0 (Nat.zero_le _)
    simp only [TM.stepN_zero, TM.init_q] at this
    rw [T.halting_of_verdict hv] at this; cases this
  | none =>
    simp only
    rw [TM.runLoop_eq_none_iff]
    have hnh : T.halting T.q0 = false := (T.verdict_eq_none_iff _).mp hv
    constructor
    · intro h i hi
      by_cases hi0 : i = 0
      · subst hi0; exact hnh
      · exact h i (by omega) hi
    · intro h i _ hi
      exact h i hi

/-! ### `traceLoop` / `simulate` -/

theorem TM.traceLoop_length_le (T : TM σ τ) (k : Nat) (c : TMConfig σ τ) :
    (T.traceLoop k c).length ≤ k := by
  induction k generalizing c with
  | zero => simp [TM.traceLoop]
  | succ k ih =>
    simp only [TM.traceLoop]
    split
    · simp
    · simp only [List.length_cons]; have := ih (T.step c); omega

theorem TM.traceLoop_getElem? (T : TM σ τ) (k : Nat) (c : TMConfig σ τ) (i : Nat)
    (hi : i < (T.traceLoop k c).length) :
    (T.traceLoop k c)[i]? = some (T.stepN (i + 1) c) := by
  induction k generalizing c i with
  | zero => simp [TM.traceLoop] at hi
  | succ k ih =>
    simp only [TM.traceLoop] at hi ⊢
    split at hi
    · rename_i hh
      simp only [hh, if_true]
      simp only [List.length_singleton] at hi
      have : i = 0 := by omega
      subst this; rfl
    · rename_i hh
      simp only [hh]
      cases i with
      | zero => rfl
      | succ i =>
        simp only [List.length_cons] at hi
        simp only [Bool.false_eq_true, if_false, List.getElem?_cons_succ]
        rw [ih (T.step c) i (by omega)]
        rfl

theorem TM.traceLoop_nonhalting (T : TM σ τ) (k : Nat) (c : TMConfig σ τ) (i : Nat)
    (hi : i + 1 < (T.traceLoop k c).length) :
    T.halting (T.stepN (i + 1) c).q = false := by
  induction k generalizing c i with
  | zero => simp [TM.traceLoop] at hi
  | succ k ih =>
    simp only [TM.traceLoop] at hi
    split at hi
    · simp only [List.length_singleton] at hi; omega
    · rename_i hh
      simp only [List.length_cons] at hi
      cases i with
      | zero =>
        have : T.stepN 1 c = T.step c := rfl
        rw [this]
        cases hq : T.halting (T.step c).q with
        | false => rfl
        | true => exact absurd hq hh
      | succ i =>
        rw [TM.stepN_succ]
        exact ih (T.step c) i (by omega)

theorem TM.traceLoop_getLast (T : TM σ τ) (k : Nat) (c : TMConfig σ τ)
    (hc : T.halting c.q = false) :
    (c :: T.traceLoop k c).getLast?.map (fun c => T.verdict c.q) = some (T.runLoop k c) := by
  induction k generalizing c with
  | zero =>
    simp only [TM.traceLoop, TM.runLoop, List.getLast?_singleton, Option.map_some,
      (T.verdict_eq_none_iff c.q).mpr hc]
  | succ k ih =>
    simp only [TM.traceLoop, TM.runLoop]
    cases hq : T.halting (T.step c).q with
    | true =>
      obtain ⟨b, hb⟩ := T.verdict_isSome_of_halting hq
      simp only [if_true, hb]
      simp [List.getLast?_cons_cons, hb]
    | false =>
      have hv := (T.verdict_eq_none_iff _).mpr hq
      simp only [hv, Bool.false_eq_true, if_false]
      rw [List.getLast?_cons_cons]
      exact ih (T.step c) hq

/-! ### a concrete machine for the non-vacuity examples

`demoTM` first performs a left move at cell 0 (stays put), then walks right over `a`s and accepts at the
blank; a `b` has no transition, so the machine falls into the rejecting state. -/

def demoTM : TM String String where
  Q := ["s", "r", "acc", "rej"]
  Sigma := ["a", "b"]
  Gamma := ["a", "b", "_"]
  delta := [(("s", "a"), ("r", "a", Dir.L)), (("s", "_"), ("r", "_", Dir.L)),
            (("r", "a"), ("r", "a", Dir.R)), (("r", "_"), ("acc", "_", Dir.R))]
  q0 := "s"
  qAccept := "acc"
  qReject := "rej"
  blank := "_"

end Gamba
