/-
  Gamba.Proofs.C08d — helpers for the composition of the five CNF phases (`toChomsky`,
  `applyChomsky`, `accepts` on arbitrary grammars): the small facts the phase theorems do not
  export (`Sigma` is never changed), `isChomsky` from the three postconditions, and the threaded
  pipeline `Pipe`.  The phase theorems of `Gamba/Props/C08a|b|c.lean` are composed as stated.
-/
import Gamba.Model.CFG
import Gamba.Spec.CFG
import Gamba.Proofs.CFGBasic
import Gamba.Props.C08a
import Gamba.Props.C08b
import Gamba.Props.C08c
import Gamba.Props.C07
namespace Gamba
namespace CFG
namespace C08d

theorem hfresh : ∀ (V : List String) (hint : String), CFG.freshVariable V hint ∉ V :=
  freshVariable_fresh

/-! ### `Sigma` is not touched by phases 4 and 5 (phases 1–3: `rfl`) -/

theorem binariseStep_Sigma (G : CFG) (i : Nat) : (binariseStep G i).Sigma = G.Sigma := by
  rcases C08c.binariseStep_cases hfresh G i with ⟨he, _⟩ | ⟨_, _, _, _, _, _, hc⟩
  · rw [he]
  · exact hc.hSigma

theorem foldl_binariseStep_Sigma (l : List Nat) (G : CFG) : (l.foldl binariseStep G).Sigma = G.Sigma := by
  induction l generalizing G with
  | nil => rfl
  | cons i l ih => rw [List.foldl_cons, ih, binariseStep_Sigma]

theorem binarise_Sigma (G : CFG) : G.binarise.Sigma = G.Sigma :=
  foldl_binariseStep_Sigma _ G

theorem isolateTerminals_Sigma (G : CFG) : G.isolateTerminals.Sigma = G.Sigma := by
  unfold isolateTerminals
  generalize isolateLoop ⟨G.V, []⟩ [] G.R = res
  obtain ⟨acc, R'⟩ := res
  rfl

/-! ### the recogniser `isChomsky` from the three postconditions -/

theorem isChomsky_of {G : CFG} (h1 : AllCnfShaped G) (h2 : StartNotOnRhs G) (h3 : NoEpsExceptStart G) :
    G.isChomsky = true := by
  unfold isChomsky
  rw [Bool.and_eq_true, List.all_eq_true, List.all_eq_true]
  refine ⟨fun r hr => ?_, fun r hr => ?_⟩
  · rw [Bool.and_eq_true, decide_eq_true_eq]
    exact ⟨h1 r hr, h2 r hr⟩
  · cases hrhs : r.rhs with
    | nil => simp [h3 r hr hrhs]
    | cons x xs => simp

/-- `isChomsky` gives the three postconditions back -/
theorem of_isChomsky {G : CFG} (h : G.isChomsky = true) :
    AllCnfShaped G ∧ StartNotOnRhs G ∧ NoEpsExceptStart G := by
  unfold isChomsky at h
  rw [Bool.and_eq_true, List.all_eq_true, List.all_eq_true] at h
  refine ⟨fun r hr => ?_, fun r hr => ?_, fun r hr he => ?_⟩
  · have := h.1 r hr
    rw [Bool.and_eq_true] at this
    exact this.1
  · have := h.1 r hr
    rw [Bool.and_eq_true, decide_eq_true_eq] at this
    exact this.2
  · have := h.2 r hr
    rw [he] at this
    simpa using this

/-! ### `accepts` on a grammar that is not in CNF -/

theorem accepts_of_not_chomsky (G : CFG) (w : List String) (hc : G.isChomsky = false)
    (hc' : G.toChomsky.isChomsky = true) : G.accepts w = G.toChomsky.accepts w := by
  unfold accepts
  simp only [hc, hc', if_true, Bool.false_eq_true, if_false]

/-! ### the threaded pipeline -/

/-- everything the composition needs about the five stages of the conversion of `G` with start hint `start` -/
structure Pipe (G : CFG) (start : String) : Prop where
  l1 : ∀ w, (G.addStart start).Lang w ↔ G.Lang w
  l2 : ∀ w, (G.addStart start).removeEps.Lang w ↔ G.Lang w
  l3 : ∀ w, (G.addStart start).removeEps.elimUnit.Lang w ↔ G.Lang w
  l4 : ∀ w, (G.addStart start).removeEps.elimUnit.binarise.Lang w ↔ G.Lang w
  l5 : ∀ w, (G.addStart start).removeEps.elimUnit.binarise.isolateTerminals.Lang w ↔ G.Lang w
  valid5 : (G.addStart start).removeEps.elimUnit.binarise.isolateTerminals.valid = true
  chomsky5 : (G.addStart start).removeEps.elimUnit.binarise.isolateTerminals.isChomsky = true
  S5 : (G.addStart start).removeEps.elimUnit.binarise.isolateTerminals.S ∈
    (G.addStart start).removeEps.elimUnit.binarise.isolateTerminals.V
  V5 : ∀ A, A ∈ G.V → A ∈ (G.addStart start).removeEps.elimUnit.binarise.isolateTerminals.V
  Sigma5 : (G.addStart start).removeEps.elimUnit.binarise.isolateTerminals.Sigma = G.Sigma

/-- the first two phases need no disjointness -/
theorem pipe12 (G : CFG) (start : String) (hv : G.valid = true) (hS : G.S ∈ G.V) :
    (∀ w, (G.addStart start).Lang w ↔ G.Lang w) ∧
    (∀ w, (G.addStart start).removeEps.Lang w ↔ G.Lang w) := by
  obtain ⟨v1, _, _, _, _, _, l1⟩ := addStart_spec G start hv hS
  obtain ⟨_, _, _, _, _, _, l2⟩ := removeEps_spec (G.addStart start) v1
  exact ⟨l1, fun w => (l2 w).trans (l1 w)⟩

theorem pipe (G : CFG) (start : String) (hv : G.valid = true) (hS : G.S ∈ G.V) (ha : AliasOK G)
    (hd : ∀ a, a ∈ G.Sigma → a ∉ G.V ∧ a ≠ freshVariable G.V start) : Pipe G start := by
  -- phase 1
  obtain ⟨v1, _, s1, V1, sr1, a1, l1⟩ := addStart_spec G start hv hS
  have a1 := a1 ha
  -- phase 2
  obtain ⟨v2, S2, V2, ne2, a2, sr2, l2⟩ := removeEps_spec (G.addStart start) v1
  have sr2 := sr2 sr1
  have s2 : (G.addStart start).removeEps.S ∈ (G.addStart start).removeEps.V := by
    rw [S2, V2]; exact s1
  have d2 : Disjoint (G.addStart start).removeEps := by
    intro x hx hxs
    rw [V2] at hx
    have hxs' : x ∈ G.Sigma := hxs
    rcases (V1 x).mp hx with h | h
    · exact (hd x hxs').1 h
    · exact (hd x hxs').2 h
  -- phase 3
  obtain ⟨v3, S3, V3, nu3, ne3, sr3, a3, l3⟩ := elimUnit_spec (G.addStart start).removeEps v2 d2
  have ne3 := ne3 ne2 sr2
  have sr3 := sr3 sr2
  have a3 := a3 a2
  have s3 : (G.addStart start).removeEps.elimUnit.S ∈ (G.addStart start).removeEps.elimUnit.V := by
    rw [S3, V3]; exact s2
  -- phase 4
  obtain ⟨v4, S4, V4, le4, a4, nu4, ne4, sr4, l4⟩ :=
    binarise_spec hfresh (G.addStart start).removeEps.elimUnit v3 a3
  have nu4 := nu4 nu3
  have ne4 := ne4 ne3
  have sr4 := sr4 s3 sr3
  have l4 := l4 s3
  have s4 : (G.addStart start).removeEps.elimUnit.binarise.S ∈
      (G.addStart start).removeEps.elimUnit.binarise.V := by
    rw [S4]; exact V4 _ s3
  -- phase 5
  obtain ⟨v5, S5, V5, cnf5, ne5, sr5, l5⟩ :=
    isolateTerminals_spec hfresh (G.addStart start).removeEps.elimUnit.binarise v4 a4
  have cnf5 := cnf5 le4 nu4
  have ne5 := ne5 ne4
  have sr5 := sr5 s4 sr4
  have l5 := l5 s4
  have s5 : (G.addStart start).removeEps.elimUnit.binarise.isolateTerminals.S ∈
      (G.addStart start).removeEps.elimUnit.binarise.isolateTerminals.V := by
    rw [S5]; exact V5 _ s4
  have L2 : ∀ w, (G.addStart start).removeEps.Lang w ↔ G.Lang w := fun w => (l2 w).trans (l1 w)
  have L3 : ∀ w, (G.addStart start).removeEps.elimUnit.Lang w ↔ G.Lang w := fun w => (l3 w).trans (L2 w)
  have L4 : ∀ w, (G.addStart start).removeEps.elimUnit.binarise.Lang w ↔ G.Lang w :=
    fun w => (l4 w).trans (L3 w)
  refine ⟨l1, L2, L3, L4, fun w => (l5 w).trans (L4 w), v5, isChomsky_of cnf5 sr5 ne5, s5, ?_, ?_⟩
  · intro A hA
    apply V5; apply V4
    rw [V3, V2]
    exact (V1 A).mpr (Or.inl hA)
  · rw [isolateTerminals_Sigma, binarise_Sigma]
    rfl

/-! ### the phase selector -/

theorem applyChomsky_0 (G : CFG) (start : String) : G.applyChomsky 0 start = G := by
  simp [applyChomsky]

theorem applyChomsky_1 (G : CFG) (start : String) : G.applyChomsky 1 start = G.addStart start := by
  simp [applyChomsky]

theorem applyChomsky_2 (G : CFG) (start : String) :
    G.applyChomsky 2 start = (G.addStart start).removeEps := by
  simp [applyChomsky]

theorem applyChomsky_3 (G : CFG) (start : String) :
    G.applyChomsky 3 start = (G.addStart start).removeEps.elimUnit := by
  simp [applyChomsky]

theorem applyChomsky_4 (G : CFG) (start : String) :
    G.applyChomsky 4 start = (G.addStart start).removeEps.elimUnit.binarise := by
  simp [applyChomsky]

theorem applyChomsky_ge5 (G : CFG) (phase : Nat) (start : String) (h : 5 ≤ phase) :
    G.applyChomsky phase start = (G.addStart start).removeEps.elimUnit.binarise.isolateTerminals := by
  have h1 : phase ≥ 1 := by omega
  have h2 : phase ≥ 2 := by omega
  have h3 : phase ≥ 3 := by omega
  have h4 : phase ≥ 4 := by omega
  have h5 : phase ≥ 5 := h
  simp only [applyChomsky, h1, h2, h3, h4, h5, if_true]

theorem toChomsky_eq_applyChomsky (G : CFG) : G.toChomsky = G.applyChomsky 5 "S" :=
  (applyChomsky_ge5 G 5 "S" (Nat.le_refl 5)).symm

end C08d
end CFG
end Gamba
