/-
  Gamba.Proofs.C17m — layout independence (C17) for the PDA and TM builders: `parsePdaLines` / `parseTmLines`
  (the builders on a list of lines), their congruence under `Raw.Equiv`, and the layout theorems used by
  Props/C17m.lean.
-/
import Gamba.Proofs.C17l
import Gamba.Proofs.C16c
namespace Gamba
namespace Parse
open Text

/-! ### the PDA builder on a list of lines -/

/-- everything `parse_pda` does after the line parser -/
def pdaOfRaw (A0 : Raw) (stateOk : Word → Bool) : Except Err SPDA :=
  (commonChecks A0 [] stateOk).bind fun A =>
  (parseSymbol A "epsilon" 'ε' "_").bind fun eps =>
  (getSymbolSet A "input_symbols" (pdaUsedIn A eps)).bind fun Sigma =>
  (getSymbolSet A "stack_symbols" (pdaUsedSt A eps)).bind fun Gamma =>
  if !wordsOk Sigma then .error .runtimeError else
  PDA.checked { Q := A.states, Sigma := Sigma, Gamma := Gamma, delta := pdaDelta A.transitions, q0 := initialOf A,
                F := A.final, eps := eps, epsG := eps }

/-- `parsePda` on the list of lines of the text -/
def parsePdaLines (ls : List Word) (stateOk : Word → Bool := isWord) : Except Err SPDA :=
  (parseLines .pda stateOk ls).bind fun A0 => pdaOfRaw A0 stateOk

theorem parsePda_eq_lines (text : Word) (ok : Word → Bool) :
    parsePda text ok = parsePdaLines (splitOn '\n' text) ok := rfl

/-- everything `parse_tm` does after the line parser -/
def tmOfRaw (A0 : Raw) (stateOk : Word → Bool) : Except Err (TM String String) :=
  (getState A0 "accept" (tmFresh A0.states "accept")).bind fun qa =>
  (getState A0 "reject" (tmFresh A0.states "reject")).bind fun qr =>
  (commonChecks A0 [qa, qr] stateOk).bind fun A =>
  (parseSymbol A "blank" '□' "_").bind fun blank =>
  (getSymbolSet A "tape_symbols" (tmUsedTape A)).bind fun tape =>
  TM.checked { Q := A.states, Sigma := tmSigma A tape blank, Gamma := sinsert tape blank, delta := tmDelta A.transitions,
               q0 := initialOf A, qAccept := qa, qReject := qr, blank := blank }

/-- `parseTm` on the list of lines of the text -/
def parseTmLines (ls : List Word) (stateOk : Word → Bool := isWord) : Except Err (TM String String) :=
  (parseLines .tm stateOk ls).bind fun A0 => tmOfRaw A0 stateOk

theorem parseTm_eq_lines (text : Word) (ok : Word → Bool) :
    parseTm text ok = parseTmLines (splitOn '\n' text) ok := rfl

/-! ### small facts -/

theorem mem_flatMap_of_perm {α β : Type} {l l' : List α} (hp : l.Perm l') (f : α → List β) (b : β) :
    b ∈ l.flatMap f ↔ b ∈ l'.flatMap f := by
  simp only [List.mem_flatMap]
  constructor
  · rintro ⟨a, ha, hb⟩; exact ⟨a, hp.mem_iff.mp ha, hb⟩
  · rintro ⟨a, ha, hb⟩; exact ⟨a, hp.mem_iff.mpr ha, hb⟩

theorem getSymbolSet_used_mem {A : Raw} {key : String} {used S : List String} (h : getSymbolSet A key used = .ok S) :
    ∀ a, a ∈ used → a ∈ S := by
  intro a ha
  rw [getSymbolSet_mem h a]
  cases hl : A.items.lookup key with
  | none => exact ha
  | some d => exact getSymbolSet_used_sub h hl a ha

theorem mem_foldl_set {κ ν α : Type} [DecidableEq κ] (key : α → κ) (val : α → ν) (ts : List α) (d0 : Dict κ ν)
    {e : κ × ν} (he : e ∈ ts.foldl (fun d t => d.set (key t) (val t)) d0) :
    e ∈ d0 ∨ ∃ t, t ∈ ts ∧ e = (key t, val t) := by
  induction ts generalizing d0 with
  | nil => exact Or.inl he
  | cons t ts ih =>
    rw [List.foldl_cons] at he
    rcases ih _ he with h | ⟨t', h1, h2⟩
    · rcases C16c.mem_set h with h | h
      · exact Or.inr ⟨t, by simp, h⟩
      · exact Or.inl h
    · exact Or.inr ⟨t', List.mem_cons_of_mem _ h1, h2⟩

/-- the shared builder checks (with extra states, as for TMs) respect the equivalence -/
theorem commonChecks_congr_extra {A0 B0 A : Raw} {ok : Word → Bool} (extra : List String) (h : Raw.Equiv A0 B0)
    (hc : commonChecks A0 extra ok = .ok A) :
    ∃ B, commonChecks B0 extra ok = .ok B ∧ B.states.Perm A.states ∧ (A0.states ≠ [] → B.states = A.states) ∧
      B.initial = A.initial ∧ B.final = A.final ∧ (∀ key, B.items.lookup key = A.items.lookup key) ∧
      B.transitions.Perm A.transitions := by
  obtain ⟨rfl, c1, c2, c3⟩ := commonChecks_ok hc
  have hu := usedStates_mem_congr h
  obtain ⟨h1, h2, h3, h4, h5⟩ := h
  have hS : (if B0.states.isEmpty then dedup (usedStates B0 ++ extra) else B0.states).Perm
      (if A0.states.isEmpty then dedup (usedStates A0 ++ extra) else A0.states) := by
    rw [← h1]
    split
    · rw [List.perm_ext_iff_of_nodup (nodup_dedup _) (nodup_dedup _)]
      intro q
      simp only [mem_dedup, List.mem_append, hu q]
    · exact List.Perm.refl _
  have hS' : A0.states ≠ [] → (if B0.states.isEmpty then dedup (usedStates B0 ++ extra) else B0.states) =
      (if A0.states.isEmpty then dedup (usedStates A0 ++ extra) else A0.states) := by
    intro hne
    have he : A0.states.isEmpty = false := by cases hA : A0.states <;> simp_all
    rw [← h1, he]; rfl
  refine ⟨{ B0 with states := if B0.states.isEmpty then dedup (usedStates B0 ++ extra) else B0.states }, ?_,
    hS, hS', h2.symm, h3.symm, fun key => (h4 key).symm, h5.symm⟩
  unfold commonChecks
  simp only
  have e1 : ssubset (usedStates B0) (if B0.states.isEmpty then dedup (usedStates B0 ++ extra) else B0.states) = true := by
    rw [ssubset_iff]
    intro q hq
    exact hS.mem_iff.mpr (c1 q ((hu q).mpr hq))
  have e2 : ((if B0.states.isEmpty then dedup (usedStates B0 ++ extra) else B0.states).all fun s => ok s.toList) = true := by
    rw [List.all_eq_true]
    intro q hq
    exact c2 q (hS.mem_iff.mp hq)
  have e3 : B0.initial.length = 1 := by rw [← h2]; exact c3
  generalize (if B0.states.isEmpty then dedup (usedStates B0 ++ extra) else B0.states) = S at e1 e2 ⊢
  simp [e1, e2, e3]

/-! ### the PDA builder respects the equivalence of raw records -/

theorem pdaOfRaw_ok_unpack {A0 : Raw} {ok : Word → Bool} {P : SPDA} (h : pdaOfRaw A0 ok = .ok P) :
    ∃ A eps Sigma Gamma, commonChecks A0 [] ok = .ok A ∧ parseSymbol A "epsilon" 'ε' "_" = .ok eps ∧
      getSymbolSet A "input_symbols" (pdaUsedIn A eps) = .ok Sigma ∧
      getSymbolSet A "stack_symbols" (pdaUsedSt A eps) = .ok Gamma ∧ wordsOk Sigma = true ∧
      PDA.checked { Q := A.states, Sigma := Sigma, Gamma := Gamma, delta := pdaDelta A.transitions, q0 := initialOf A,
                    F := A.final, eps := eps, epsG := eps } = .ok P := by
  unfold pdaOfRaw at h
  obtain ⟨A, h1, h⟩ := bind_ok h
  obtain ⟨eps, h2, h⟩ := bind_ok h
  obtain ⟨Sigma, h3, h⟩ := bind_ok h
  obtain ⟨Gamma, h4, h⟩ := bind_ok h
  split at h
  · cases h
  · rename_i h5
    exact ⟨A, eps, Sigma, Gamma, h1, h2, h3, h4, by simpa using h5, h⟩

theorem pdaOfRaw_eq_of {A0 A : Raw} {ok : Word → Bool} {eps : String} {Sigma Gamma : List String}
    (h1 : commonChecks A0 [] ok = .ok A) (h2 : parseSymbol A "epsilon" 'ε' "_" = .ok eps)
    (h3 : getSymbolSet A "input_symbols" (pdaUsedIn A eps) = .ok Sigma)
    (h4 : getSymbolSet A "stack_symbols" (pdaUsedSt A eps) = .ok Gamma) (h5 : wordsOk Sigma = true) :
    pdaOfRaw A0 ok =
      PDA.checked { Q := A.states, Sigma := Sigma, Gamma := Gamma, delta := pdaDelta A.transitions, q0 := initialOf A,
                    F := A.final, eps := eps, epsG := eps } := by
  unfold pdaOfRaw
  simp only [Except.bind, h1, h2, h3, h4, h5]
  simp

theorem mem_pdaDelta_lookup (ts : List (String × Word × String)) (k : String × String × String) (x : String × String) :
    x ∈ ((pdaDelta ts).lookup k).getD [] ↔
      ∃ t, t ∈ ts ∧ (t.1, ch t.2.1 0, ch t.2.1 2) = k ∧ (t.2.2, ch t.2.1 3) = x := by
  unfold pdaDelta
  rw [C16c.mem_lookup_foldl_add (fun t : String × Word × String => (t.1, ch t.2.1 0, ch t.2.1 2))
    (fun t => (t.2.2, ch t.2.1 3))]
  simp only [List.lookup_nil, Option.getD_none, List.not_mem_nil, false_or]

theorem pdaDelta_entry {ts : List (String × Word × String)} {e : (String × String × String) × List (String × String)}
    (he : e ∈ pdaDelta ts) :
    (∃ t, t ∈ ts ∧ (t.1, ch t.2.1 0, ch t.2.1 2) = e.1) ∧
      ∀ x, x ∈ e.2 → ∃ t, t ∈ ts ∧ (t.1, ch t.2.1 0, ch t.2.1 2) = e.1 ∧ (t.2.2, ch t.2.1 3) = x := by
  unfold pdaDelta at he
  constructor
  · rcases C16c.mem_foldl_add_key (fun t : String × Word × String => (t.1, ch t.2.1 0, ch t.2.1 2))
      (fun t => (t.2.2, ch t.2.1 3)) ts [] he with ⟨e0, h0, _⟩ | h
    · cases h0
    · exact h
  · intro x hx
    rcases C16c.mem_foldl_add (fun t : String × Word × String => (t.1, ch t.2.1 0, ch t.2.1 2))
      (fun t => (t.2.2, ch t.2.1 3)) ts [] he x hx with ⟨e0, h0, _⟩ | h
    · cases h0
    · exact h

/-- the PDA builder respects the equivalence of raw records; the transition table has the same target sets -/
theorem pdaOfRaw_congr {A0 B0 : Raw} {ok : Word → Bool} {P : SPDA} (h : Raw.Equiv A0 B0)
    (hP : pdaOfRaw A0 ok = .ok P) :
    ∃ P', pdaOfRaw B0 ok = .ok P' ∧ P'.Q.Perm P.Q ∧ (A0.states ≠ [] → P'.Q = P.Q) ∧ P'.q0 = P.q0 ∧ P'.F = P.F ∧
      P'.eps = P.eps ∧ P'.epsG = P.epsG ∧ (∀ a, a ∈ P'.Sigma ↔ a ∈ P.Sigma) ∧ (∀ g, g ∈ P'.Gamma ↔ g ∈ P.Gamma) ∧
      ∀ k x, x ∈ (P'.delta.lookup k).getD [] ↔ x ∈ (P.delta.lookup k).getD [] := by
  obtain ⟨A, eps, Sigma, Gamma, h1, h2, h3, h4, h5, h6⟩ := pdaOfRaw_ok_unpack hP
  obtain ⟨rfl, hv⟩ := PDA.checked_ok h6
  obtain ⟨B, g1, gS, gS', gi, gf, gl, gt⟩ := commonChecks_congr h h1
  have g2 : parseSymbol B "epsilon" 'ε' "_" = .ok eps := (parseSymbol_congr (gl "epsilon") gt).trans h2
  have huI : ∀ a, a ∈ pdaUsedIn B eps ↔ a ∈ pdaUsedIn A eps := by
    intro a
    simp only [pdaUsedIn, mem_dedup]
    exact ((gt.map _).filter _).mem_iff
  have huS : ∀ a, a ∈ pdaUsedSt B eps ↔ a ∈ pdaUsedSt A eps := by
    intro a
    simp only [pdaUsedSt, mem_dedup]
    rw [List.mem_filter, List.mem_filter, mem_flatMap_of_perm gt]
  obtain ⟨Sigma', g3, hSig⟩ := getSymbolSet_congr (gl "input_symbols") huI h3
  obtain ⟨Gamma', g4, hGam⟩ := getSymbolSet_congr (gl "stack_symbols") huS h4
  have g5 : wordsOk Sigma' = true := by
    simp only [wordsOk, List.all_eq_true] at h5 ⊢
    intro a ha
    exact h5 a ((hSig a).mp ha)
  have hq0 : initialOf B = initialOf A := by simp only [initialOf, gi]
  have hsucc : ∀ k x, x ∈ ((pdaDelta B.transitions).lookup k).getD [] ↔ x ∈ ((pdaDelta A.transitions).lookup k).getD [] := by
    intro k x
    rw [mem_pdaDelta_lookup, mem_pdaDelta_lookup]
    constructor
    · rintro ⟨t, ht, r⟩; exact ⟨t, gt.mem_iff.mp ht, r⟩
    · rintro ⟨t, ht, r⟩; exact ⟨t, gt.mem_iff.mpr ht, r⟩
  have hvalid : PDA.valid
      ({ Q := B.states, Sigma := Sigma', Gamma := Gamma', delta := pdaDelta B.transitions, q0 := initialOf B,
         F := B.final, eps := eps, epsG := eps } : SPDA) = true := by
    obtain ⟨v1, v2, v3, v4, v5⟩ := (PDA.valid_iff' _).mp hv
    rw [PDA.valid_iff']
    -- every target of the rebuilt table is a target of the original one, whose entries are closed
    have key : ∀ k x, x ∈ ((pdaDelta B.transitions).lookup k).getD [] →
        k.1 ∈ A.states ∧ (k.2.1 ∈ Sigma ∨ k.2.1 = eps) ∧ (k.2.2 ∈ Gamma ∨ k.2.2 = eps) ∧
          x.1 ∈ A.states ∧ (x.2 ∈ Gamma ∨ x.2 = eps) := by
      intro k x hx
      have hxA := (hsucc k x).mp hx
      cases hlk : (pdaDelta A.transitions).lookup k with
      | none => rw [hlk] at hxA; simp at hxA
      | some T' =>
        rw [hlk] at hxA
        simp only [Option.getD_some] at hxA
        obtain ⟨w1, w2, w3, w4⟩ := v5 (k, T') (mem_of_lookup_eq_some hlk)
        exact ⟨w1, w2, w3, w4 x hxA⟩
    refine ⟨?_, ?_, ?_, ?_, ?_⟩
    · show initialOf B ∈ B.states
      rw [hq0]; exact gS.mem_iff.mpr v1
    · intro he
      exact v2 ((hSig _).mp he)
    · intro he
      exact v3 ((hGam _).mp he)
    · intro f hf
      have hf' : f ∈ B.final := hf
      rw [gf] at hf'
      exact gS.mem_iff.mpr (v4 f hf')
    · intro e he
      obtain ⟨⟨t0, ht0, hk0⟩, hall⟩ := pdaDelta_entry he
      have hx0 : (t0.2.2, ch t0.2.1 3) ∈ ((pdaDelta B.transitions).lookup e.1).getD [] :=
        (mem_pdaDelta_lookup _ _ _).mpr ⟨t0, ht0, hk0, rfl⟩
      obtain ⟨w1, w2, w3, _, _⟩ := key e.1 _ hx0
      refine ⟨gS.mem_iff.mpr w1, ?_, ?_, ?_⟩
      · rcases w2 with w2 | w2
        · exact Or.inl ((hSig _).mpr w2)
        · exact Or.inr w2
      · rcases w3 with w3 | w3
        · exact Or.inl ((hGam _).mpr w3)
        · exact Or.inr w3
      · intro x hx
        obtain ⟨t, ht, hk, hx'⟩ := hall x hx
        obtain ⟨_, _, _, w4, w5⟩ := key e.1 x ((mem_pdaDelta_lookup _ _ _).mpr ⟨t, ht, hk, hx'⟩)
        refine ⟨gS.mem_iff.mpr w4, ?_⟩
        rcases w5 with w5 | w5
        · exact Or.inl ((hGam _).mpr w5)
        · exact Or.inr w5
  refine ⟨
    { Q := B.states, Sigma := Sigma', Gamma := Gamma', delta := pdaDelta B.transitions, q0 := initialOf B,
      F := B.final, eps := eps, epsG := eps },
    (pdaOfRaw_eq_of g1 g2 g3 g4 g5).trans (by simp only [PDA.checked, hvalid]; rfl), gS, ?_, hq0, gf, rfl, rfl, hSig, hGam,
    hsucc⟩
  intro hne
  exact gS' hne

theorem parsePdaLines_ok_unpack {ls : List Word} {ok : Word → Bool} {P : SPDA}
    (h : parsePdaLines ls ok = .ok P) : ∃ A0, parseLines .pda ok ls = .ok A0 ∧ pdaOfRaw A0 ok = .ok P :=
  bind_ok h

theorem parsePdaLines_eq_of {ls : List Word} {ok : Word → Bool} {A0 : Raw} (h : parseLines .pda ok ls = .ok A0) :
    parsePdaLines ls ok = pdaOfRaw A0 ok := by
  unfold parsePdaLines
  simp only [Except.bind, h]

/-- the PDA builder on two layouts of the same lines -/
theorem parsePdaLines_layout (ok : Word → Bool) {ls ls' : List Word} (hp : (normLines ls).Perm (normLines ls'))
    {P : SPDA} (h : parsePdaLines ls ok = .ok P) :
    ∃ A0 P', parseLines .pda ok ls = .ok A0 ∧ parsePdaLines ls' ok = .ok P' ∧ P'.Q.Perm P.Q ∧
      (A0.states ≠ [] → P'.Q = P.Q) ∧ P'.q0 = P.q0 ∧ P'.F = P.F ∧ P'.eps = P.eps ∧ P'.epsG = P.epsG ∧
      (∀ a, a ∈ P'.Sigma ↔ a ∈ P.Sigma) ∧ (∀ g, g ∈ P'.Gamma ↔ g ∈ P.Gamma) ∧
      ∀ k x, x ∈ (P'.delta.lookup k).getD [] ↔ x ∈ (P.delta.lookup k).getD [] := by
  obtain ⟨A0, h0, hP⟩ := parsePdaLines_ok_unpack h
  have he := parseLines_layout .pda ok hp
  rw [h0] at he
  obtain ⟨B0, hB, hE⟩ := he.ok_left
  obtain ⟨P', hP', r⟩ := pdaOfRaw_congr hE hP
  exact ⟨A0, P', h0, (parsePdaLines_eq_of hB).trans hP', r⟩


/-! ### the TM builder respects the equivalence of raw records -/

theorem tmOfRaw_ok_unpack {A0 : Raw} {ok : Word → Bool} {T : TM String String} (h : tmOfRaw A0 ok = .ok T) :
    ∃ qa qr A blank tape, getState A0 "accept" (tmFresh A0.states "accept") = .ok qa ∧
      getState A0 "reject" (tmFresh A0.states "reject") = .ok qr ∧ commonChecks A0 [qa, qr] ok = .ok A ∧
      parseSymbol A "blank" '□' "_" = .ok blank ∧ getSymbolSet A "tape_symbols" (tmUsedTape A) = .ok tape ∧
      TM.checked { Q := A.states, Sigma := tmSigma A tape blank, Gamma := sinsert tape blank,
                   delta := tmDelta A.transitions, q0 := initialOf A, qAccept := qa, qReject := qr, blank := blank } =
        .ok T := by
  unfold tmOfRaw at h
  obtain ⟨qa, h1, h⟩ := bind_ok h
  obtain ⟨qr, h2, h⟩ := bind_ok h
  obtain ⟨A, h3, h⟩ := bind_ok h
  obtain ⟨blank, h4, h⟩ := bind_ok h
  obtain ⟨tape, h5, h⟩ := bind_ok h
  exact ⟨qa, qr, A, blank, tape, h1, h2, h3, h4, h5, h⟩

theorem tmOfRaw_eq_of {A0 A : Raw} {ok : Word → Bool} {qa qr blank : String} {tape : List String}
    (h1 : getState A0 "accept" (tmFresh A0.states "accept") = .ok qa)
    (h2 : getState A0 "reject" (tmFresh A0.states "reject") = .ok qr) (h3 : commonChecks A0 [qa, qr] ok = .ok A)
    (h4 : parseSymbol A "blank" '□' "_" = .ok blank) (h5 : getSymbolSet A "tape_symbols" (tmUsedTape A) = .ok tape) :
    tmOfRaw A0 ok =
      TM.checked { Q := A.states, Sigma := tmSigma A tape blank, Gamma := sinsert tape blank,
                   delta := tmDelta A.transitions, q0 := initialOf A, qAccept := qa, qReject := qr, blank := blank } := by
  unfold tmOfRaw
  simp only [Except.bind, h1, h2, h3, h4, h5]

theorem getState_congr {A0 B0 : Raw} (h : Raw.Equiv A0 B0) (key hint : String) :
    getState B0 key (tmFresh B0.states hint) = getState A0 key (tmFresh A0.states hint) := by
  unfold getState
  rw [← h.1, ← h.2.2.2.1 key]

theorem mem_tmSigma_congr {A B : Raw} {tape tape' : List String} (blank : String)
    (hl : B.items.lookup "input_symbols" = A.items.lookup "input_symbols") (ht : ∀ a, a ∈ tape' ↔ a ∈ tape) (a : String) :
    a ∈ tmSigma B tape' blank ↔ a ∈ tmSigma A tape blank := by
  unfold tmSigma
  rw [hl]
  cases A.items.lookup "input_symbols" with
  | none => simp only [List.mem_filter, ht a]
  | some d => exact Iff.rfl

theorem mem_tmDelta {ts : List (String × Word × String)} {e : (String × String) × (String × String × Dir)}
    (he : e ∈ tmDelta ts) : ∃ t, t ∈ ts ∧ e = ((t.1, ch t.2.1 0), (t.2.2, ch t.2.1 1, tmDir t.2.1)) := by
  unfold tmDelta at he
  rcases mem_foldl_set (fun t : String × Word × String => (t.1, ch t.2.1 0))
    (fun t => (t.2.2, ch t.2.1 1, tmDir t.2.1)) ts [] he with h | h
  · cases h
  · exact h

theorem tmDelta_lookup_none (ts : List (String × Word × String)) (k : String × String) :
    (tmDelta ts).lookup k = none ↔ ∀ t, t ∈ ts → (t.1, ch t.2.1 0) ≠ k := by
  unfold tmDelta
  rw [C16c.lookup_foldl_set_none (fun t : String × Word × String => (t.1, ch t.2.1 0))
    (fun t => (t.2.2, ch t.2.1 1, tmDir t.2.1))]
  simp only [List.lookup_nil, true_and]

theorem mem_usedStates_of_trans {A : Raw} {t : String × Word × String} (ht : t ∈ A.transitions) :
    t.1 ∈ usedStates A ∧ t.2.2 ∈ usedStates A := by
  simp only [usedStates, mem_dedup, List.mem_append, List.mem_flatMap]
  exact ⟨Or.inr ⟨t, ht, by simp⟩, Or.inr ⟨t, ht, by simp⟩⟩

theorem mem_tmUsedTape_of_trans {A : Raw} {t : String × Word × String} (ht : t ∈ A.transitions) :
    ch t.2.1 0 ∈ tmUsedTape A ∧ ch t.2.1 1 ∈ tmUsedTape A := by
  simp only [tmUsedTape, mem_dedup, List.mem_flatMap]
  exact ⟨⟨t, ht, by simp⟩, ⟨t, ht, by simp⟩⟩

/-- the TM builder respects the equivalence of raw records: everything but `δ` is the same (states up to order,
    alphabets as sets); `δ` is defined on the same keys; and it is the same function when no two transition
    entries have the same (state, read symbol) -/
theorem tmOfRaw_congr {A0 B0 : Raw} {ok : Word → Bool} {T : TM String String} (h : Raw.Equiv A0 B0)
    (hT : tmOfRaw A0 ok = .ok T) :
    ∃ T', tmOfRaw B0 ok = .ok T' ∧ T'.Q.Perm T.Q ∧ (A0.states ≠ [] → T'.Q = T.Q) ∧ T'.q0 = T.q0 ∧
      T'.qAccept = T.qAccept ∧ T'.qReject = T.qReject ∧ T'.blank = T.blank ∧
      (∀ a, a ∈ T'.Sigma ↔ a ∈ T.Sigma) ∧ (∀ g, g ∈ T'.Gamma ↔ g ∈ T.Gamma) ∧
      (∀ k, T'.delta.lookup k = none ↔ T.delta.lookup k = none) ∧
      ((A0.transitions.map fun t => (t.1, ch t.2.1 0)).Nodup → ∀ k, T'.delta.lookup k = T.delta.lookup k) := by
  obtain ⟨qa, qr, A, blank, tape, h1, h2, h3, h4, h5, h6⟩ := tmOfRaw_ok_unpack hT
  obtain ⟨rfl, hv⟩ := TM.checked_ok h6
  have g1 : getState B0 "accept" (tmFresh B0.states "accept") = .ok qa := (getState_congr h _ _).trans h1
  have g2 : getState B0 "reject" (tmFresh B0.states "reject") = .ok qr := (getState_congr h _ _).trans h2
  obtain ⟨B, g3, gS, gS', gi, gf, gl, gt⟩ := commonChecks_congr_extra [qa, qr] h h3
  obtain ⟨hA, c1, _, _⟩ := commonChecks_ok h3
  have hAt : A.transitions = A0.transitions := by rw [hA]
  have g4 : parseSymbol B "blank" '□' "_" = .ok blank := (parseSymbol_congr (gl "blank") gt).trans h4
  have hused : ∀ a, a ∈ tmUsedTape B ↔ a ∈ tmUsedTape A := by
    intro a
    simp only [tmUsedTape, mem_dedup]
    exact mem_flatMap_of_perm gt _ a
  obtain ⟨tape', g5, hTape⟩ := getSymbolSet_congr (gl "tape_symbols") hused h5
  have hSig : ∀ a, a ∈ tmSigma B tape' blank ↔ a ∈ tmSigma A tape blank :=
    mem_tmSigma_congr blank (gl "input_symbols") hTape
  have hGam : ∀ a, a ∈ sinsert tape' blank ↔ a ∈ sinsert tape blank := by
    intro a
    simp only [mem_sinsert, hTape a]
  have hq0 : initialOf B = initialOf A := by simp only [initialOf, gi]
  have hnone : ∀ k, (tmDelta B.transitions).lookup k = none ↔ (tmDelta A.transitions).lookup k = none := by
    intro k
    rw [tmDelta_lookup_none, tmDelta_lookup_none]
    constructor
    · intro H t ht; exact H t (gt.mem_iff.mpr ht)
    · intro H t ht; exact H t (gt.mem_iff.mp ht)
  have hvalid : TM.valid
      ({ Q := B.states, Sigma := tmSigma B tape' blank, Gamma := sinsert tape' blank, delta := tmDelta B.transitions,
         q0 := initialOf B, qAccept := qa, qReject := qr, blank := blank } : TM String String) = true := by
    obtain ⟨v1, v2, v3, v4, v5, v6, v7, _⟩ := (TM.valid_iff' _).mp hv
    rw [TM.valid_iff']
    refine ⟨?_, gS.mem_iff.mpr v2, gS.mem_iff.mpr v3, v4, ?_, (hGam _).mpr v6, ?_, ?_⟩
    · show initialOf B ∈ B.states
      rw [hq0]; exact gS.mem_iff.mpr v1
    · intro hb
      exact v5 ((hSig _).mp hb)
    · intro a ha
      exact (hGam a).mpr (v7 a ((hSig a).mp ha))
    · intro e he
      obtain ⟨t, ht, rfl⟩ := mem_tmDelta he
      have htA : t ∈ A.transitions := gt.mem_iff.mp ht
      have htA0 : t ∈ A0.transitions := hAt ▸ htA
      obtain ⟨u1, u2⟩ := mem_usedStates_of_trans htA0
      obtain ⟨u3, u4⟩ := mem_tmUsedTape_of_trans htA
      have m3 := getSymbolSet_used_mem h5 _ u3
      have m4 := getSymbolSet_used_mem h5 _ u4
      refine ⟨gS.mem_iff.mpr (c1 _ u1), ?_, gS.mem_iff.mpr (c1 _ u2), ?_⟩
      · exact (hGam _).mpr (mem_sinsert.mpr (Or.inl m3))
      · exact (hGam _).mpr (mem_sinsert.mpr (Or.inl m4))
  refine ⟨
    { Q := B.states, Sigma := tmSigma B tape' blank, Gamma := sinsert tape' blank, delta := tmDelta B.transitions,
      q0 := initialOf B, qAccept := qa, qReject := qr, blank := blank },
    (tmOfRaw_eq_of g1 g2 g3 g4 g5).trans (by simp only [TM.checked, hvalid]; rfl), gS, ?_, hq0, rfl, rfl, rfl, hSig, hGam,
    hnone, ?_⟩
  · intro hne
    exact gS' hne
  · intro hnd k
    rw [← hAt] at hnd
    have hndB : (B.transitions.map fun t => (t.1, ch t.2.1 0)).Nodup := (gt.map _).nodup_iff.mpr hnd
    show (tmDelta B.transitions).lookup k = (tmDelta A.transitions).lookup k
    rw [tmDelta_eq_of_nodup _ hnd, tmDelta_eq_of_nodup _ hndB]
    refine lookup_eq_of_perm (gt.map _) ?_ k
    rw [List.map_map]
    exact hndB

theorem parseTmLines_ok_unpack {ls : List Word} {ok : Word → Bool} {T : TM String String}
    (h : parseTmLines ls ok = .ok T) : ∃ A0, parseLines .tm ok ls = .ok A0 ∧ tmOfRaw A0 ok = .ok T :=
  bind_ok h

theorem parseTmLines_eq_of {ls : List Word} {ok : Word → Bool} {A0 : Raw} (h : parseLines .tm ok ls = .ok A0) :
    parseTmLines ls ok = tmOfRaw A0 ok := by
  unfold parseTmLines
  simp only [Except.bind, h]

/-- the TM builder on two layouts of the same lines -/
theorem parseTmLines_layout (ok : Word → Bool) {ls ls' : List Word} (hp : (normLines ls).Perm (normLines ls'))
    {T : TM String String} (h : parseTmLines ls ok = .ok T) :
    ∃ A0 T', parseLines .tm ok ls = .ok A0 ∧ parseTmLines ls' ok = .ok T' ∧ T'.Q.Perm T.Q ∧
      (A0.states ≠ [] → T'.Q = T.Q) ∧ T'.q0 = T.q0 ∧ T'.qAccept = T.qAccept ∧ T'.qReject = T.qReject ∧
      T'.blank = T.blank ∧ (∀ a, a ∈ T'.Sigma ↔ a ∈ T.Sigma) ∧ (∀ g, g ∈ T'.Gamma ↔ g ∈ T.Gamma) ∧
      (∀ k, T'.delta.lookup k = none ↔ T.delta.lookup k = none) ∧
      ((A0.transitions.map fun t => (t.1, ch t.2.1 0)).Nodup → ∀ k, T'.delta.lookup k = T.delta.lookup k) := by
  obtain ⟨A0, h0, hT⟩ := parseTmLines_ok_unpack h
  have he := parseLines_layout .tm ok hp
  rw [h0] at he
  obtain ⟨B0, hB, hE⟩ := he.ok_left
  obtain ⟨T', hT', r⟩ := tmOfRaw_congr hE hT
  exact ⟨A0, T', h0, (parseTmLines_eq_of hB).trans hT', r⟩

/-! ### the raw record of a printed TM has distinct transition keys -/

theorem tmRaw_keys_nodup (T : TM String String) (hv : T.valid = true) (hk : (T.delta.map (·.1)).Nodup)
    (hG : ∀ x, x ∈ T.Gamma → Parse.Char1 (Parse.isLabelSym true) x) :
    ((tmRaw T).transitions.map fun t => (t.1, ch t.2.1 0)).Nodup := by
  have hperm := tmRaw_delta_perm T hv hG
  have := ((hperm.map (·.1)).nodup_iff).mpr hk
  rw [List.map_map] at this
  exact this

theorem parseLines_print_tm (T : TM String String) (hv : T.valid = true) (hQ : ∀ q, q ∈ T.Q → Parse.TmNameOk q)
    (hG : ∀ x, x ∈ T.Gamma → Parse.Char1 (Parse.isLabelSym true) x) :
    parseLines .tm isWord (splitOn '\n' (printTm T).toList) = .ok (tmRaw T) :=
  parse_print_tm_raw T hv hQ hG

end Parse
end Gamba
