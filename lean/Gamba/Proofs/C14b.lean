/-
  Gamba.Proofs.C14b — helper lemmas for `dfa_reachable_states`, `dfa_remove_unreachable_states`,
  `dfa_no_extend` and `dfa_reverse`.
-/
import Gamba.Model.DFA
import Gamba.Model.NFA
import Gamba.Spec.Automata
import Gamba.Proofs.DFABasic
namespace Gamba

/-! ### generic helpers -/

theorem C14b.filterAuxM_ok {α : Type} {f : α → Except Err Bool} {g : α → Bool} (l acc : List α)
    (h : ∀ x, x ∈ l → f x = .ok (g x)) :
    List.filterAuxM f l acc = .ok ((l.filter g).reverse ++ acc) := by
  induction l generalizing acc with
  | nil => rfl
  | cons x l ih =>
    have hx := h x (List.mem_cons_self ..)
    have ih' := fun acc => ih acc (fun y hy => h y (List.mem_cons_of_mem _ hy))
    simp only [List.filterAuxM, hx]
    show List.filterAuxM f l (cond (g x) (x :: acc) acc) = _
    rw [ih']
    cases hg : g x <;> simp [hg]

theorem C14b.filterM_ok {α : Type} {f : α → Except Err Bool} {g : α → Bool} (l : List α)
    (h : ∀ x, x ∈ l → f x = .ok (g x)) : l.filterM f = .ok (l.filter g) := by
  unfold List.filterM
  rw [C14b.filterAuxM_ok l [] h]
  show Except.ok ((l.filter g).reverse ++ []).reverse = _
  simp

variable {σ τ : Type} [DecidableEq σ] [DecidableEq τ]

/-! ### one round of the breadth-first search -/

/-- the body of `for v in succs: if v not in discovered: …` -/
def C14b.addNew (acc : List σ × List σ) (v : σ) : List σ × List σ :=
  if v ∈ acc.1 then acc else (acc.1 ++ [v], acc.2 ++ [v])

/-- all successors of the states of the level `V` -/
def DFA.succsOf (D : DFA σ τ) (V : List σ) : List σ :=
  V.flatMap fun u => D.Sigma.map fun a => D.next u a

theorem DFA.mem_succsOf (D : DFA σ τ) (V : List σ) (x : σ) :
    x ∈ D.succsOf V ↔ ∃ u a, u ∈ V ∧ a ∈ D.Sigma ∧ x = D.next u a := by
  simp only [DFA.succsOf, List.mem_flatMap, List.mem_map]
  constructor
  · rintro ⟨u, hu, a, ha, rfl⟩; exact ⟨u, a, hu, ha, rfl⟩
  · rintro ⟨u, a, hu, ha, rfl⟩; exact ⟨u, hu, a, ha, rfl⟩

/-- the fold adds exactly the not yet discovered elements of `s`, each once -/
theorem C14b.foldl_addNew (s disc vn : List σ) :
    ∃ new, s.foldl C14b.addNew (disc, vn) = (disc ++ new, vn ++ new) ∧
      (∀ x, x ∈ new ↔ x ∈ s ∧ x ∉ disc) ∧ new.Nodup := by
  induction s generalizing disc vn with
  | nil => exact ⟨[], by simp, by simp, List.nodup_nil⟩
  | cons v s ih =>
    rw [List.foldl_cons]
    by_cases hv : v ∈ disc
    · have h1 : C14b.addNew (disc, vn) v = (disc, vn) := by simp [C14b.addNew, hv]
      rw [h1]
      obtain ⟨new, he, hm, hn⟩ := ih disc vn
      refine ⟨new, he, ?_, hn⟩
      intro x
      rw [hm, List.mem_cons]
      constructor
      · rintro ⟨h, h'⟩; exact ⟨Or.inr h, h'⟩
      · rintro ⟨h | h, h'⟩
        · subst h; exact absurd hv h'
        · exact ⟨h, h'⟩
    · have h1 : C14b.addNew (disc, vn) v = (disc ++ [v], vn ++ [v]) := by simp [C14b.addNew, hv]
      rw [h1]
      obtain ⟨new, he, hm, hn⟩ := ih (disc ++ [v]) (vn ++ [v])
      refine ⟨v :: new, ?_, ?_, ?_⟩
      · rw [he]; simp
      · intro x
        rw [List.mem_cons, hm, List.mem_cons]
        simp only [List.mem_append, List.mem_singleton, not_or]
        constructor
        · rintro (h | ⟨h, h', _⟩)
          · subst h; exact ⟨Or.inl rfl, hv⟩
          · exact ⟨Or.inr h, h'⟩
        · rintro ⟨h | h, h'⟩
          · exact Or.inl h
          · by_cases hxv : x = v
            · exact Or.inl hxv
            · exact Or.inr ⟨h, h', hxv⟩
      · refine List.nodup_cons.mpr ⟨?_, hn⟩
        intro hvn
        have := ((hm v).mp hvn).2
        exact this (List.mem_append_right _ (List.mem_singleton.mpr rfl))

/-- the set of newly discovered states of one round -/
def DFA.newOf (D : DFA σ τ) (V disc : List σ) : List σ :=
  ((D.succsOf V).foldl C14b.addNew (disc, [])).2

theorem DFA.round_eq (D : DFA σ τ) (V disc : List σ) :
    (D.succsOf V).foldl C14b.addNew (disc, []) = (disc ++ D.newOf V disc, D.newOf V disc) := by
  obtain ⟨new, he, _, _⟩ := C14b.foldl_addNew (D.succsOf V) disc []
  unfold DFA.newOf
  rw [he]
  simp

theorem DFA.mem_newOf (D : DFA σ τ) (V disc : List σ) (x : σ) :
    x ∈ D.newOf V disc ↔ x ∈ D.succsOf V ∧ x ∉ disc := by
  obtain ⟨new, he, hm, _⟩ := C14b.foldl_addNew (D.succsOf V) disc []
  unfold DFA.newOf
  rw [he]
  simpa using hm x

theorem DFA.nodup_newOf (D : DFA σ τ) (V disc : List σ) : (D.newOf V disc).Nodup := by
  obtain ⟨new, he, _, hn⟩ := C14b.foldl_addNew (D.succsOf V) disc []
  unfold DFA.newOf
  rw [he]
  simpa using hn

theorem DFA.reachLoop_zero (D : DFA σ τ) (V disc : List σ) :
    D.reachLoop 0 V disc = .error .fuel := rfl

theorem DFA.reachLoop_succ (D : DFA σ τ) (fuel : Nat) (V disc : List σ) :
    D.reachLoop (fuel + 1) V disc =
      if (D.newOf V disc).isEmpty then .ok (disc ++ D.newOf V disc)
      else D.reachLoop fuel (D.newOf V disc) (disc ++ D.newOf V disc) := by
  have h : D.reachLoop (fuel + 1) V disc =
      (let r := (D.succsOf V).foldl C14b.addNew (disc, [])
       if r.2.isEmpty then .ok r.1 else D.reachLoop fuel r.2 r.1) := rfl
  rw [h, DFA.round_eq]

/-! ### partial correctness of the loop (any fuel) -/

/-- reachable from a seed state by a word over `Σ` -/
def DFA.ReachFrom (D : DFA σ τ) (Seed : σ → Prop) (r : σ) : Prop :=
  ∃ s, Seed s ∧ ∃ w, (∀ a, a ∈ w → a ∈ D.Sigma) ∧ D.runT s w = r

theorem DFA.ReachFrom.seed {D : DFA σ τ} {Seed : σ → Prop} {s : σ} (h : Seed s) :
    D.ReachFrom Seed s :=
  ⟨s, h, [], fun _ ha => (by cases ha), rfl⟩

theorem DFA.ReachFrom.next {D : DFA σ τ} {Seed : σ → Prop} {x : σ} (h : D.ReachFrom Seed x)
    {a : τ} (ha : a ∈ D.Sigma) : D.ReachFrom Seed (D.next x a) := by
  obtain ⟨s, hs, w, hw, rfl⟩ := h
  refine ⟨s, hs, w ++ [a], ?_, ?_⟩
  · intro b hb
    rcases List.mem_append.mp hb with hb | hb
    · exact hw b hb
    · rw [List.mem_singleton.mp hb]; exact ha
  · rw [DFA.runT_append]; rfl

/-- a set that contains the seeds and is closed under successors contains everything reachable -/
theorem DFA.ReachFrom.mem_of_closed {D : DFA σ τ} {Seed : σ → Prop} {S : List σ}
    (hs : ∀ s, Seed s → s ∈ S) (hc : ∀ x, x ∈ S → ∀ a, a ∈ D.Sigma → D.next x a ∈ S)
    {r : σ} (h : D.ReachFrom Seed r) : r ∈ S := by
  obtain ⟨s, hseed, w, hw, rfl⟩ := h
  have hx := hs s hseed
  clear hseed
  induction w generalizing s with
  | nil => exact hx
  | cons a w ih =>
    exact ih (D.next s a) (fun b hb => hw b (List.mem_cons_of_mem _ hb))
      (hc s hx a (hw a List.mem_cons_self))

theorem DFA.reachLoop_exact (D : DFA σ τ) (Seed : σ → Prop) (fuel : Nat) (V disc R : List σ)
    (h : D.reachLoop fuel V disc = .ok R)
    (J1 : ∀ x, x ∈ disc → D.ReachFrom Seed x)
    (J2 : ∀ x, x ∈ V → ∀ a, a ∈ D.Sigma → D.ReachFrom Seed (D.next x a))
    (J3 : ∀ x, x ∈ disc → x ∈ V ∨ ∀ a, a ∈ D.Sigma → D.next x a ∈ disc)
    (J4 : ∀ s, Seed s → s ∈ disc ∨ s ∈ D.succsOf V) :
    ∀ r, r ∈ R ↔ D.ReachFrom Seed r := by
  induction fuel generalizing V disc with
  | zero => rw [DFA.reachLoop_zero] at h; cases h
  | succ fuel ih =>
    rw [DFA.reachLoop_succ] at h
    have hsucc : ∀ x, x ∈ D.succsOf V → x ∈ disc ++ D.newOf V disc := by
      intro x hx
      by_cases hd : x ∈ disc
      · exact List.mem_append_left _ hd
      · exact List.mem_append_right _ ((DFA.mem_newOf D V disc x).mpr ⟨hx, hd⟩)
    have hsuccR : ∀ x, x ∈ D.succsOf V → D.ReachFrom Seed x := by
      intro x hx
      obtain ⟨u, a, hu, ha, rfl⟩ := (DFA.mem_succsOf D V x).mp hx
      exact J2 u hu a ha
    have J1' : ∀ x, x ∈ disc ++ D.newOf V disc → D.ReachFrom Seed x := by
      intro x hx
      rcases List.mem_append.mp hx with hx | hx
      · exact J1 x hx
      · exact hsuccR x ((DFA.mem_newOf D V disc x).mp hx).1
    have J3' : ∀ x, x ∈ disc ++ D.newOf V disc →
        x ∈ D.newOf V disc ∨ ∀ a, a ∈ D.Sigma → D.next x a ∈ disc ++ D.newOf V disc := by
      intro x hx
      rcases List.mem_append.mp hx with hx | hx
      · right
        intro a ha
        rcases J3 x hx with hV | hcl
        · exact hsucc _ ((DFA.mem_succsOf D V _).mpr ⟨x, a, hV, ha, rfl⟩)
        · exact List.mem_append_left _ (hcl a ha)
      · exact Or.inl hx
    have J4' : ∀ s, Seed s → s ∈ disc ++ D.newOf V disc := by
      intro s hs
      rcases J4 s hs with h' | h'
      · exact List.mem_append_left _ h'
      · exact hsucc s h'
    split at h
    · rename_i hemp
      cases h
      intro r
      constructor
      · exact J1' r
      · intro hr
        refine DFA.ReachFrom.mem_of_closed J4' ?_ hr
        intro x hx a ha
        rcases J3' x hx with hn | hcl
        · rw [List.isEmpty_iff.mp hemp] at hn; cases hn
        · exact hcl a ha
    · refine ih (D.newOf V disc) (disc ++ D.newOf V disc) h J1' ?_ J3' ?_
      · intro x hx a ha
        exact (hsuccR x ((DFA.mem_newOf D V disc x).mp hx).1).next ha
      · intro s hs; exact Or.inl (J4' s hs)

/-! ### the fuel suffices -/

theorem DFA.reachLoop_ok (D : DFA σ τ) (hv : D.valid = true) (fuel : Nat) (V disc : List σ)
    (hV : ∀ x, x ∈ V → x ∈ D.Q) (hd : ∀ x, x ∈ disc → x ∈ D.Q) (hnd : disc.Nodup)
    (hf : D.Q.length + 1 ≤ fuel + disc.length) : ∃ R, D.reachLoop fuel V disc = .ok R := by
  induction fuel generalizing V disc with
  | zero =>
    have := hnd.length_le_of_subset (fun x hx => hd x hx)
    omega
  | succ fuel ih =>
    rw [DFA.reachLoop_succ]
    have hnQ : ∀ x, x ∈ D.newOf V disc → x ∈ D.Q := by
      intro x hx
      obtain ⟨u, a, hu, ha, rfl⟩ := (DFA.mem_succsOf D V x).mp ((DFA.mem_newOf D V disc x).mp hx).1
      exact DFA.valid_next_mem hv (hV u hu) ha
    split
    · exact ⟨_, rfl⟩
    · rename_i hne
      apply ih
      · exact hnQ
      · intro x hx
        rcases List.mem_append.mp hx with hx | hx
        · exact hd x hx
        · exact hnQ x hx
      · refine List.nodup_append.mpr ⟨hnd, DFA.nodup_newOf D V disc, ?_⟩
        intro a ha b hb hab
        subst hab
        exact ((DFA.mem_newOf D V disc a).mp hb).2 ha
      · have hpos : 0 < (D.newOf V disc).length := by
          cases hl : D.newOf V disc with
          | nil => rw [hl] at hne; exact absurd rfl hne
          | cons _ _ => simp
        rw [List.length_append]
        omega

/-! ### `reachableStates` -/

theorem DFA.reachableStates_exact (D : DFA σ τ) (hv : D.valid = true) (q : σ) (hq : q ∈ D.Q)
    (d : Nat) :
    ∃ R, D.reachableStates q d = .ok R ∧
      ∀ r, r ∈ R ↔ D.ReachFrom (fun s => if d = 0 then s = q else ∃ a, a ∈ D.Sigma ∧ s = D.next q a) r := by
  unfold DFA.reachableStates
  have hok : ∃ R, D.reachLoop (D.Q.length + 2) [q] (if d = 0 then [q] else []) = .ok R := by
    apply DFA.reachLoop_ok D hv
    · intro x hx; rw [List.mem_singleton.mp hx]; exact hq
    · intro x hx
      split at hx
      · rw [List.mem_singleton.mp hx]; exact hq
      · cases hx
    · split <;> simp
    · omega
  obtain ⟨R, hR⟩ := hok
  refine ⟨R, hR, ?_⟩
  apply DFA.reachLoop_exact D _ _ _ _ R hR
  · intro x hx
    by_cases hd : d = 0
    · rw [if_pos hd, List.mem_singleton] at hx
      exact DFA.ReachFrom.seed (by rw [if_pos hd]; exact hx)
    · rw [if_neg hd] at hx; cases hx
  · intro x hx a ha
    rw [List.mem_singleton.mp hx]
    by_cases hd : d = 0
    · exact (DFA.ReachFrom.seed (Seed := fun s => if d = 0 then s = q else _)
        (by rw [if_pos hd])).next ha
    · exact DFA.ReachFrom.seed (by rw [if_neg hd]; exact ⟨a, ha, rfl⟩)
  · intro x hx
    by_cases hd : d = 0
    · rw [if_pos hd] at hx; exact Or.inl hx
    · rw [if_neg hd] at hx; cases hx
  · intro s hs
    by_cases hd : d = 0
    · rw [if_pos hd] at hs ⊢
      exact Or.inl (List.mem_singleton.mpr hs)
    · rw [if_neg hd] at hs
      obtain ⟨a, ha, rfl⟩ := hs
      exact Or.inr ((DFA.mem_succsOf D [q] _).mpr ⟨q, a, List.mem_singleton.mpr rfl, ha, rfl⟩)

theorem DFA.reachableStates_zero' (D : DFA σ τ) (hv : D.valid = true) (q : σ) (hq : q ∈ D.Q) :
    ∃ R, D.reachableStates q 0 = .ok R ∧
      ∀ r, r ∈ R ↔ ∃ w, (∀ a, a ∈ w → a ∈ D.Sigma) ∧ D.runT q w = r := by
  obtain ⟨R, hR, hm⟩ := DFA.reachableStates_exact D hv q hq 0
  refine ⟨R, hR, ?_⟩
  intro r
  rw [hm]
  constructor
  · rintro ⟨s, hs, w, hw, rfl⟩
    rw [if_pos rfl] at hs
    subst hs
    exact ⟨w, hw, rfl⟩
  · rintro ⟨w, hw, rfl⟩
    refine ⟨q, ?_, w, hw, rfl⟩
    show (if 0 = 0 then q = q else _)
    rw [if_pos rfl]

theorem DFA.reachableStates_pos' (D : DFA σ τ) (hv : D.valid = true) (q : σ) (hq : q ∈ D.Q)
    (d : Nat) (hd : d ≠ 0) :
    ∃ R, D.reachableStates q d = .ok R ∧
      ∀ r, r ∈ R ↔ ∃ w, w ≠ [] ∧ (∀ a, a ∈ w → a ∈ D.Sigma) ∧ D.runT q w = r := by
  obtain ⟨R, hR, hm⟩ := DFA.reachableStates_exact D hv q hq d
  refine ⟨R, hR, ?_⟩
  intro r
  rw [hm]
  constructor
  · rintro ⟨s, hs, w, hw, rfl⟩
    rw [if_neg hd] at hs
    obtain ⟨a, ha, rfl⟩ := hs
    refine ⟨a :: w, by simp, ?_, rfl⟩
    intro b hb
    rcases List.mem_cons.mp hb with rfl | hb
    · exact ha
    · exact hw b hb
  · rintro ⟨w, hne, hw, rfl⟩
    cases w with
    | nil => exact absurd rfl hne
    | cons a w =>
      refine ⟨D.next q a, ?_, w, fun b hb => hw b (List.mem_cons_of_mem _ hb), rfl⟩
      show (if d = 0 then _ else ∃ a', a' ∈ D.Sigma ∧ D.next q a = D.next q a')
      rw [if_neg hd]
      exact ⟨a, hw a List.mem_cons_self, rfl⟩

/-! ### association lists: filtering on keys, unique keys -/
section Lookup
variable {κ ν : Type} [BEq κ] [LawfulBEq κ]

theorem C14b.lookup_filter_key (p : κ → Bool) (l : List (κ × ν)) (k : κ) :
    (l.filter fun e => p e.1).lookup k = if p k = true then l.lookup k else none := by
  induction l with
  | nil => simp
  | cons e l ih =>
    obtain ⟨k', v'⟩ := e
    by_cases hk : k = k'
    · subst hk
      by_cases hp : p k = true
      · rw [List.filter_cons_of_pos (by simpa using hp), List.lookup_cons, List.lookup_cons, if_pos hp]
        simp
      · rw [List.filter_cons_of_neg (by simpa using hp), ih, if_neg hp, if_neg hp]
    · have hb : (k == k') = false := beq_eq_false_iff_ne.mpr hk
      by_cases hp : p k' = true
      · rw [List.filter_cons_of_pos (by simpa using hp), List.lookup_cons, List.lookup_cons, hb, ih]
      · rw [List.filter_cons_of_neg (by simpa using hp), List.lookup_cons, hb, ih]

/-- with unique keys every binding is the first one -/
theorem C14b.lookup_of_mem_nodup {l : List (κ × ν)} (hnd : (l.map (·.1)).Nodup) {k : κ} {v : ν}
    (h : (k, v) ∈ l) : l.lookup k = some v := by
  induction l with
  | nil => cases h
  | cons e l ih =>
    obtain ⟨k', v'⟩ := e
    rw [List.map_cons, List.nodup_cons] at hnd
    rw [List.lookup_cons]
    rcases List.mem_cons.mp h with he | he
    · simp only [Prod.mk.injEq] at he
      obtain ⟨rfl, rfl⟩ := he
      simp
    · have hk : k ≠ k' := by
        rintro rfl
        exact hnd.1 (List.mem_map.mpr ⟨(k, v), he, rfl⟩)
      rw [beq_eq_false_iff_ne.mpr hk]
      exact ih hnd.2 he

end Lookup

/-- `delta[q, a]` only depends on `δ` -/
theorem DFA.next_congr {D D' : DFA σ τ} (hd : D.delta = D'.delta) (q : σ) (a : τ) :
    D.next q a = D'.next q a := by
  unfold DFA.next; rw [hd]

theorem DFA.runT_congr {D D' : DFA σ τ} (hd : D.delta = D'.delta) (q : σ) (w : List τ) :
    D.runT q w = D'.runT q w := by
  induction w generalizing q with
  | nil => rfl
  | cons a w ih => rw [DFA.runT_cons, DFA.runT_cons, DFA.next_congr hd, ih]

/-! ### `removeUnreachable` -/

/-- the automaton built by `dfa_remove_unreachable_states` before the validity check -/
def DFA.restrict (D : DFA σ τ) (Q1 : List σ) : DFA σ τ :=
  { Q := Q1, Sigma := D.Sigma, delta := D.delta.filter (fun e => decide (e.1.1 ∈ Q1)),
    q0 := D.q0, F := sinter D.F Q1 }

theorem DFA.removeUnreachable_eq (D : DFA σ τ) {Q1 : List σ}
    (h : D.reachableStates D.q0 0 = .ok Q1) : D.removeUnreachable = DFA.checked (D.restrict Q1) := by
  unfold DFA.removeUnreachable
  rw [h]
  rfl

theorem DFA.checked_of_valid {D : DFA σ τ} (h : D.valid = true) : D.checked = .ok D := by
  unfold DFA.checked; rw [if_pos h]

theorem DFA.restrict_lookup (D : DFA σ τ) (Q1 : List σ) (q : σ) (a : τ) :
    (D.restrict Q1).delta.lookup (q, a) = if q ∈ Q1 then D.delta.lookup (q, a) else none := by
  have h := C14b.lookup_filter_key (fun k : σ × τ => decide (k.1 ∈ Q1)) D.delta (q, a)
  simp only [decide_eq_true_eq] at h
  exact h

theorem DFA.restrict_next (D : DFA σ τ) (Q1 : List σ) {q : σ} (hq : q ∈ Q1) (a : τ) :
    (D.restrict Q1).next q a = D.next q a := by
  unfold DFA.next
  rw [DFA.restrict_lookup, if_pos hq]

theorem DFA.restrict_runT (D : DFA σ τ) (Q1 : List σ)
    (hcl : ∀ q, q ∈ Q1 → ∀ a, a ∈ D.Sigma → D.next q a ∈ Q1)
    {q : σ} (hq : q ∈ Q1) (w : List τ) (hw : ∀ a, a ∈ w → a ∈ D.Sigma) :
    (D.restrict Q1).runT q w = D.runT q w := by
  induction w generalizing q with
  | nil => rfl
  | cons a w ih =>
    rw [DFA.runT_cons, DFA.runT_cons, DFA.restrict_next D Q1 hq]
    exact ih (hcl q hq a (hw a List.mem_cons_self)) (fun b hb => hw b (List.mem_cons_of_mem _ hb))

theorem DFA.restrict_valid (D : DFA σ τ) (hv : D.valid = true)
    (hnd : (D.delta.map (·.1)).Nodup) (Q1 : List σ)
    (hsub : ∀ q, q ∈ Q1 → q ∈ D.Q) (hq0 : D.q0 ∈ Q1)
    (hcl : ∀ q, q ∈ Q1 → ∀ a, a ∈ D.Sigma → D.next q a ∈ Q1) : (D.restrict Q1).valid = true := by
  rw [DFA.valid_iff]
  refine ⟨hq0, ?_, ?_, ?_⟩
  · intro f hf
    have hf' : f ∈ sinter D.F Q1 := hf
    exact (mem_sinter.mp hf').2
  · intro q a r he
    have he' : ((q, a), r) ∈ D.delta.filter (fun e => decide (e.1.1 ∈ Q1)) := he
    rw [List.mem_filter] at he'
    obtain ⟨hm, hq⟩ := he'
    simp only [decide_eq_true_eq] at hq
    obtain ⟨_, ha, _⟩ := DFA.valid_closed hv hm
    refine ⟨hq, ha, ?_⟩
    have hl := C14b.lookup_of_mem_nodup hnd hm
    rw [← DFA.next_of_lookup hl]
    exact hcl q hq a ha
  · intro q a hq ha
    have hq' : q ∈ Q1 := hq
    rw [DFA.restrict_lookup, if_pos hq']
    exact DFA.valid_total hv (hsub q hq') ha

/-! ### `noExtend` -/

/-- the test applied to each accepting state by `dfa_no_extend` -/
def DFA.noExtTest (D : DFA σ τ) (qf : σ) : Bool :=
  match D.reachableStates qf 1 with
  | .ok R => (sinter R D.F).isEmpty
  | .error _ => false

theorem DFA.noExtTest_iff (D : DFA σ τ) (hv : D.valid = true) (q : σ) (hq : q ∈ D.Q) :
    D.noExtTest q = true ↔
      ∀ v, v ≠ [] → (∀ a, a ∈ v → a ∈ D.Sigma) → D.runT q v ∉ D.F := by
  obtain ⟨R, hR, hm⟩ := DFA.reachableStates_pos' D hv q hq 1 (by omega)
  unfold DFA.noExtTest
  rw [hR]
  simp only [List.isEmpty_iff]
  constructor
  · intro he v hne hw hF
    have : D.runT q v ∈ sinter R D.F := mem_sinter.mpr ⟨(hm _).mpr ⟨v, hne, hw, rfl⟩, hF⟩
    rw [he] at this
    cases this
  · intro h
    apply List.eq_nil_iff_forall_not_mem.mpr
    intro x hx
    obtain ⟨hxR, hxF⟩ := mem_sinter.mp hx
    obtain ⟨v, hne, hw, rfl⟩ := (hm x).mp hxR
    exact h v hne hw hxF

theorem DFA.noExtend_eq (D : DFA σ τ) (hv : D.valid = true) :
    D.noExtend = DFA.checked { D with F := D.F.filter D.noExtTest } := by
  unfold DFA.noExtend
  have h : (D.F.filterM fun qf => do
      let R ← D.reachableStates qf 1
      pure (sinter R D.F).isEmpty) = .ok (D.F.filter D.noExtTest) := by
    apply C14b.filterM_ok
    intro x hx
    obtain ⟨R, hR, _⟩ := DFA.reachableStates_pos' D hv x (DFA.valid_F hv hx) 1 (by omega)
    unfold DFA.noExtTest
    rw [hR]
    rfl
  rw [h]
  rfl

theorem DFA.withF_valid (D : DFA σ τ) (hv : D.valid = true) (F' : List σ)
    (hF : ∀ f, f ∈ F' → f ∈ D.F) : ({ D with F := F' } : DFA σ τ).valid = true := by
  rw [DFA.valid_iff] at hv ⊢
  obtain ⟨h1, h2, h3, h4⟩ := hv
  exact ⟨h1, fun f hf => h2 f (hF f hf), h3, h4⟩

/-! ### `Dict.set` -/
section DictSet
variable {κ ν : Type} [DecidableEq κ] [BEq κ] [LawfulBEq κ]

theorem C14b.lookup_set (d : Dict κ ν) (k' : κ) (v : ν) (k : κ) :
    (Dict.set d k' v).lookup k = if k = k' then some v else d.lookup k := by
  induction d with
  | nil =>
    simp only [Dict.set, List.lookup_cons, List.lookup_nil]
    by_cases hk : k = k'
    · subst hk; simp
    · rw [beq_eq_false_iff_ne.mpr hk, if_neg hk]
  | cons e d ih =>
    obtain ⟨k1, v1⟩ := e
    simp only [Dict.set]
    by_cases h1 : k1 = k'
    · subst h1
      rw [if_pos rfl, List.lookup_cons, List.lookup_cons]
      by_cases hk : k = k1
      · subst hk; simp
      · rw [beq_eq_false_iff_ne.mpr hk, if_neg hk]
    · rw [if_neg h1, List.lookup_cons, List.lookup_cons, ih]
      by_cases hk1 : k = k1
      · subst hk1
        simp [h1]
      · rw [beq_eq_false_iff_ne.mpr hk1]

omit [BEq κ] [LawfulBEq κ] in
theorem C14b.mem_set (d : Dict κ ν) (k' : κ) (v' : ν) (e : κ × ν)
    (h : e ∈ Dict.set d k' v') : e = (k', v') ∨ e ∈ d := by
  induction d with
  | nil =>
    simp only [Dict.set, List.mem_singleton] at h
    exact Or.inl h
  | cons e1 d ih =>
    obtain ⟨k1, v1⟩ := e1
    simp only [Dict.set] at h
    split at h
    · rcases List.mem_cons.mp h with h | h
      · exact Or.inl h
      · exact Or.inr (List.mem_cons_of_mem _ h)
    · rcases List.mem_cons.mp h with h | h
      · exact Or.inr (h ▸ List.mem_cons_self)
      · rcases ih h with h | h
        · exact Or.inl h
        · exact Or.inr (List.mem_cons_of_mem _ h)

end DictSet

/-! ### `reverse` -/

/-- the `addEdge` of `DFA.reverse` -/
def C14b.addEdge (d : Dict (σ × τ) (List σ)) (e : (σ × τ) × σ) : Dict (σ × τ) (List σ) :=
  d.set (e.2, e.1.2) (sinsert ((d.lookup (e.2, e.1.2)).getD []) e.1.1)

theorem DFA.reverse_delta (D : DFA σ τ) (fresh : σ) (eps : τ) :
    (D.reverse fresh eps).delta = (D.delta.foldl C14b.addEdge []).set (fresh, eps) D.F := rfl

omit [DecidableEq σ] in
theorem C14b.mem_getD_iff {o : Option (List σ)} {r : σ} :
    (∃ T, o = some T ∧ r ∈ T) ↔ r ∈ o.getD [] := by
  cases o with
  | none => simp
  | some T => simp

theorem C14b.mem_addEdge (d : Dict (σ × τ) (List σ)) (e : (σ × τ) × σ) (q1 : σ) (a : τ) (r : σ) :
    r ∈ ((C14b.addEdge d e).lookup (q1, a)).getD [] ↔
      r ∈ (d.lookup (q1, a)).getD [] ∨ e = ((r, a), q1) := by
  obtain ⟨⟨r', a'⟩, q'⟩ := e
  unfold C14b.addEdge
  rw [C14b.lookup_set]
  by_cases hk : (q1, a) = (q', a')
  · rw [if_pos hk]
    simp only [Prod.mk.injEq] at hk
    obtain ⟨rfl, rfl⟩ := hk
    simp only [Option.getD_some, mem_sinsert, Prod.mk.injEq, and_true]
    constructor
    · rintro (h | h)
      · exact Or.inl h
      · exact Or.inr h.symm
    · rintro (h | h)
      · exact Or.inl h
      · exact Or.inr h.symm
  · rw [if_neg hk]
    constructor
    · exact Or.inl
    · rintro (h | h)
      · exact h
      · simp only [Prod.mk.injEq] at h hk
        exact absurd ⟨h.2.symm, h.1.2.symm⟩ hk

theorem C14b.mem_foldl_addEdge (l : List ((σ × τ) × σ)) (d : Dict (σ × τ) (List σ))
    (q1 : σ) (a : τ) (r : σ) :
    r ∈ ((l.foldl C14b.addEdge d).lookup (q1, a)).getD [] ↔
      r ∈ (d.lookup (q1, a)).getD [] ∨ ((r, a), q1) ∈ l := by
  induction l generalizing d with
  | nil => simp
  | cons e l ih =>
    rw [List.foldl_cons, ih, C14b.mem_addEdge, List.mem_cons]
    constructor
    · rintro ((h | h) | h)
      · exact Or.inl h
      · exact Or.inr (Or.inl h.symm)
      · exact Or.inr (Or.inr h)
    · rintro (h | h | h)
      · exact Or.inl (Or.inl h)
      · exact Or.inl (Or.inr h.symm)
      · exact Or.inr h

/-- the transitions of the reversed automaton (no hypotheses on `D`) -/
theorem DFA.reverse_Succ_iff (D : DFA σ τ) (fresh : σ) (eps : τ) (q1 : σ) (a : τ) (r : σ) :
    (D.reverse fresh eps).Succ q1 a r ↔
      if (q1, a) = (fresh, eps) then r ∈ D.F else ((r, a), q1) ∈ D.delta := by
  unfold NFA.Succ
  rw [C14b.mem_getD_iff, DFA.reverse_delta, C14b.lookup_set]
  split
  · simp
  · rw [C14b.mem_foldl_addEdge]
    simp

/-- entries of the dict built by the fold -/
theorem C14b.foldl_addEdge_good (Q' : List σ) (P : τ → Prop) (l : List ((σ × τ) × σ))
    (d : Dict (σ × τ) (List σ))
    (hd : ∀ e, e ∈ d → e.1.1 ∈ Q' ∧ P e.1.2 ∧ ∀ x, x ∈ e.2 → x ∈ Q')
    (hl : ∀ e, e ∈ l → e.1.1 ∈ Q' ∧ P e.1.2 ∧ e.2 ∈ Q') :
    ∀ e, e ∈ l.foldl C14b.addEdge d → e.1.1 ∈ Q' ∧ P e.1.2 ∧ ∀ x, x ∈ e.2 → x ∈ Q' := by
  induction l generalizing d with
  | nil => exact hd
  | cons e0 l ih =>
    rw [List.foldl_cons]
    apply ih
    · intro e he
      obtain ⟨h1, h2, h3⟩ := hl e0 List.mem_cons_self
      rcases C14b.mem_set _ _ _ _ he with rfl | he
      · refine ⟨h3, h2, ?_⟩
        intro x hx
        rcases mem_sinsert.mp hx with hx | rfl
        · cases hlk : d.lookup (e0.2, e0.1.2) with
          | none => rw [hlk] at hx; cases hx
          | some T =>
            rw [hlk] at hx
            exact (hd _ (mem_of_lookup_eq_some hlk)).2.2 x hx
        · exact h1
      · exact hd e he
    · intro e he; exact hl e (List.mem_cons_of_mem _ he)

theorem DFA.reverse_valid' (D : DFA σ τ) (fresh : σ) (eps : τ) (hv : D.valid = true)
    (he : eps ∉ D.Sigma) : (D.reverse fresh eps).valid = true := by
  unfold NFA.valid
  simp only [Bool.and_eq_true, decide_eq_true_eq, List.all_eq_true, Bool.or_eq_true, ssubset_iff]
  have hQ : (D.reverse fresh eps).Q = sinsert D.Q fresh := rfl
  have hF : (D.reverse fresh eps).F = [D.q0] := rfl
  have hS : (D.reverse fresh eps).Sigma = D.Sigma := rfl
  have hE : (D.reverse fresh eps).eps = eps := rfl
  have hq : (D.reverse fresh eps).q0 = fresh := rfl
  rw [hQ, hF, hS, hE, hq, DFA.reverse_delta]
  refine ⟨⟨⟨mem_sinsert.mpr (Or.inr rfl), ?_⟩, he⟩, ?_⟩
  · intro x hx
    rw [List.mem_singleton.mp hx]
    exact mem_sinsert.mpr (Or.inl (DFA.valid_q0 hv))
  · intro e hmem
    have hgood := C14b.foldl_addEdge_good (sinsert D.Q fresh) (fun a => a ∈ D.Sigma ∨ a = eps)
      D.delta [] (fun e he => by cases he) (by
        rintro ⟨⟨q, a⟩, r⟩ hmem
        obtain ⟨h1, h2, h3⟩ := DFA.valid_closed hv hmem
        exact ⟨mem_sinsert.mpr (Or.inl h1), Or.inl h2, mem_sinsert.mpr (Or.inl h3)⟩)
    rcases C14b.mem_set _ _ _ _ hmem with rfl | hmem
    · refine ⟨⟨mem_sinsert.mpr (Or.inr rfl), Or.inr rfl⟩, ?_⟩
      intro x hx
      exact mem_sinsert.mpr (Or.inl (DFA.valid_F hv hx))
    · obtain ⟨h1, h2, h3⟩ := hgood e hmem
      exact ⟨⟨h1, h2⟩, h3⟩

theorem DFA.Run_append_inv {D : DFA σ τ} {q r : σ} {u v : List τ} (h : D.Run q (u ++ v) r) :
    ∃ m, D.Run q u m ∧ D.Run m v r := by
  induction u generalizing q with
  | nil => exact ⟨q, DFA.Run.nil _, h⟩
  | cons a u ih =>
    rw [List.cons_append, DFA.Run_cons_iff] at h
    obtain ⟨q', hl, hr⟩ := h
    obtain ⟨m, h1, h2⟩ := ih hr
    exact ⟨m, DFA.Run.cons hl h1, h2⟩

theorem DFA.Run_snoc_iff {D : DFA σ τ} {q r : σ} {u : List τ} {a : τ} :
    D.Run q (u ++ [a]) r ↔ ∃ m, D.Run q u m ∧ D.delta.lookup (m, a) = some r := by
  constructor
  · intro h
    obtain ⟨m, h1, h2⟩ := DFA.Run_append_inv h
    rw [DFA.Run_cons_iff] at h2
    obtain ⟨q', hl, hr⟩ := h2
    rw [DFA.Run_nil_iff] at hr
    subst hr
    exact ⟨m, h1, hl⟩
  · rintro ⟨m, h1, hl⟩
    exact DFA.Run_append h1 (DFA.Run.cons hl (DFA.Run.nil _))

section ReverseLang
variable (D : DFA σ τ) (fresh : σ) (eps : τ) (hv : D.valid = true) (hf : fresh ∉ D.Q)
  (he : eps ∉ D.Sigma) (hnd : (D.delta.map (·.1)).Nodup)
include hv

include he hnd in
/-- symbol moves of the reversed automaton are the reversed transitions of `D` -/
theorem DFA.reverse_Succ_sym {a : τ} (ha : a ≠ eps) (q1 r : σ) :
    (D.reverse fresh eps).Succ q1 a r ↔ D.delta.lookup (r, a) = some q1 := by
  have _ := hv
  have _ := he
  rw [DFA.reverse_Succ_iff, if_neg (by
    intro h
    simp only [Prod.mk.injEq] at h
    exact ha h.2)]
  exact ⟨C14b.lookup_of_mem_nodup hnd, mem_of_lookup_eq_some⟩

include he in
/-- the only ε-moves lead from the fresh initial state to the accepting states of `D` -/
theorem DFA.reverse_Succ_eps (q1 r : σ) :
    (D.reverse fresh eps).Succ q1 eps r ↔ q1 = fresh ∧ r ∈ D.F := by
  rw [DFA.reverse_Succ_iff]
  split
  · rename_i h
    simp only [Prod.mk.injEq, and_true] at h
    simp [h]
  · rename_i h
    simp only [Prod.mk.injEq, and_true] at h
    constructor
    · intro hm
      exact absurd (DFA.valid_closed hv hm).2.1 he
    · rintro ⟨h', _⟩; exact absurd h' h

include hf he hnd in
/-- runs of the reversed automaton from a state of `D` are the reversed runs of `D` -/
theorem DFA.reverse_Run_iff {q1 : σ} (hq1 : q1 ∈ D.Q) (w : List τ) (r : σ) :
    (D.reverse fresh eps).Run q1 w r ↔ D.Run r w.reverse q1 := by
  have hne : q1 ≠ fresh := fun h => hf (h ▸ hq1)
  induction w generalizing q1 with
  | nil =>
    rw [List.reverse_nil, DFA.Run_nil_iff]
    constructor
    · intro h
      cases h with
      | nil => rfl
      | eps hs _ =>
        exact absurd ((DFA.reverse_Succ_eps D fresh eps hv he _ _).mp hs).1 hne
    · rintro rfl; exact NFA.Run.nil _
  | cons a w ih =>
    rw [List.reverse_cons, DFA.Run_snoc_iff]
    constructor
    · intro h
      cases h with
      | eps hs _ =>
        exact absurd ((DFA.reverse_Succ_eps D fresh eps hv he _ _).mp hs).1 hne
      | @sym _ q' _ _ _ hae hs hr =>
        have hl := (DFA.reverse_Succ_sym D fresh eps hv he hnd hae q1 q').mp hs
        have hq' := (DFA.valid_lookup hv hl).1
        exact ⟨q', (ih hq' (fun h => hf (h ▸ hq'))).mp hr, hl⟩
    · rintro ⟨q', hr, hl⟩
      obtain ⟨hq', ha, _⟩ := DFA.valid_lookup hv hl
      have hae : a ≠ eps := fun h => he (h ▸ ha)
      exact NFA.Run.sym hae ((DFA.reverse_Succ_sym D fresh eps hv he hnd hae q1 q').mpr hl)
        ((ih hq' (fun h => hf (h ▸ hq'))).mpr hr)

include hf he hnd in
/-- a run from the fresh state to a state of `D` starts with the ε-move to an accepting state -/
theorem DFA.reverse_Run_fresh {q r : σ} {w : List τ} (h : (D.reverse fresh eps).Run q w r)
    (hq : q = fresh) (hr : r ∈ D.Q) : ∃ f, f ∈ D.F ∧ (D.reverse fresh eps).Run f w r := by
  cases h with
  | nil => exact absurd (hq ▸ hr) hf
  | eps hs hr' =>
    exact ⟨_, ((DFA.reverse_Succ_eps D fresh eps hv he _ _).mp hs).2, hr'⟩
  | sym hae hs hr' =>
    have hl := (DFA.reverse_Succ_sym D fresh eps hv he hnd hae _ _).mp hs
    exact absurd (hq ▸ (DFA.valid_lookup hv hl).2.2) hf

include hf he hnd in
theorem DFA.reverse_accepts_iff (w : List τ) :
    (D.reverse fresh eps).Accepts w ↔ D.Accepts w.reverse := by
  unfold NFA.Accepts DFA.Accepts
  have hF : (D.reverse fresh eps).F = [D.q0] := rfl
  have hq : (D.reverse fresh eps).q0 = fresh := rfl
  rw [hF, hq]
  constructor
  · rintro ⟨f0, hf0, hr⟩
    rw [List.mem_singleton] at hf0
    subst hf0
    obtain ⟨f, hfF, hr'⟩ := DFA.reverse_Run_fresh D fresh eps hv hf he hnd hr rfl (DFA.valid_q0 hv)
    exact ⟨f, hfF, (DFA.reverse_Run_iff D fresh eps hv hf he hnd (DFA.valid_F hv hfF) w _).mp hr'⟩
  · rintro ⟨f, hfF, hr⟩
    refine ⟨D.q0, List.mem_singleton.mpr rfl, ?_⟩
    refine NFA.Run.eps (q' := f) ((DFA.reverse_Succ_eps D fresh eps hv he _ _).mpr ⟨rfl, hfF⟩) ?_
    exact (DFA.reverse_Run_iff D fresh eps hv hf he hnd (DFA.valid_F hv hfF) w _).mpr hr

end ReverseLang

/-! ### concrete automata for the non-vacuity examples of Props/C14b -/
namespace C14b

/-- words over {a,b} ending in `a`, plus an unreachable accepting state `z` -/
def exD : DFA String String :=
  { Q := ["p", "q", "z"], Sigma := ["a", "b"],
    delta := [(("p", "a"), "q"), (("p", "b"), "p"), (("q", "a"), "q"), (("q", "b"), "p"),
              (("z", "a"), "p"), (("z", "b"), "z")],
    q0 := "p", F := ["q", "z"] }

/-- accepts exactly ε and `a` (`d` is a dead state) -/
def exE : DFA String String :=
  { Q := ["s", "t", "d"], Sigma := ["a"],
    delta := [(("s", "a"), "t"), (("t", "a"), "d"), (("d", "a"), "d")],
    q0 := "s", F := ["s", "t"] }

/-- a model artefact: an association list with a duplicate key `("p","a")` (impossible for a Python dict);
    only the first binding counts for `DFA.next`, so `z` is unreachable and the language is empty -/
def exDup : DFA String String :=
  { Q := ["p", "z"], Sigma := ["a"],
    delta := [(("p", "a"), "p"), (("p", "a"), "z"), (("z", "a"), "z")],
    q0 := "p", F := ["z"] }

theorem exD_valid : exD.valid = true := by decide
theorem exE_valid : exE.valid = true := by decide
theorem exDup_valid : exDup.valid = true := by decide
theorem exD_nodup : (exD.delta.map (·.1)).Nodup := by decide
theorem exE_nodup : (exE.delta.map (·.1)).Nodup := by decide

end C14b

end Gamba
