/-
  Gamba.Proofs.C12c — helpers for the text-level soundness of the exercise checkers (Model/CheckText.lean):
  facts about the results of `parseDfa` / `parseNfa` for an ARBITRARY state-label predicate (validity, no repeated
  state, no repeated transition key), validity of the result of `parseSimpleCfg`, and the unpacking of each
  text-level checker whose verdict is `.ok`.
-/
import Gamba.Model.CheckText
import Gamba.Proofs.C16a
import Gamba.Proofs.C16b
import Gamba.Proofs.C02reg
import Gamba.Spec.CFG
namespace Gamba
open Parse Text

namespace C12c

/-! ### the line parser never stores a repeated state -/

theorem parseWords_states_nodup {k : Kind} {ok : Word → Bool} {st st' : Raw} {ws : List Word}
    (h : parseWords k ok st ws = .ok st') (hs : st.states.Nodup) : st'.states.Nodup := by
  unfold parseWords at h
  split at h
  · cases h; exact hs
  · simp only at h
    repeat' split at h
    all_goals first | cases h | skip
    all_goals first | exact hs | skip
    apply hasDup_eq_false_iff.mp
    simp_all

theorem parseWordLines_states_nodup {k : Kind} {ok : Word → Bool} (wls : List (List Word)) {st st' : Raw}
    (h : parseWordLines k ok st wls = .ok st') (hs : st.states.Nodup) : st'.states.Nodup := by
  induction wls generalizing st with
  | nil => cases h; exact hs
  | cons w ws ih =>
    rw [parseWordLines_cons] at h
    cases hw : parseWords k ok st w with
    | error e => rw [hw] at h; cases h
    | ok st1 =>
      rw [hw] at h
      exact ih h (parseWords_states_nodup hw hs)

theorem parseRaw_states_nodup {k : Kind} {ok : Word → Bool} {text : Word} {A0 : Raw}
    (h : parseRaw k ok text = .ok A0) : A0.states.Nodup := by
  rw [parseRaw_eq] at h
  exact parseWordLines_states_nodup _ h List.nodup_nil

theorem commonChecks_states_nodup {A0 A : Raw} {extra : List String} {ok : Word → Bool}
    (h0 : A0.states.Nodup) (h : commonChecks A0 extra ok = .ok A) : A.states.Nodup := by
  obtain ⟨rfl, _⟩ := commonChecks_ok h
  show (if A0.states.isEmpty then dedup (usedStates A0 ++ extra) else A0.states).Nodup
  split
  · exact nodup_dedup _
  · exact h0

/-! ### `parseDfa`, `parseNfa` for an arbitrary state-label predicate -/

theorem parseDfa_ok_unpack {text : List Char} {ok : Word → Bool} {D : DFA String String}
    (h : Parse.parseDfa text ok = .ok D) :
    ∃ A0 A Sigma, parseRaw .dfa ok text = .ok A0 ∧ commonChecks A0 [] ok = .ok A ∧
      parseDfa.hasDupPairs (A.transitions.map fun t => (t.1, str t.2.1)) = false ∧
      getSymbolSet A "input_symbols" (dedup (A.transitions.map fun t => str t.2.1)) = .ok Sigma ∧
      wordsOk Sigma = true ∧
      (A.states.all fun p => Sigma.all fun a => decide ((p, a) ∈ A.transitions.map fun t => (t.1, str t.2.1))) = true ∧
      DFA.checked { Q := A.states, Sigma := Sigma, delta := A.transitions.map fun t => ((t.1, str t.2.1), t.2.2),
                    q0 := initialOf A, F := A.final } = .ok D := by
  unfold parseDfa at h
  simp only [bind, Except.bind] at h
  repeat' split at h
  all_goals first | cases h | skip
  rename_i A0 h0 _ A h1 h2 _ Sigma h3 h4 h5
  exact ⟨A0, A, Sigma, h0, h1, by simpa using h2, h3, by simpa using h4, by simpa using h5, h⟩

/-- every DFA that comes out of the parser satisfies the class invariant, has no repeated state and no repeated
    transition key — for every state-label predicate -/
theorem parseDfa_ok_facts {text : List Char} {ok : Word → Bool} {D : DFA String String}
    (h : Parse.parseDfa text ok = .ok D) :
    D.valid = true ∧ D.Q.Nodup ∧ (D.delta.map (·.1)).Nodup ∧ (∀ q, q ∈ D.Q → ok q.toList = true) := by
  obtain ⟨A0, A, Sigma, h0, h1, h2, _, _, _, hc⟩ := parseDfa_ok_unpack h
  obtain ⟨rfl, hv⟩ := DFA.checked_ok hc
  refine ⟨hv, commonChecks_states_nodup (parseRaw_states_nodup h0) h1, ?_, (commonChecks_ok h1).2.2.1⟩
  show ((A.transitions.map fun t => ((t.1, str t.2.1), t.2.2)).map (·.1)).Nodup
  rw [List.map_map]
  exact hasDupPairs_eq_false_iff.mp h2

theorem parseNfa_ok_unpack {text : List Char} {ok : Word → Bool} {N : NFA String String}
    (h : Parse.parseNfa text ok = .ok N) :
    ∃ A0 A eps Sigma, parseRaw .nfa ok text = .ok A0 ∧ commonChecks A0 [] ok = .ok A ∧
      parseSymbol A "epsilon" 'ε' "_" = .ok eps ∧
      getSymbolSet A "input_symbols" (dedup ((A.transitions.map fun t => str t.2.1).filter (· ≠ eps))) = .ok Sigma ∧
      wordsOk Sigma = true ∧
      NFA.checked { Q := A.states, Sigma := Sigma,
                    delta := groupNfa (A.transitions.map fun t => (t.1, str t.2.1, t.2.2)),
                    q0 := initialOf A, F := A.final, eps := eps } = .ok N := by
  unfold parseNfa at h
  simp only [bind, Except.bind] at h
  repeat' split at h
  all_goals first | cases h | skip
  rename_i A0 h0 _ A h1 _ eps h2 _ Sigma h3 h4
  exact ⟨A0, A, eps, Sigma, h0, h1, h2, h3, by simpa using h4, h⟩

theorem parseNfa_ok_facts {text : List Char} {ok : Word → Bool} {N : NFA String String}
    (h : Parse.parseNfa text ok = .ok N) :
    N.valid = true ∧ N.Q.Nodup ∧ (∀ q, q ∈ N.Q → ok q.toList = true) := by
  obtain ⟨A0, A, eps, Sigma, h0, h1, _, _, _, hc⟩ := parseNfa_ok_unpack h
  obtain ⟨rfl, hv⟩ := NFA.checked_ok hc
  exact ⟨hv, commonChecks_states_nodup (parseRaw_states_nodup h0) h1, (commonChecks_ok h1).2.2.1⟩

/-! ### `parseSimpleCfg` -/

theorem shape_aux (G : CFG) (rules : List (String × List Sym)) (s0 : String) (x : List Sym)
    (rest : List (String × List Sym)) (hr : rules = (s0, x) :: rest)
    (hV : G.V = dedup (rules.map (·.1))) (hS : G.S = s0)
    (hR : G.R = rules.zipIdx.map fun p => ({ lhs := p.1.1, aid := p.2, rhs := p.1.2 } : CRule)) :
    G.S ∈ G.V ∧ CFG.AliasOK G := by
  constructor
  · rw [hV, hS, hr]; simp
  · intro r s hr' hs' he
    rw [hR] at hr' hs'
    obtain ⟨⟨a, i⟩, ha, rfl⟩ := List.mem_map.mp hr'
    obtain ⟨⟨b, j⟩, hb, rfl⟩ := List.mem_map.mp hs'
    have ha' := List.mem_zipIdx_iff_getElem?.mp ha
    have hb' := List.mem_zipIdx_iff_getElem?.mp hb
    simp only at he ha' hb'
    subst he
    rw [ha'] at hb'
    cases hb'
    rfl

/-- the grammar parser only returns valid grammars, whose start variable is declared and whose rules carry
    pairwise distinct alternative identities -/
theorem parseSimpleCfg_ok_facts {text : List Char} {G : CFG} {eps : String}
    (h : CfgText.parseSimpleCfg text = .ok (G, eps)) : G.valid = true ∧ G.S ∈ G.V ∧ CFG.AliasOK G := by
  unfold CfgText.parseSimpleCfg at h
  simp only [bind, Except.bind] at h
  split at h
  · cases h
  · rename_i acc _
    cases he : acc.eps with
    | some c =>
      simp only [he] at h
      split at h
      · cases h
      · rename_i heq
        split at h
        · cases h; exact ⟨by assumption, shape_aux _ _ _ _ _ heq rfl rfl rfl⟩
        · cases h
    | none =>
      simp only [he] at h
      generalize (if (acc.rules.any fun r => r.1.contains 'ε' || r.2.any (·.contains 'ε')) = true then 'ε' else '_') = e at h
      split at h
      · cases h
      · rename_i heq
        split at h
        · cases h; exact ⟨by assumption, shape_aux _ _ _ _ _ heq rfl rfl rfl⟩
        · cases h

theorem parseSimpleCfg_ok_valid {text : List Char} {G : CFG} {eps : String}
    (h : CfgText.parseSimpleCfg text = .ok (G, eps)) : G.valid = true := (parseSimpleCfg_ok_facts h).1

/-! ### verdicts -/

theorem ofBool_ok_iff (b : Bool) : CheckText.ofBool b = .ok ↔ b = true := by
  cases b <;> simp [CheckText.ofBool]

theorem ofExcept_ok_iff (e : Except Err Bool) : CheckText.ofExcept e = .ok ↔ e = .ok true := by
  cases e with
  | error x => simp [CheckText.ofExcept]
  | ok b => simp [CheckText.ofExcept, ofBool_ok_iff]

/-! ### the text-level checkers unpacked: the verdict `.ok` is only reached when every argument parses and the
    object-level check succeeds -/

open CheckText in
theorem complement_unpack {answer dfa1 : String} (h : complement answer dfa1 = .ok) :
    ∃ D1 A, parseDfa dfa1.toList = .ok D1 ∧ parseDfa answer.toList = .ok A ∧ Check.complementCheck D1 A = true := by
  unfold complement at h
  split at h
  · rename_i D1 A h1 h2
    exact ⟨D1, A, h1, h2, (ofBool_ok_iff _).mp h⟩
  · cases h

open CheckText in
theorem product_unpack {t : ProductType} {answer dfa1 dfa2 : String} {len : Nat}
    (h : product t answer dfa1 dfa2 len = .ok) :
    ∃ D1 D2 A, parseDfa dfa1.toList = .ok D1 ∧ parseDfa dfa2.toList = .ok D2 ∧
      parseDfa answer.toList productStateOk = .ok A ∧ Check.productCheck t D1 D2 A len = some true := by
  unfold product at h
  split at h
  · rename_i D1 D2 A h1 h2 h3
    split at h
    · rename_i b hb
      rw [(ofBool_ok_iff _).mp h] at hb
      exact ⟨D1, D2, A, h1, h2, h3, hb⟩
    · cases h
  · cases h

open CheckText in
theorem reverse_unpack {dfa answer : String} {s : Sched} {len : Nat} (h : reverse dfa answer s len = .ok) :
    ∃ D A, parseDfa dfa.toList = .ok D ∧ parseNfa answer.toList = .ok A ∧ Check.reverseCheck D A s len = .ok true := by
  unfold reverse at h
  split at h
  · rename_i D A h1 h2
    exact ⟨D, A, h1, h2, (ofExcept_ok_iff _).mp h⟩
  · cases h

open CheckText in
theorem minimal_unpack {dfa answer : String} {len : Nat} (h : minimal dfa answer len = .ok) :
    ∃ D A, parseDfa dfa.toList = .ok D ∧ parseDfa answer.toList wordOrSetStateOk = .ok A ∧
      Check.minimalCheck D A len = .ok true := by
  unfold minimal at h
  split at h
  · rename_i D A h1 h2
    exact ⟨D, A, h1, h2, (ofExcept_ok_iff _).mp h⟩
  · cases h

open CheckText in
theorem nfa2dfa_unpack {nfa answer : String} {s : Sched} (h : nfa2dfa nfa answer s = .ok) :
    ∃ N A, parseNfa nfa.toList = .ok N ∧ parseNfa answer.toList setStateOk = .ok A ∧
      Check.nfaToDfaCheck N A s = .ok true := by
  unfold nfa2dfa at h
  split at h
  · rename_i N A h1 h2
    exact ⟨N, A, h1, h2, (ofExcept_ok_iff _).mp h⟩
  · cases h

open CheckText in
theorem dfa2regexp_unpack {dfa answer : String} {len : Nat} (h : dfa2regexp dfa answer len = .ok) :
    ∃ D r, parseDfa dfa.toList = .ok D ∧ RegexpText.parseSimple answer = some r ∧
      Check.equalLanguages (r.wordsUpTo len) (D.wordsUpTo len) = true := by
  unfold dfa2regexp at h
  split at h
  · rename_i D r h1 h2
    exact ⟨D, r, h1, h2, (ofBool_ok_iff _).mp h⟩
  · cases h

open CheckText in
theorem cyk_unpack {cfg word answer : String} (h : cyk cfg word answer = .ok) :
    ∃ G eps, CfgText.parseSimpleCfg cfg.toList = .ok (G, eps) ∧
      Check.cykCheck G (word.toList.map String.singleton) answer = .ok true := by
  unfold cyk at h
  split at h
  · rename_i G eps h1
    exact ⟨G, eps, h1, (ofExcept_ok_iff _).mp h⟩
  · cases h

open CheckText in
theorem derivation_unpack {cfg deriv word : String} {kind : Nat} (h : derivation cfg deriv word kind = .ok) :
    ∃ G eps, CfgText.parseSimpleCfg cfg.toList = .ok (G, eps) ∧
      Check.derivationCheck G deriv (word.toList.map String.singleton) kind = true := by
  unfold derivation at h
  split at h
  · rename_i G eps h1
    exact ⟨G, eps, h1, (ofBool_ok_iff _).mp h⟩
  · cases h

open CheckText in
theorem chomsky_unpack {cfg answer : String} {phase : Nat} {start : String} {len : Nat}
    (h : chomsky cfg answer phase start len = .ok) :
    ∃ G eps G1 eps1, CfgText.parseSimpleCfg cfg.toList = .ok (G, eps) ∧
      CfgText.parseSimpleCfg answer.toList = .ok (G1, eps1) ∧ Check.chomskyCheck G G1 phase start len = true := by
  unfold chomsky at h
  split at h
  · rename_i G eps G1 eps1 h1 h2
    exact ⟨G, eps, G1, eps1, h1, h2, (ofBool_ok_iff _).mp h⟩
  · cases h

/-- the CYK check can only succeed on a grammar in Chomsky normal form (`cfg_cyk_matrix` asserts it) -/
theorem cykCheck_ok_isChomsky {G : CFG} {word : List String} {answer : String} {b : Bool}
    (h : Check.cykCheck G word answer = .ok b) : G.isChomsky = true := by
  unfold Check.cykCheck CFG.cykMatrix at h
  cases hc : G.isChomsky with
  | true => rfl
  | false => simp [hc, bind, Except.bind] at h

/-! ### the structural criterion of the NFA → DFA exercise implies language equality -/

section subset
variable {N A : NFA String String}

/-- a set of states closed under ε-moves -/
def EpsClosed (N : NFA String String) (S : List String) : Prop := ∀ x, x ∈ S → ∀ y, N.Succ x N.eps y → y ∈ S

theorem EpsClosed.reach {S : List String} (hc : EpsClosed N S) {x y : String} (hx : x ∈ S) (h : N.EpsReach [x] y) :
    y ∈ S := by
  induction h with
  | base hm => rw [List.mem_singleton.mp hm]; exact hx
  | step _ hs ih => exact hc _ ih _ hs

theorem succ_iff_mem_succ {q a q' : String} : A.Succ q a q' ↔ q' ∈ A.succ q a := by
  unfold NFA.Succ NFA.succ
  cases A.delta.lookup (q, a) with
  | none => simp
  | some T => simp

/-- the hypotheses are the conclusion of `chk_nfaToDfa_sound` (plus validity of both automata) -/
theorem subset_answer_lang (vN : N.valid = true) (vA : A.valid = true)
    (hS : ∀ a, a ∈ A.Sigma ↔ a ∈ N.Sigma)
    (h0 : ∀ x, x ∈ Check.extractSet A.q0 ↔ N.EpsReach [N.q0] x)
    (hF : ∀ q, q ∈ A.Q → (q ∈ A.F ↔ ∃ x, x ∈ Check.extractSet q ∧ x ∈ N.F))
    (hT : ∀ q a, q ∈ A.Q → a ∈ A.Sigma → ∃ q1, (∀ t, t ∈ A.succ q a ↔ t = q1) ∧
        ∀ x, x ∈ Check.extractSet q1 ↔ ∃ p y, p ∈ Check.extractSet q ∧ N.Succ p a y ∧ N.EpsReach [y] x)
    (hE : ∀ e, e ∈ A.delta → e.1.2 = A.eps → e.2 = [])
    (w : List String) (hw : ∀ a, a ∈ w → a ∈ N.Sigma) : A.Accepts w ↔ N.Accepts w := by
  obtain ⟨nq0, _, neps, _⟩ := (NFA.valid_iff N).mp vN
  obtain ⟨aq0, _, aeps, _⟩ := (NFA.valid_iff A).mp vA
  -- the answer has no ε-move
  have noEps : ∀ q q', ¬ A.Succ q A.eps q' := by
    rintro q q' ⟨T, hl, hm⟩
    have := hE _ (mem_of_lookup_eq_some hl) rfl
    simp only at this
    rw [this] at hm; cases hm
  have key : ∀ (w : List String), (∀ a, a ∈ w → a ∈ N.Sigma) → ∀ q, q ∈ A.Q → EpsClosed N (Check.extractSet q) →
      ((∃ f, f ∈ A.F ∧ A.Run q w f) ↔ ∃ x, x ∈ Check.extractSet q ∧ ∃ f, f ∈ N.F ∧ N.Run x w f) := by
    intro w
    induction w with
    | nil =>
      intro _ q hq hc
      constructor
      · rintro ⟨f, hf, hr⟩
        have hfq : f = q := by
          cases hr with
          | nil => rfl
          | eps hs _ => exact absurd hs (noEps _ _)
        subst hfq
        obtain ⟨x, hx, hxF⟩ := (hF f hq).mp hf
        exact ⟨x, hx, x, hxF, NFA.Run.nil x⟩
      · rintro ⟨x, hx, f, hf, hr⟩
        have := hc.reach hx (NFA.Run_nil_iff_epsReach.mp hr)
        exact ⟨q, (hF q hq).mpr ⟨f, this, hf⟩, NFA.Run.nil q⟩
    | cons a w ih =>
      intro hw q hq hc
      have haN : a ∈ N.Sigma := hw a List.mem_cons_self
      have haA : a ∈ A.Sigma := (hS a).mpr haN
      have hw' : ∀ b, b ∈ w → b ∈ N.Sigma := fun b hb => hw b (List.mem_cons_of_mem _ hb)
      have neA : a ≠ A.eps := fun e => aeps (e ▸ haA)
      have neN : a ≠ N.eps := fun e => neps (e ▸ haN)
      obtain ⟨q1, hq1, hx1⟩ := hT q a hq haA
      have hs1 : A.Succ q a q1 := succ_iff_mem_succ.mpr ((hq1 q1).mpr rfl)
      have hq1Q : q1 ∈ A.Q := (NFA.valid_Succ_all vA hs1).2.2
      have hc1 : EpsClosed N (Check.extractSet q1) := by
        intro x hx y hs
        obtain ⟨p, y0, hp, hs0, hr⟩ := (hx1 x).mp hx
        exact (hx1 y).mpr ⟨p, y0, hp, hs0, NFA.EpsReach.step hr hs⟩
      have ih1 := ih hw' q1 hq1Q hc1
      constructor
      · rintro ⟨f, hf, hr⟩
        have hr1 : A.Run q1 w f := by
          cases hr with
          | eps hs _ => exact absurd hs (noEps _ _)
          | sym _ hs hr' =>
            rw [(hq1 _).mp (succ_iff_mem_succ.mp hs)] at hr'
            exact hr'
        obtain ⟨x1, hx1m, f', hf', hr'⟩ := ih1.mp ⟨f, hf, hr1⟩
        obtain ⟨p, y, hp, hs, he⟩ := (hx1 x1).mp hx1m
        exact ⟨p, hp, f', hf', NFA.Run.sym neN hs (NFA.Run.of_epsReach he hr')⟩
      · rintro ⟨x, hx, f, hf, hr⟩
        have hr' : N.Run x ([a] ++ w) f := hr
        obtain ⟨m, hra, hrw⟩ := NFA.Run.split hr'
        have hra' : N.Run x ([] ++ [a]) m := hra
        obtain ⟨p, y, hrp, hs, he⟩ := (NFA.Run_snoc_iff neN).mp hra'
        have hp : p ∈ Check.extractSet q := hc.reach hx (NFA.Run_nil_iff_epsReach.mp hrp)
        have hm : m ∈ Check.extractSet q1 := (hx1 m).mpr ⟨p, y, hp, hs, he⟩
        obtain ⟨f', hf', hrA⟩ := ih1.mpr ⟨m, hm, f, hf, hrw⟩
        exact ⟨f', hf', NFA.Run.sym neA hs1 hrA⟩
  have hc0 : EpsClosed N (Check.extractSet A.q0) := by
    intro x hx y hs
    exact (h0 y).mpr (NFA.EpsReach.step ((h0 x).mp hx) hs)
  unfold NFA.Accepts
  rw [key w hw A.q0 aq0 hc0]
  constructor
  · rintro ⟨x, hx, f, hf, hr⟩
    exact ⟨f, hf, NFA.Run.of_epsReach ((h0 x).mp hx) hr⟩
  · rintro ⟨f, hf, hr⟩
    exact ⟨N.q0, (h0 _).mpr (NFA.EpsReach.base (List.mem_singleton.mpr rfl)), f, hf, hr⟩

/-- … for EVERY word: a word with a symbol outside the common alphabet is accepted by neither automaton -/
theorem subset_answer_lang_all (vN : N.valid = true) (vA : A.valid = true)
    (hS : ∀ a, a ∈ A.Sigma ↔ a ∈ N.Sigma)
    (h0 : ∀ x, x ∈ Check.extractSet A.q0 ↔ N.EpsReach [N.q0] x)
    (hF : ∀ q, q ∈ A.Q → (q ∈ A.F ↔ ∃ x, x ∈ Check.extractSet q ∧ x ∈ N.F))
    (hT : ∀ q a, q ∈ A.Q → a ∈ A.Sigma → ∃ q1, (∀ t, t ∈ A.succ q a ↔ t = q1) ∧
        ∀ x, x ∈ Check.extractSet q1 ↔ ∃ p y, p ∈ Check.extractSet q ∧ N.Succ p a y ∧ N.EpsReach [y] x)
    (hE : ∀ e, e ∈ A.delta → e.1.2 = A.eps → e.2 = [])
    (w : List String) : A.Accepts w ↔ N.Accepts w := by
  constructor
  · intro h
    have hw : ∀ a, a ∈ w → a ∈ N.Sigma := fun a ha => (hS a).mp (NFA.Accepts.over vA h a ha)
    exact (subset_answer_lang vN vA hS h0 hF hT hE w hw).mp h
  · intro h
    exact (subset_answer_lang vN vA hS h0 hF hT hE w (NFA.Accepts.over vN h)).mpr h

end subset

end C12c
end Gamba
