/-
  Gamba.Proofs.C04a — the table-filling minimisation (`dfa_minimize`): the marking fixed point is exactly
  the set of inequivalent pairs, the loop terminates within its fuel, and `classesFrom` assembles the
  Nerode partition.
-/
import Gamba.Model.DFA
import Gamba.Model.Minimize
import Gamba.Spec.Automata
import Gamba.Proofs.DFABasic
import Gamba.Proofs.MinBasic
namespace Gamba
set_option linter.unusedSectionVars false
variable {σ τ : Type} [DecidableEq σ] [DecidableEq τ]

/-! ### `marked` -/

theorem marked_iff (m : List (σ × σ)) (p q : σ) : marked m p q = true ↔ (p, q) ∈ m ∨ (q, p) ∈ m := by
  simp [marked]

theorem marked_symm (m : List (σ × σ)) (p q : σ) : marked m p q = marked m q p := by
  simp only [marked, Bool.or_comm]

theorem marked_mono {m m' : List (σ × σ)} (h : ∀ x, x ∈ m → x ∈ m') {p q : σ}
    (hm : marked m p q = true) : marked m' p q = true := by
  rw [marked_iff] at hm ⊢
  rcases hm with hm | hm
  · exact Or.inl (h _ hm)
  · exact Or.inr (h _ hm)

theorem marked_append_self (m : List (σ × σ)) (p q : σ) : marked (m ++ [(p, q)]) p q = true := by
  rw [marked_iff]; left; simp

/-! ### `pairsLt` -/

theorem mem_pairsLt_mem {l : List σ} {p q : σ} (h : (p, q) ∈ pairsLt l) : p ∈ l ∧ q ∈ l := by
  induction l with
  | nil => simp [pairsLt] at h
  | cons x xs ih =>
    simp only [pairsLt, List.mem_append, List.mem_map, Prod.mk.injEq] at h
    rcases h with ⟨y, hy, rfl, rfl⟩ | h
    · exact ⟨List.mem_cons_self, List.mem_cons_of_mem _ hy⟩
    · exact ⟨List.mem_cons_of_mem _ (ih h).1, List.mem_cons_of_mem _ (ih h).2⟩

theorem mem_pairsLt_of_ne {l : List σ} {p q : σ} (hp : p ∈ l) (hq : q ∈ l) (hne : p ≠ q) :
    (p, q) ∈ pairsLt l ∨ (q, p) ∈ pairsLt l := by
  induction l with
  | nil => cases hp
  | cons x xs ih =>
    simp only [pairsLt, List.mem_append, List.mem_map, Prod.mk.injEq]
    rcases List.mem_cons.mp hp with rfl | hp'
    · rcases List.mem_cons.mp hq with rfl | hq'
      · exact absurd rfl hne
      · exact Or.inl (Or.inl ⟨q, hq', rfl, rfl⟩)
    · rcases List.mem_cons.mp hq with rfl | hq'
      · exact Or.inr (Or.inl ⟨p, hp', rfl, rfl⟩)
      · rcases ih hp' hq' with h | h
        · exact Or.inl (Or.inr h)
        · exact Or.inr (Or.inr h)

theorem length_pairsLt_le (l : List σ) : (pairsLt l).length ≤ l.length * l.length := by
  induction l with
  | nil => simp [pairsLt]
  | cons x xs ih =>
    simp only [pairsLt, List.length_append, List.length_map, List.length_cons]
    have : (xs.length + 1) * (xs.length + 1) = xs.length * xs.length + 2 * xs.length + 1 := by
      rw [Nat.add_mul, Nat.mul_add]; omega
    omega

/-! ### one sweep -/

/-- the body of the `for i, j in combinations(...)` loop -/
def DFA.tStep (D : DFA σ τ) (acc : List (σ × σ) × Bool) (pq : σ × σ) : List (σ × σ) × Bool :=
  if !marked acc.1 pq.1 pq.2 ∧ D.Sigma.any (fun a => marked acc.1 (D.next pq.1 a) (D.next pq.2 a))
  then (acc.1 ++ [pq], true) else acc

theorem DFA.tablePass_eq (D : DFA σ τ) (m : List (σ × σ)) :
    D.tablePass m = (pairsLt D.Q).foldl D.tStep (m, false) := rfl

/-- the marking condition for a pair w.r.t. the marks `m` -/
def DFA.tCond (D : DFA σ τ) (m : List (σ × σ)) (pq : σ × σ) : Prop :=
  marked m pq.1 pq.2 = false ∧ ∃ a, a ∈ D.Sigma ∧ marked m (D.next pq.1 a) (D.next pq.2 a) = true

theorem DFA.tStep_pos (D : DFA σ τ) {acc : List (σ × σ) × Bool} {pq : σ × σ} (h : D.tCond acc.1 pq) :
    D.tStep acc pq = (acc.1 ++ [pq], true) := by
  unfold DFA.tStep
  rw [if_pos]
  obtain ⟨h1, a, ha, h2⟩ := h
  refine ⟨by simp [h1], ?_⟩
  rw [List.any_eq_true]
  exact ⟨a, ha, h2⟩

theorem DFA.tStep_neg (D : DFA σ τ) {acc : List (σ × σ) × Bool} {pq : σ × σ} (h : ¬ D.tCond acc.1 pq) :
    D.tStep acc pq = acc := by
  unfold DFA.tStep
  rw [if_neg]
  rintro ⟨h1, h2⟩
  apply h
  rw [List.any_eq_true] at h2
  obtain ⟨a, ha, h2⟩ := h2
  exact ⟨by simpa using h1, a, ha, h2⟩

/-- every marked pair is inequivalent -/
def DFA.TSound (D : DFA σ τ) (m : List (σ × σ)) : Prop := ∀ pq, pq ∈ m → ¬ D.Equiv pq.1 pq.2

theorem DFA.TSound.marked {D : DFA σ τ} {m : List (σ × σ)} (h : D.TSound m) {p q : σ}
    (hm : marked m p q = true) : ¬ D.Equiv p q := by
  rcases (marked_iff m p q).mp hm with hm | hm
  · exact h _ hm
  · exact fun he => h _ hm he.symm

theorem DFA.TSound.step {D : DFA σ τ} {acc : List (σ × σ) × Bool} (h : D.TSound acc.1) (pq : σ × σ) :
    D.TSound (D.tStep acc pq).1 := by
  by_cases hc : D.tCond acc.1 pq
  · rw [DFA.tStep_pos D hc]
    intro x hx
    rcases List.mem_append.mp hx with hx | hx
    · exact h x hx
    · rw [List.mem_singleton.mp hx]
      obtain ⟨_, a, ha, h2⟩ := hc
      exact DFA.not_equiv_of_next ha (h.marked h2)
  · rw [DFA.tStep_neg D hc]; exact h

theorem DFA.tfold_sound (D : DFA σ τ) (L : List (σ × σ)) (acc : List (σ × σ) × Bool)
    (h : D.TSound acc.1) : D.TSound (L.foldl D.tStep acc).1 := by
  induction L generalizing acc with
  | nil => exact h
  | cons pq L ih => exact ih _ (h.step pq)

theorem DFA.tStep_sub (D : DFA σ τ) (acc : List (σ × σ) × Bool) (pq : σ × σ) :
    ∀ x, x ∈ acc.1 → x ∈ (D.tStep acc pq).1 := by
  intro x hx
  by_cases hc : D.tCond acc.1 pq
  · rw [DFA.tStep_pos D hc]; exact List.mem_append_left _ hx
  · rw [DFA.tStep_neg D hc]; exact hx

theorem DFA.tfold_sub (D : DFA σ τ) (L : List (σ × σ)) (acc : List (σ × σ) × Bool) :
    ∀ x, x ∈ acc.1 → x ∈ (L.foldl D.tStep acc).1 := by
  induction L generalizing acc with
  | nil => exact fun _ h => h
  | cons pq L ih => exact fun x hx => ih _ x (D.tStep_sub acc pq x hx)

/-- every mark comes from the initial marks or from the swept list -/
theorem DFA.tfold_sub_union (D : DFA σ τ) (L : List (σ × σ)) (acc : List (σ × σ) × Bool) :
    ∀ x, x ∈ (L.foldl D.tStep acc).1 → x ∈ acc.1 ∨ x ∈ L := by
  induction L generalizing acc with
  | nil => exact fun _ h => Or.inl h
  | cons pq L ih =>
    intro x hx
    rcases ih _ x hx with h | h
    · by_cases hc : D.tCond acc.1 pq
      · rw [DFA.tStep_pos D hc] at h
        rcases List.mem_append.mp h with h | h
        · exact Or.inl h
        · rw [List.mem_singleton.mp h]; exact Or.inr List.mem_cons_self
      · rw [DFA.tStep_neg D hc] at h; exact Or.inl h
    · exact Or.inr (List.mem_cons_of_mem _ h)

/-- a sweep that reports `changed = false` changed nothing, and no pair of the list was markable -/
theorem DFA.tfold_false (D : DFA σ τ) (L : List (σ × σ)) (acc : List (σ × σ) × Bool)
    (h : (L.foldl D.tStep acc).2 = false) :
    acc.2 = false ∧ (L.foldl D.tStep acc).1 = acc.1 ∧ ∀ pq, pq ∈ L → ¬ D.tCond acc.1 pq := by
  induction L generalizing acc with
  | nil => exact ⟨h, rfl, fun _ hx => by cases hx⟩
  | cons pq L ih =>
    rw [List.foldl_cons] at h ⊢
    obtain ⟨h1, h2, h3⟩ := ih _ h
    by_cases hc : D.tCond acc.1 pq
    · rw [DFA.tStep_pos D hc] at h1; cases h1
    · rw [DFA.tStep_neg D hc] at h1 h2 h3 ⊢
      refine ⟨h1, h2, ?_⟩
      intro x hx
      rcases List.mem_cons.mp hx with rfl | hx
      · exact hc
      · exact h3 x hx

/-! ### termination measure: the number of unmarked pairs of `P` -/

/-- number of pairs of `P` not yet marked -/
def tMeasure (P m : List (σ × σ)) : Nat := P.countP (fun pq => !marked m pq.1 pq.2)

theorem countP_lt_of {α : Type} {p q : α → Bool} {l : List α} (hpq : ∀ x, x ∈ l → p x = true → q x = true)
    {x : α} (hx : x ∈ l) (hqx : q x = true) (hpx : p x = false) : l.countP p < l.countP q := by
  induction l with
  | nil => cases hx
  | cons y l ih =>
    rw [List.countP_cons, List.countP_cons]
    have hmono : l.countP p ≤ l.countP q :=
      List.countP_mono_left (fun z hz => hpq z (List.mem_cons_of_mem _ hz))
    rcases List.mem_cons.mp hx with rfl | hx'
    · rw [hqx, hpx]; simp; omega
    · have := ih (fun z hz => hpq z (List.mem_cons_of_mem _ hz)) hx'
      by_cases hpy : p y = true
      · rw [if_pos hpy, if_pos (hpq y List.mem_cons_self hpy)]; omega
      · rw [if_neg hpy]; omega

theorem tMeasure_mono (P : List (σ × σ)) {m m' : List (σ × σ)} (h : ∀ x, x ∈ m → x ∈ m') :
    tMeasure P m' ≤ tMeasure P m := by
  unfold tMeasure
  apply List.countP_mono_left
  intro x _ hx
  simp only [Bool.not_eq_true'] at hx ⊢
  cases hm : marked m x.1 x.2 with
  | false => rfl
  | true => rw [marked_mono h hm] at hx; cases hx

theorem tMeasure_lt (P : List (σ × σ)) (m : List (σ × σ)) {pq : σ × σ} (hP : pq ∈ P)
    (hm : marked m pq.1 pq.2 = false) : tMeasure P (m ++ [pq]) < tMeasure P m := by
  obtain ⟨p, q⟩ := pq
  unfold tMeasure
  apply countP_lt_of (x := (p, q)) _ hP
  · simp [hm]
  · have := marked_append_self m p q
    simp [this]
  · intro x _ hx
    simp only [Bool.not_eq_true'] at hx ⊢
    cases hm' : marked m x.1 x.2 with
    | false => rfl
    | true =>
      rw [marked_mono (m' := m ++ [(p, q)]) (fun y hy => List.mem_append_left _ hy) hm'] at hx; cases hx

theorem tMeasure_le_length (P m : List (σ × σ)) : tMeasure P m ≤ P.length := List.countP_le_length

theorem DFA.tfold_measure (D : DFA σ τ) (P L : List (σ × σ)) (hL : ∀ x, x ∈ L → x ∈ P)
    (acc : List (σ × σ) × Bool) :
    tMeasure P (L.foldl D.tStep acc).1 ≤ tMeasure P acc.1 ∧
    ((L.foldl D.tStep acc).2 = true → acc.2 = true ∨ tMeasure P (L.foldl D.tStep acc).1 < tMeasure P acc.1) := by
  induction L generalizing acc with
  | nil => exact ⟨Nat.le_refl _, fun h => Or.inl h⟩
  | cons pq L ih =>
    rw [List.foldl_cons]
    obtain ⟨h1, h2⟩ := ih (fun x hx => hL x (List.mem_cons_of_mem _ hx)) (D.tStep acc pq)
    by_cases hc : D.tCond acc.1 pq
    · have hlt := tMeasure_lt P acc.1 (hL pq List.mem_cons_self) hc.1
      rw [DFA.tStep_pos D hc] at h1 h2 ⊢
      dsimp only at h1 h2 ⊢
      exact ⟨by omega, fun _ => Or.inr (by omega)⟩
    · rw [DFA.tStep_neg D hc] at h1 h2 ⊢
      exact ⟨h1, h2⟩

/-! ### the loop -/

/-- closed under the marking rule on the pairs of `Q` -/
def DFA.TClosed (D : DFA σ τ) (m : List (σ × σ)) : Prop := ∀ pq, pq ∈ pairsLt D.Q → ¬ D.tCond m pq

theorem DFA.tableLoop_spec (D : DFA σ τ) (fuel : Nat) (m : List (σ × σ))
    (hf : tMeasure (pairsLt D.Q) m < fuel) (hs : D.TSound m) :
    ∃ m', D.tableLoop fuel m = .ok m' ∧ D.TSound m' ∧ (∀ x, x ∈ m → x ∈ m') ∧ D.TClosed m' ∧
      (∀ x, x ∈ m' → x ∈ m ∨ x ∈ pairsLt D.Q) := by
  induction fuel generalizing m with
  | zero => omega
  | succ fuel ih =>
    unfold DFA.tableLoop
    rw [DFA.tablePass_eq]
    have hsound := D.tfold_sound (pairsLt D.Q) (m, false) hs
    have hsub := D.tfold_sub (pairsLt D.Q) (m, false)
    have hsubu := D.tfold_sub_union (pairsLt D.Q) (m, false)
    have hmeas := D.tfold_measure (pairsLt D.Q) (pairsLt D.Q) (fun _ h => h) (m, false)
    have hfalse := D.tfold_false (pairsLt D.Q) (m, false)
    generalize (pairsLt D.Q).foldl D.tStep (m, false) = r at hsound hsub hsubu hmeas hfalse
    obtain ⟨m1, c⟩ := r
    simp only at hsound hsub hsubu hmeas hfalse ⊢
    cases c with
    | false =>
      simp only [Bool.false_eq_true, if_false]
      obtain ⟨_, h2, h3⟩ := hfalse rfl
      refine ⟨m1, rfl, hsound, hsub, ?_, hsubu⟩
      rw [h2]; exact h3
    | true =>
      simp only [if_true]
      have hlt : tMeasure (pairsLt D.Q) m1 < tMeasure (pairsLt D.Q) m := by
        rcases hmeas.2 rfl with h | h
        · cases h
        · exact h
      obtain ⟨m', h1, h2, h3, h4, h5⟩ := ih m1 (by omega) hsound
      refine ⟨m', h1, h2, fun x hx => h3 x (hsub x hx), h4, ?_⟩
      intro x hx
      rcases h5 x hx with h | h
      · exact hsubu x h
      · exact Or.inr h

/-- the initial marks: pairs that differ on `F` -/
def DFA.tInit (D : DFA σ τ) : List (σ × σ) :=
  (pairsLt D.Q).filter fun pq => decide (pq.1 ∈ D.F) != decide (pq.2 ∈ D.F)

theorem DFA.table_eq (D : DFA σ τ) :
    D.table = D.tableLoop (D.Q.length * D.Q.length + 1) D.tInit := rfl

theorem DFA.mem_tInit (D : DFA σ τ) (pq : σ × σ) :
    pq ∈ D.tInit ↔ pq ∈ pairsLt D.Q ∧ ¬ (pq.1 ∈ D.F ↔ pq.2 ∈ D.F) := by
  unfold DFA.tInit
  rw [List.mem_filter]
  by_cases h1 : pq.1 ∈ D.F <;> by_cases h2 : pq.2 ∈ D.F <;> simp [h1, h2]

theorem DFA.tInit_sound (D : DFA σ τ) : D.TSound D.tInit := by
  intro pq hpq
  exact DFA.not_equiv_of_fin ((D.mem_tInit pq).mp hpq).2

/-- a closed marking that contains the initial marks marks every inequivalent pair of `Q` -/
theorem DFA.tComplete (D : DFA σ τ) (hv : D.valid = true) (m : List (σ × σ))
    (hi : ∀ x, x ∈ D.tInit → x ∈ m) (hc : D.TClosed m)
    (w : List τ) (hw : ∀ a, a ∈ w → a ∈ D.Sigma) (p q : σ) (hp : p ∈ D.Q) (hq : q ∈ D.Q)
    (hsep : ¬ (D.runT p w ∈ D.F ↔ D.runT q w ∈ D.F)) : marked m p q = true := by
  induction w generalizing p q with
  | nil =>
    simp only [DFA.runT_nil] at hsep
    have hne : p ≠ q := by rintro rfl; exact hsep Iff.rfl
    rw [marked_iff]
    rcases mem_pairsLt_of_ne hp hq hne with h | h
    · exact Or.inl (hi _ ((D.mem_tInit (p, q)).mpr ⟨h, hsep⟩))
    · exact Or.inr (hi _ ((D.mem_tInit (q, p)).mpr ⟨h, fun hh => hsep hh.symm⟩))
  | cons a w ih =>
    have ha := hw a List.mem_cons_self
    have hne : p ≠ q := by rintro rfl; exact hsep Iff.rfl
    have hnext : marked m (D.next p a) (D.next q a) = true :=
      ih (fun b hb => hw b (List.mem_cons_of_mem _ hb)) _ _ (DFA.valid_next_mem hv hp ha)
        (DFA.valid_next_mem hv hq ha) hsep
    cases hm : marked m p q with
    | true => rfl
    | false =>
      exfalso
      rcases mem_pairsLt_of_ne hp hq hne with h | h
      · exact hc _ h ⟨hm, a, ha, hnext⟩
      · refine hc _ h ⟨?_, a, ha, ?_⟩
        · rw [marked_symm]; exact hm
        · rw [marked_symm]; exact hnext

/-- the table-filling fixed point marks exactly the inequivalent pairs; the loop terminates within its
    fuel (no `Nodup` needed) -/
theorem DFA.table_exact' (D : DFA σ τ) (hv : D.valid = true) :
    ∃ m, D.table = .ok m ∧ (∀ x, x ∈ m → x ∈ pairsLt D.Q) ∧
      ∀ p q, p ∈ D.Q → q ∈ D.Q → (marked m p q = true ↔ ¬ D.Equiv p q) := by
  have hf : tMeasure (pairsLt D.Q) D.tInit < D.Q.length * D.Q.length + 1 := by
    have h1 := tMeasure_le_length (pairsLt D.Q) D.tInit
    have h2 := length_pairsLt_le D.Q
    omega
  obtain ⟨m, h1, h2, h3, h4, h5⟩ := D.tableLoop_spec _ D.tInit hf D.tInit_sound
  refine ⟨m, by rw [DFA.table_eq]; exact h1, ?_, ?_⟩
  · intro x hx
    rcases h5 x hx with h | h
    · exact ((D.mem_tInit x).mp h).1
    · exact h
  · intro p q hp hq
    constructor
    · exact h2.marked
    · intro hne
      obtain ⟨w, hw, hsep⟩ := (DFA.not_equiv_iff D p q).mp hne
      exact D.tComplete hv m h3 h4 w hw p q hp hq hsep

/-! ### class assembly -/

theorem classesFrom_spec (D : DFA σ τ) (m : List (σ × σ)) (xs placed : List σ)
    (hE : ∀ p q, p ∈ xs → q ∈ xs → (marked m p q = false ↔ D.Equiv p q))
    (hcl : ∀ y z, y ∈ xs → z ∈ xs → y ∈ placed → D.Equiv y z → z ∈ placed) :
    (∀ B, B ∈ classesFrom m placed xs → B ≠ [] ∧ ∀ q, q ∈ B → q ∈ xs ∧ q ∉ placed) ∧
    (∀ q, q ∈ xs → q ∉ placed → ∃ B, B ∈ classesFrom m placed xs ∧ q ∈ B) ∧
    (∀ B, B ∈ classesFrom m placed xs → ∀ p q, p ∈ B → q ∈ B → D.Equiv p q) ∧
    (∀ B C, B ∈ classesFrom m placed xs → C ∈ classesFrom m placed xs →
      ∀ p q, p ∈ B → q ∈ C → D.Equiv p q → B = C) := by
  induction xs generalizing placed with
  | nil =>
    simp [classesFrom]
  | cons x xs ih =>
    have hE' : ∀ p q, p ∈ xs → q ∈ xs → (marked m p q = false ↔ D.Equiv p q) :=
      fun p q hp hq => hE p q (List.mem_cons_of_mem _ hp) (List.mem_cons_of_mem _ hq)
    by_cases hx : x ∈ placed
    · have hcl' : ∀ y z, y ∈ xs → z ∈ xs → y ∈ placed → D.Equiv y z → z ∈ placed :=
        fun y z hy hz => hcl y z (List.mem_cons_of_mem _ hy) (List.mem_cons_of_mem _ hz)
      obtain ⟨ha, hb, hc, hd⟩ := ih placed hE' hcl'
      have hR : classesFrom m placed (x :: xs) = classesFrom m placed xs := by
        simp only [classesFrom, if_pos hx]
      rw [hR]
      refine ⟨?_, ?_, hc, hd⟩
      · intro B hB
        refine ⟨(ha B hB).1, fun q hq => ?_⟩
        exact ⟨List.mem_cons_of_mem _ ((ha B hB).2 q hq).1, ((ha B hB).2 q hq).2⟩
      · intro q hq hqp
        rcases List.mem_cons.mp hq with rfl | hq
        · exact absurd hx hqp
        · exact hb q hq hqp
    · -- `x` opens a new class
      have hxm : x ∈ x :: xs := List.mem_cons_self
      have hcls : ∀ y, y ∈ x :: xs.filter (fun y => !marked m x y) ↔
          y = x ∨ (y ∈ xs ∧ marked m x y = false) := by
        intro y
        simp only [List.mem_cons, List.mem_filter, Bool.not_eq_true']
      -- members of the new class are equivalent to `x`
      have hclsE : ∀ y, y ∈ x :: xs.filter (fun y => !marked m x y) → D.Equiv x y := by
        intro y hy
        rcases (hcls y).mp hy with rfl | ⟨hy1, hy2⟩
        · exact DFA.Equiv.refl D _
        · exact (hE x y hxm (List.mem_cons_of_mem _ hy1)).mp hy2
      -- later states equivalent to `x` are in the new class
      have hclsI : ∀ y, y ∈ xs → D.Equiv x y → y ∈ x :: xs.filter (fun y => !marked m x y) := by
        intro y hy he
        exact (hcls y).mpr (Or.inr ⟨hy, (hE x y hxm (List.mem_cons_of_mem _ hy)).mpr he⟩)
      have hcl' : ∀ y z, y ∈ xs → z ∈ xs →
          y ∈ placed ++ (x :: xs.filter (fun y => !marked m x y)) → D.Equiv y z →
          z ∈ placed ++ (x :: xs.filter (fun y => !marked m x y)) := by
        intro y z hy hz hyp he
        rcases List.mem_append.mp hyp with hyp | hyp
        · exact List.mem_append_left _
            (hcl y z (List.mem_cons_of_mem _ hy) (List.mem_cons_of_mem _ hz) hyp he)
        · exact List.mem_append_right _ (hclsI z hz ((hclsE y hyp).trans he))
      obtain ⟨ha, hb, hc, hd⟩ := ih _ hE' hcl'
      have hR : classesFrom m placed (x :: xs) =
          (x :: xs.filter (fun y => !marked m x y)) ::
            classesFrom m (placed ++ (x :: xs.filter (fun y => !marked m x y))) xs := by
        simp only [classesFrom, if_neg hx]
      rw [hR]
      generalize hcdef : x :: xs.filter (fun y => !marked m x y) = cls at *
      -- a member of a later class is not in `cls`
      have hlater : ∀ C, C ∈ classesFrom m (placed ++ cls) xs → ∀ q, q ∈ C → q ∈ xs ∧ q ∉ placed ∧ q ∉ cls := by
        intro C hC q hq
        obtain ⟨h1, h2⟩ := (ha C hC).2 q hq
        exact ⟨h1, fun h => h2 (List.mem_append_left _ h), fun h => h2 (List.mem_append_right _ h)⟩
      have hcross : ∀ C, C ∈ classesFrom m (placed ++ cls) xs → ∀ p q, p ∈ cls → q ∈ C → ¬ D.Equiv p q := by
        intro C hC p q hp hq he
        obtain ⟨h1, _, h3⟩ := hlater C hC q hq
        exact h3 (hclsI q h1 ((hclsE p hp).trans he))
      refine ⟨?_, ?_, ?_, ?_⟩
      · intro B hB
        rcases List.mem_cons.mp hB with rfl | hB
        · refine ⟨by rw [← hcdef]; simp, fun q hq => ?_⟩
          rcases (hcls q).mp hq with rfl | ⟨hq1, hq2⟩
          · exact ⟨hxm, hx⟩
          · refine ⟨List.mem_cons_of_mem _ hq1, fun hqp => hx ?_⟩
            exact hcl q x (List.mem_cons_of_mem _ hq1) hxm hqp (hclsE q hq).symm
        · refine ⟨(ha B hB).1, fun q hq => ?_⟩
          obtain ⟨h1, h2, _⟩ := hlater B hB q hq
          exact ⟨List.mem_cons_of_mem _ h1, h2⟩
      · intro q hq hqp
        by_cases hqc : q ∈ cls
        · exact ⟨cls, List.mem_cons_self, hqc⟩
        · have hqx : q ∈ xs := by
            rcases List.mem_cons.mp hq with rfl | hq
            · exact absurd ((hcls q).mpr (Or.inl rfl)) hqc
            · exact hq
          obtain ⟨B, hB, hqB⟩ := hb q hqx (fun h => by
            rcases List.mem_append.mp h with h | h
            · exact hqp h
            · exact hqc h)
          exact ⟨B, List.mem_cons_of_mem _ hB, hqB⟩
      · intro B hB p q hp hq
        rcases List.mem_cons.mp hB with rfl | hB
        · exact (hclsE p hp).symm.trans (hclsE q hq)
        · exact hc B hB p q hp hq
      · intro B C hB hC p q hp hq he
        rcases List.mem_cons.mp hB with rfl | hB
        · rcases List.mem_cons.mp hC with rfl | hC
          · rfl
          · exact absurd he (hcross C hC p q hp hq)
        · rcases List.mem_cons.mp hC with rfl | hC
          · exact absurd he.symm (hcross B hB q p hq hp)
          · exact hd B C hB hC p q hp hq he

/-- with `¬ marked` = Nerode equivalence on `Q`, the assembled classes are the Nerode partition -/
theorem DFA.classesFrom_nerode (D : DFA σ τ) (m : List (σ × σ))
    (hE : ∀ p q, p ∈ D.Q → q ∈ D.Q → (marked m p q = true ↔ ¬ D.Equiv p q)) :
    D.IsNerode (classesFrom m [] D.Q) := by
  have hE' : ∀ p q, p ∈ D.Q → q ∈ D.Q → (marked m p q = false ↔ D.Equiv p q) := by
    intro p q hp hq
    have := hE p q hp hq
    cases hm : marked m p q with
    | true => rw [hm] at this; simp only [true_iff] at this; simp [this]
    | false =>
      rw [hm] at this
      simp only [Bool.false_eq_true, false_iff] at this
      simp only [true_iff]
      exact Classical.byContradiction this
  obtain ⟨ha, hb, hc, hd⟩ := classesFrom_spec D m D.Q [] hE' (fun _ _ _ _ h => by cases h)
  refine ⟨⟨fun B hB => (ha B hB).1, fun B hB q hq => ((ha B hB).2 q hq).1,
    fun q hq => hb q hq (by simp), ?_⟩, ?_⟩
  · intro B C hB hC q hqB hqC
    exact hd B C hB hC q q hqB hqC (DFA.Equiv.refl D q)
  · intro B C hB hC p q hp hq
    constructor
    · rintro rfl; exact hc B hB p q hp hq
    · exact hd B C hB hC p q hp hq

theorem DFA.minimizeTable_spec' (D : DFA σ τ) (hv : D.valid = true) :
    ∃ M, D.minimizeTable = .ok M ∧ M.valid = true ∧ M.Sigma = D.Sigma ∧ D.IsNerode M.Q ∧
      (∀ w, (∀ a, a ∈ w → a ∈ D.Sigma) → (M.Accepts w ↔ D.Accepts w)) ∧
      (∀ B C, B ∈ M.Q → C ∈ M.Q → B ≠ C → M.Dist B C) := by
  obtain ⟨m, hm, _, hE⟩ := D.table_exact' hv
  have hN := D.classesFrom_nerode m hE
  obtain ⟨h1, h2, h3, h4, h5⟩ := DFA.ofBlocks_nerode D hv _ hN
  refine ⟨D.ofBlocks (classesFrom m [] D.Q), ?_, h1, h2, by rw [h3]; exact hN, h4, ?_⟩
  · unfold DFA.minimizeTable
    rw [hm]
    show DFA.checked _ = _
    unfold DFA.checked
    rw [if_pos h1]
  · rw [h3]; exact h5

end Gamba
