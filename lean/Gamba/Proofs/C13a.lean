/-
  Gamba.Proofs.C13a — helper lemmas for "the checkers accept the library's own answers" (Model/Check.lean).
-/
import Gamba.Model.Check
import Gamba.Spec.Automata
import Gamba.Proofs.DFABasic
import Gamba.Proofs.MinBasic
import Gamba.Props.C14c
import Gamba.Props.C02reg
import Gamba.Props.C14a
import Gamba.Props.C14b
import Gamba.Props.C04b
import Gamba.Props.C04c
import Gamba.Proofs.C12a
import Gamba.Proofs.C08b
import Gamba.Props.C08d
import Gamba.Props.C02cfg
namespace Gamba
namespace C13a
open Check

/-! ### reflexivity of the structural tests -/

theorem seq_refl {α : Type} [DecidableEq α] (l : List α) : seq l l = true :=
  seq_iff.mpr fun _ => Iff.rfl

theorem compare_refl {τ : Type} [DecidableEq τ] (A : List (List τ)) :
    (compareLanguages A A).isNone = true :=
  (C12a.compare_isNone_iff A A).mpr fun _ => Iff.rfl

/-- with unique keys, a dict is `deltaEq` to itself -/
theorem deltaEq_refl (d : Dict (String × String) String) (hk : (d.map (·.1)).Nodup) :
    deltaEq d d = true := by
  unfold deltaEq
  have : d.all (fun e => d.lookup e.1 == some e.2) = true := by
    rw [List.all_eq_true]
    intro e he
    rw [beq_iff_eq]
    exact C14b.lookup_of_mem_nodup hk (k := e.1) (v := e.2) he
  rw [this]; rfl

/-! ### product names -/

theorem splitOn_no_sep (sep : Char) (l : List Char) (h : sep ∉ l) : Text.splitOn sep l = [l] := by
  induction l with
  | nil => rfl
  | cons c l ih =>
    have hc : c ≠ sep := fun e => h (e ▸ List.mem_cons_self)
    have hl : sep ∉ l := fun e => h (List.mem_cons_of_mem _ e)
    simp only [Text.splitOn, if_neg hc, ih hl]

theorem splitOn_append_sep (sep : Char) (l r : List Char) (h : sep ∉ l) :
    Text.splitOn sep (l ++ sep :: r) = l :: Text.splitOn sep r := by
  induction l with
  | nil => simp [Text.splitOn]
  | cons c l ih =>
    have hc : c ≠ sep := fun e => h (e ▸ List.mem_cons_self)
    have hl : sep ∉ l := fun e => h (List.mem_cons_of_mem _ e)
    simp only [List.cons_append, Text.splitOn, if_neg hc, ih hl]

theorem productName_toList (p q : String) :
    (productName (p, q)).toList = '(' :: (p.toList ++ ',' :: (q.toList ++ [')'])) := by
  simp [productName, String.toList_append]

theorem inner_productName (p q : String) :
    Text.inner (productName (p, q)).toList = p.toList ++ ',' :: q.toList := by
  rw [productName_toList]
  unfold Text.inner
  simp only [List.drop_succ_cons, List.drop_zero]
  rw [show p.toList ++ ',' :: (q.toList ++ [')']) = (p.toList ++ ',' :: q.toList) ++ [')'] by simp]
  exact List.dropLast_concat

theorem extractPair_productName (p q : String) (hp : ',' ∉ p.toList) (hq : ',' ∉ q.toList) :
    extractPair (productName (p, q)) = some (p, q) := by
  unfold extractPair
  rw [inner_productName, splitOn_append_sep _ _ _ hp, splitOn_no_sep _ _ hq]
  simp [Text.str, String.ofList_toList]

theorem productName_inj {p q p' q' : String} (hp : ',' ∉ p.toList) (hq : ',' ∉ q.toList)
    (hp' : ',' ∉ p'.toList) (hq' : ',' ∉ q'.toList)
    (h : productName (p, q) = productName (p', q')) : (p, q) = (p', q') := by
  have h1 := extractPair_productName p q hp hq
  rw [h, extractPair_productName p' q' hp' hq'] at h1
  exact (Option.some.inj h1).symm

/-! ### product exercises -/

section Product
variable (t : ProductType) (D1 D2 : DFA String String)

/-- `productName` is injective on the states of the product (no commas in the component names) -/
theorem productName_inj_on (hn1 : ∀ q, q ∈ D1.Q → ',' ∉ q.toList) (hn2 : ∀ q, q ∈ D2.Q → ',' ∉ q.toList) :
    ∀ p q, p ∈ (D1.product D2 t).Q → q ∈ (D1.product D2 t).Q → productName p = productName q → p = q := by
  rintro ⟨p1, p2⟩ ⟨q1, q2⟩ hp hq h
  rw [DFA.product_mem_Q] at hp hq
  exact productName_inj (hn1 _ hp.1) (hn2 _ hp.2) (hn1 _ hq.1) (hn2 _ hq.2) h

theorem productAnswer_valid (h1 : D1.valid = true) (h2 : D2.valid = true)
    (hS : ∀ a, a ∈ D1.Sigma ↔ a ∈ D2.Sigma)
    (hn1 : ∀ q, q ∈ D1.Q → ',' ∉ q.toList) (hn2 : ∀ q, q ∈ D2.Q → ',' ∉ q.toList) :
    ((D1.product D2 t).mapStates productName).valid = true :=
  mapStates_valid productName _ (product_valid D1 D2 t h1 h2 hS) (productName_inj_on t D1 D2 hn1 hn2)

/-- the structural part: the named product automaton passes the comparison with itself -/
theorem productFeedback_self (h1 : D1.valid = true) (h2 : D2.valid = true)
    (hS : ∀ a, a ∈ D1.Sigma ↔ a ∈ D2.Sigma)
    (hn1 : ∀ q, q ∈ D1.Q → ',' ∉ q.toList) (hn2 : ∀ q, q ∈ D2.Q → ',' ∉ q.toList) :
    productFeedbackEmpty ((D1.product D2 t).mapStates productName) D1 D2
      ((D1.product D2 t).mapStates productName) = some true := by
  have hPv := product_valid D1 D2 t h1 h2 hS
  have hinj := productName_inj_on t D1 D2 hn1 hn2
  have hQ : ∀ q, q ∈ ((D1.product D2 t).mapStates productName).Q →
      ∃ p r, q = productName (p, r) ∧ p ∈ D1.Q ∧ r ∈ D2.Q ∧ extractPair q = some (p, r) := by
    intro q hq
    simp only [DFA.mapStates, List.mem_map] at hq
    obtain ⟨⟨p, r⟩, hpr, rfl⟩ := hq
    rw [DFA.product_mem_Q] at hpr
    exact ⟨p, r, rfl, hpr.1, hpr.2, extractPair_productName p r (hn1 _ hpr.1) (hn2 _ hpr.2)⟩
  unfold productFeedbackEmpty
  have hany : (((D1.product D2 t).mapStates productName).Q.any fun q => (extractPair q).isNone) = false := by
    rw [List.any_eq_false]
    intro q hq
    obtain ⟨p, r, _, _, _, he⟩ := hQ q hq
    rw [he]; simp
  rw [if_neg (by rw [hany]; exact Bool.false_ne_true)]
  simp only [Option.some.injEq, Bool.and_eq_true, decide_eq_true_eq, List.all_eq_true, seq_refl, and_true]
  refine ⟨?_, ?_⟩
  · intro q hq
    obtain ⟨p, r, _, hp, hr, he⟩ := hQ q hq
    rw [he]
    simp [hp, hr]
  · intro e he
    simp only [DFA.mapStates, List.mem_map] at he
    obtain ⟨⟨⟨⟨p, r⟩, a⟩, tgt⟩, hs, rfl⟩ := he
    have hcl := DFA.valid_closed hPv hs
    have hpr := (DFA.product_mem_Q D1 D2 t p r).mp hcl.1
    have htgt : tgt = (D1.next p a, D2.next r a) := by
      have hs' := hs
      rw [DFA.product_delta_eq] at hs'
      simp only [List.mem_flatMap, List.mem_map, Prod.mk.injEq] at hs'
      obtain ⟨k, _, a', _, ⟨rfl, rfl⟩, rfl⟩ := hs'
      rfl
    have := DFA.mapStates_lookup (i := _) productName (D1.product D2 t) hPv hinj hcl.1 a
    simp only at this ⊢
    rw [this, DFA.product_lookup (i := _), if_pos ⟨hpr, hcl.2.1⟩, htgt]
    simp

/-- the language part -/
theorem productAnswer_words (len : Nat) (h1 : D1.valid = true) (h2 : D2.valid = true)
    (hS : ∀ a, a ∈ D1.Sigma ↔ a ∈ D2.Sigma)
    (hn1 : ∀ q, q ∈ D1.Q → ',' ∉ q.toList) (hn2 : ∀ q, q ∈ D2.Q → ',' ∉ q.toList) (w : List String) :
    w ∈ ((D1.product D2 t).mapStates productName).wordsUpTo len ↔ w ∈ (match t with
      | .union => langUnion (D1.wordsUpTo len) (D2.wordsUpTo len)
      | .intersection => langInter (D1.wordsUpTo len) (D2.wordsUpTo len)
      | .symmetricDifference => langSymDiff (D1.wordsUpTo len) (D2.wordsUpTo len)) := by
  have hPv := product_valid D1 D2 t h1 h2 hS
  have hinj := productName_inj_on t D1 D2 hn1 hn2
  have hAv := productAnswer_valid t D1 D2 h1 h2 hS hn1 hn2
  have hAS : ((D1.product D2 t).mapStates productName).Sigma = D1.Sigma := rfl
  have e0 : w ∈ ((D1.product D2 t).mapStates productName).wordsUpTo len ↔
      (w.length ≤ len ∧ (∀ a, a ∈ w → a ∈ D1.Sigma)) ∧ (D1.product D2 t).Accepts w := by
    rw [dfa_words_exact _ hAv len w, hAS]
    constructor
    · rintro ⟨hl, hw, ha⟩; exact ⟨⟨hl, hw⟩, (mapStates_lang productName _ hPv hinj w hw).mp ha⟩
    · rintro ⟨⟨hl, hw⟩, ha⟩; exact ⟨hl, hw, (mapStates_lang productName _ hPv hinj w hw).mpr ha⟩
  have e1 : w ∈ D1.wordsUpTo len ↔ (w.length ≤ len ∧ (∀ a, a ∈ w → a ∈ D1.Sigma)) ∧ D1.Accepts w := by
    rw [dfa_words_exact D1 h1 len w, and_assoc]
  have e2 : w ∈ D2.wordsUpTo len ↔ (w.length ≤ len ∧ (∀ a, a ∈ w → a ∈ D1.Sigma)) ∧ D2.Accepts w := by
    rw [dfa_words_exact D2 h2 len w, and_assoc]
    constructor
    · rintro ⟨hl, hw, ha⟩; exact ⟨hl, fun a h => (hS a).mpr (hw a h), ha⟩
    · rintro ⟨hl, hw, ha⟩; exact ⟨hl, fun a h => (hS a).mp (hw a h), ha⟩
  rw [e0]
  by_cases hb : w.length ≤ len ∧ (∀ a, a ∈ w → a ∈ D1.Sigma)
  · have hu := product_union_lang D1 D2 h1 h2 hS w hb.2
    have hi := product_intersection_lang D1 D2 h1 h2 hS w hb.2
    have hd := product_symdiff_lang D1 D2 h1 h2 hS w hb.2
    generalize (w.length ≤ len ∧ (∀ a, a ∈ w → a ∈ D1.Sigma)) = P at e1 e2 hb
    cases t with
    | union => simp only [langUnion_spec, e1, e2, hu, hb, true_and]
    | intersection => simp only [langInter_spec, e1, e2, hi, hb, true_and]
    | symmetricDifference => simp only [langSymDiff_spec, e1, e2, hd, hb, true_and]
  · generalize (w.length ≤ len ∧ (∀ a, a ∈ w → a ∈ D1.Sigma)) = P at e1 e2 hb
    cases t <;>
      simp only [langUnion_spec, langInter_spec, langSymDiff_spec, e1, e2, hb, false_and, or_self, and_self,
        not_false_eq_true, and_false]

theorem productCheck_self (len : Nat) (h1 : D1.valid = true) (h2 : D2.valid = true)
    (hS : ∀ a, a ∈ D1.Sigma ↔ a ∈ D2.Sigma)
    (hn1 : ∀ q, q ∈ D1.Q → ',' ∉ q.toList) (hn2 : ∀ q, q ∈ D2.Q → ',' ∉ q.toList) :
    productCheck t D1 D2 ((D1.product D2 t).mapStates productName) len = some true := by
  unfold productCheck
  have hs : seq D1.Sigma D2.Sigma = true := seq_iff.mpr hS
  simp only [hs, Bool.not_true, Bool.false_eq_true, if_false, productFeedback_self t D1 D2 h1 h2 hS hn1 hn2,
    Bool.true_and, Option.some.injEq]
  rw [C12a.compare_isNone_iff]
  intro w
  have := productAnswer_words t D1 D2 len h1 h2 hS hn1 hn2 w
  cases t <;> exact this

end Product

/-- `exD2` (even length) with the state `e` named `e,x`: a state name containing a comma -/
def exComma : DFA String String :=
  { Q := ["e,x", "o"], Sigma := ["b", "a"],
    delta := [(("e,x", "a"), "o"), (("e,x", "b"), "o"), (("o", "a"), "e,x"), (("o", "b"), "e,x")],
    q0 := "e,x", F := ["e,x"] }

/-! ### reverse exercise -/

theorem succ_iff_Succ {σ τ : Type} [DecidableEq σ] [DecidableEq τ] (N : NFA σ τ) (q : σ) (a : τ) (r : σ) :
    r ∈ N.succ q a ↔ N.Succ q a r := by
  unfold NFA.succ NFA.Succ
  exact C14b.mem_getD_iff.symm

theorem reverseCheck_self (D : DFA String String) (hv : D.valid = true) (hk : (D.delta.map (·.1)).Nodup)
    (fresh eps : String) (hf : fresh ∉ D.Q) (he : eps ∉ D.Sigma) (s : Sched) (len : Nat) :
    reverseCheck D (D.reverse fresh eps) s len = .ok true := by
  have hRv := reverse_valid D fresh eps hv hf he
  obtain ⟨L, hL, hm⟩ := nfa_words_exact (D.reverse fresh eps) hRv s len
  unfold reverseCheck
  rw [hL]
  simp only [bind, Except.bind, pure, Except.pure, Except.ok.injEq, Bool.and_eq_true, ssubset_iff,
    List.all_eq_true, decide_eq_true_eq, C12a.compare_isNone_iff]
  have hS : (D.reverse fresh eps).Sigma = D.Sigma := rfl
  have hQ : (D.reverse fresh eps).Q = sinsert D.Q fresh := rfl
  have h0 : (D.reverse fresh eps).q0 = fresh := rfl
  have hF : (D.reverse fresh eps).F = [D.q0] := rfl
  refine ⟨⟨⟨⟨⟨?_, ?_⟩, ?_⟩, ?_⟩, ?_⟩, ?_⟩
  · rw [hS]; exact seq_refl _
  · intro q hq
    rw [hQ, mem_sinsert]
    exact Or.inl hq
  · rintro ⟨⟨q, a⟩, r⟩ hmem
    rw [succ_iff_Succ, DFA.reverse_Succ_iff]
    have hr : r ∈ D.Q := (DFA.valid_closed hv hmem).2.2
    have hne : ¬ ((r, a) = (fresh, eps)) := by
      intro h
      simp only [Prod.mk.injEq] at h
      exact hf (h.1 ▸ hr)
    simp only
    rw [if_neg hne]
    exact hmem
  · rw [h0]; exact hf
  · rw [hF]; exact seq_refl _
  · intro w
    rw [hm w, langReverse_spec, dfa_words_exact D hv len w.reverse, hS, List.length_reverse]
    have hrev : (∀ a, a ∈ w.reverse → a ∈ D.Sigma) ↔ (∀ a, a ∈ w → a ∈ D.Sigma) := by
      simp only [List.mem_reverse]
    rw [hrev]
    constructor
    · rintro ⟨h1, h2, h3⟩
      exact ⟨h1, h2, (reverse_lang D fresh eps hv hf he hk w h2).mp h3⟩
    · rintro ⟨h1, h2, h3⟩
      exact ⟨h1, h2, (reverse_lang D fresh eps hv hf he hk w h2).mpr h3⟩

/-! ### counting distinct elements -/

section Count
variable {α β : Type} [DecidableEq α] [DecidableEq β]

omit [DecidableEq α] [DecidableEq β] in
theorem nodup_map_of_inj_on (f : α → β) : ∀ (l : List α), l.Nodup →
    (∀ x y, x ∈ l → y ∈ l → f x = f y → x = y) → (l.map f).Nodup
  | [], _, _ => by simp
  | x :: l, hn, hf => by
    obtain ⟨hx, hn'⟩ := List.nodup_cons.mp hn
    rw [List.map_cons, List.nodup_cons]
    refine ⟨?_, nodup_map_of_inj_on f l hn' (fun a b ha hb => hf a b (List.mem_cons_of_mem _ ha)
      (List.mem_cons_of_mem _ hb))⟩
    intro hm
    obtain ⟨y, hy, hxy⟩ := List.mem_map.mp hm
    have := hf y x (List.mem_cons_of_mem _ hy) List.mem_cons_self hxy
    exact hx (this ▸ hy)

/-- an injection from the elements of `l1` into those of `l2` -/
theorem dedup_length_le_of_inj (f : α → β) (l1 : List α) (l2 : List β)
    (hm : ∀ x, x ∈ l1 → f x ∈ l2) (hf : ∀ x y, x ∈ l1 → y ∈ l1 → f x = f y → x = y) :
    (dedup l1).length ≤ (dedup l2).length := by
  have h1 : ((dedup l1).map f).Nodup :=
    nodup_map_of_inj_on f _ (nodup_dedup l1) (fun x y hx hy => hf x y (mem_dedup.mp hx) (mem_dedup.mp hy))
  have h2 := nodup_subset_length_le ((dedup l1).map f) (dedup l2) h1 (by
    intro y hy
    obtain ⟨x, hx, rfl⟩ := List.mem_map.mp hy
    exact mem_dedup.mpr (hm x (mem_dedup.mp hx)))
  rwa [List.length_map] at h2

/-- renaming by a function injective on the list keeps the number of distinct elements -/
theorem dedup_map_length (f : α → β) (l : List α) (hf : ∀ x y, x ∈ l → y ∈ l → f x = f y → x = y) :
    (dedup (l.map f)).length = (dedup l).length := by
  apply Nat.le_antisymm
  · have := nodup_subset_length_le (dedup (l.map f)) ((dedup l).map f) (nodup_dedup _) (by
      intro y hy
      obtain ⟨x, hx, rfl⟩ := List.mem_map.mp (mem_dedup.mp hy)
      exact List.mem_map.mpr ⟨x, mem_dedup.mpr hx, rfl⟩)
    rwa [List.length_map] at this
  · exact dedup_length_le_of_inj f l (l.map f) (fun x hx => List.mem_map.mpr ⟨x, hx, rfl⟩) hf

end Count

/-! ### two Nerode partitions have the same number of blocks -/

section Nerode
variable {σ τ : Type} [DecidableEq σ] [DecidableEq τ]

/-- the block of `P2` that contains the head of `B` -/
def headBlock (P2 : List (List σ)) (B : List σ) : List σ :=
  match B with
  | [] => []
  | p :: _ => blockOf P2 p

theorem nerode_length_le (D : DFA σ τ) {P1 P2 : List (List σ)} (h1 : D.IsNerode P1) (h2 : D.IsNerode P2) :
    (dedup P1).length ≤ (dedup P2).length := by
  apply dedup_length_le_of_inj (headBlock P2) P1 P2
  · intro B hB
    cases hBl : B with
    | nil => exact absurd hBl (h1.1.nonempty B hB)
    | cons p B' =>
      have hp : p ∈ D.Q := h1.1.sub B hB p (hBl ▸ List.mem_cons_self)
      exact (h2.1.blockOf_mem hp).1
  · intro B C hB hC he
    cases hBl : B with
    | nil => exact absurd hBl (h1.1.nonempty B hB)
    | cons p B' =>
      cases hCl : C with
      | nil => exact absurd hCl (h1.1.nonempty C hC)
      | cons q C' =>
        have hpB : p ∈ B := hBl ▸ List.mem_cons_self
        have hqC : q ∈ C := hCl ▸ List.mem_cons_self
        have hp : p ∈ D.Q := h1.1.sub B hB p hpB
        have hq : q ∈ D.Q := h1.1.sub C hC q hqC
        rw [hBl, hCl] at he
        simp only [headBlock] at he
        obtain ⟨X, hX, hpX, hqX⟩ := (h2.1.blockOf_eq_iff hp hq).mp he
        have heq : D.Equiv p q := h2.equiv_of_mem hX hpX hqX
        rw [← hBl, ← hCl]
        exact (h1.2 B C hB hC p q hpB hqC).mpr heq

theorem nerode_length_eq (D : DFA σ τ) {P1 P2 : List (List σ)} (h1 : D.IsNerode P1) (h2 : D.IsNerode P2) :
    (dedup P1).length = (dedup P2).length :=
  Nat.le_antisymm (nerode_length_le D h1 h2) (nerode_length_le D h2 h1)

end Nerode

/-! ### minimal-DFA exercise -/

/-- any valid automaton on a Nerode partition of `D` with the alphabet and the language of `D`, named injectively,
    passes `check_dfa_minimal` -/
theorem minimalCheck_of_nerode (D : DFA String String) (hv : D.valid = true) (hQ : D.Q.Nodup) (len : Nat)
    (M : DFA (List String) String) (hMv : M.valid = true) (hMS : M.Sigma = D.Sigma) (hMN : D.IsNerode M.Q)
    (hML : ∀ w, (∀ a, a ∈ w → a ∈ D.Sigma) → (M.Accepts w ↔ D.Accepts w))
    (hinj : ∀ B C, B ∈ M.Q → C ∈ M.Q → printStateSet B = printStateSet C → B = C) :
    minimalCheck D (M.mapStates printStateSet) len = .ok true := by
  obtain ⟨M0, hM0, hM0v, hM0S, hM0N, hM0L, _⟩ := quotient_spec D hv hQ
  have hAv := mapStates_valid printStateSet M hMv hinj
  have hAS : (M.mapStates printStateSet).Sigma = D.Sigma := hMS
  have hAQ : (M.mapStates printStateSet).Q = M.Q.map printStateSet := rfl
  unfold minimalCheck
  rw [hM0]
  simp only [bind, Except.bind, pure, Except.pure, Except.ok.injEq, Bool.and_eq_true,
    decide_eq_true_eq, C12a.compare_isNone_iff]
  refine ⟨⟨?_, ?_⟩, ?_⟩
  · rw [hM0S, hAS]; exact seq_refl _
  · rw [hAQ, dedup_map_length printStateSet M.Q hinj]
    exact nerode_length_eq D hM0N hMN
  · intro w
    rw [dfa_words_exact _ hAv len w, dfa_words_exact M0 hM0v len w, hAS, hM0S]
    constructor
    · rintro ⟨h1, h2, h3⟩
      refine ⟨h1, h2, (hM0L w h2).mpr ((hML w h2).mp ?_)⟩
      exact (mapStates_lang printStateSet M hMv hinj w (hMS ▸ h2)).mp h3
    · rintro ⟨h1, h2, h3⟩
      refine ⟨h1, h2, ?_⟩
      exact (mapStates_lang printStateSet M hMv hinj w (hMS ▸ h2)).mpr ((hML w h2).mpr ((hM0L w h2).mp h3))

/-- `exC04b.quotient` -/
def exQuot : DFA (List String) String :=
  { Q := [["3"], ["0"], ["1", "2"]], Sigma := ["a", "b"],
    delta := [((["3"], "a"), ["3"]), ((["3"], "b"), ["3"]),
              ((["0"], "a"), ["1", "2"]), ((["0"], "b"), ["1", "2"]),
              ((["1", "2"], "a"), ["3"]), ((["1", "2"], "b"), ["0"])],
    q0 := ["0"], F := [["3"]] }

/-- `exC04b.hopcroft [2, 0, 1]` (same blocks, another order) -/
def exHop : DFA (List String) String :=
  { Q := [["3"], ["1", "2"], ["0"]], Sigma := ["a", "b"],
    delta := [((["3"], "a"), ["3"]), ((["3"], "b"), ["3"]),
              ((["1", "2"], "a"), ["3"]), ((["1", "2"], "b"), ["0"]),
              ((["0"], "a"), ["1", "2"]), ((["0"], "b"), ["1", "2"])],
    q0 := ["0"], F := [["3"]] }

def exQuotNamed : DFA String String :=
  { Q := ["{3}", "{0}", "{1,2}"], Sigma := ["a", "b"],
    delta := [(("{3}", "a"), "{3}"), (("{3}", "b"), "{3}"), (("{0}", "a"), "{1,2}"), (("{0}", "b"), "{1,2}"),
              (("{1,2}", "a"), "{3}"), (("{1,2}", "b"), "{0}")],
    q0 := "{0}", F := ["{3}"] }

def exHopNamed : DFA String String :=
  { Q := ["{3}", "{1,2}", "{0}"], Sigma := ["a", "b"],
    delta := [(("{3}", "a"), "{3}"), (("{3}", "b"), "{3}"), (("{1,2}", "a"), "{3}"), (("{1,2}", "b"), "{0}"),
              (("{0}", "a"), "{1,2}"), (("{0}", "b"), "{1,2}")],
    q0 := "{0}", F := ["{3}"] }

theorem name_0 : printStateSet ["0"] = "{0}" := by simp [printStateSet, sortStrings, dedup]
theorem name_3 : printStateSet ["3"] = "{3}" := by simp [printStateSet, sortStrings, dedup]
theorem name_12 : printStateSet ["1", "2"] = "{1,2}" := by
  simp [printStateSet, sortStrings, dedup, List.mergeSort]

theorem exQuot_named : exQuot.mapStates printStateSet = exQuotNamed := by
  simp [DFA.mapStates, exQuot, exQuotNamed, name_0, name_3, name_12]

theorem exHop_named : exHop.mapStates printStateSet = exHopNamed := by
  simp [DFA.mapStates, exHop, exHopNamed, name_0, name_3, name_12]

theorem ex_names_inj (l : List (List String)) (hl : ∀ B, B ∈ l → B ∈ [["3"], ["0"], ["1", "2"]]) :
    ∀ S T, S ∈ l → T ∈ l → printStateSet S = printStateSet T → S = T := by
  intro S T hS hT
  have hS' := hl S hS
  have hT' := hl T hT
  simp only [List.mem_cons, List.not_mem_nil, or_false] at hS' hT'
  rcases hS' with rfl | rfl | rfl <;> rcases hT' with rfl | rfl | rfl <;>
    simp only [name_0, name_3, name_12] <;> decide

/-! ### Chomsky exercise -/

section Chomsky
open CFG

/-- the structural (non-language) part of `cfg_check_chomsky` -/
def chomskyStruct (G1 : CFG) (phase : Nat) (start : String) : Bool :=
  (phase < 1 || decide (G1.S = start)) &&
  (phase < 2 || G1.R.all fun r => !(r.rhs.isEmpty && decide (r.lhs ≠ G1.S))) &&
  (phase < 3 || G1.R.all fun r => !CFG.isUnit r) &&
  (phase < 4 || G1.R.all fun r => r.rhs.length ≤ 2) &&
  (phase < 5 || G1.R.all fun r => CFG.altIsChomsky r.rhs)

theorem chomskyCheck_eq (G G1 : CFG) (phase : Nat) (start : String) (len : Nat) :
    chomskyCheck G G1 phase start len =
      ((compareLanguages (G1.wordsUpTo len) (G.wordsUpTo len)).isNone && chomskyStruct G1 phase start) := by
  unfold chomskyCheck chomskyStruct
  simp only [Bool.and_assoc]

theorem freshVariable_of_not_mem {V : List String} {hint : String} (h : hint ∉ V) :
    freshVariable V hint = hint := by
  unfold freshVariable
  simp only [h, if_false, not_false_eq_true, if_true, ite_self]

theorem okEps_of {H : CFG} (h : NoEpsExceptStart H) :
    (H.R.all fun r => !(r.rhs.isEmpty && decide (r.lhs ≠ H.S))) = true := by
  rw [List.all_eq_true]
  intro r hr
  cases hrhs : r.rhs with
  | nil => simp [h r hr hrhs]
  | cons x xs => simp

theorem okUnit_of {H : CFG} (h : NoUnit H) : (H.R.all fun r => !CFG.isUnit r) = true := by
  rw [List.all_eq_true]
  intro r hr
  rw [h r hr]; rfl

theorem okLen_of {H : CFG} (h : RhsLe2 H) : (H.R.all fun r => decide (r.rhs.length ≤ 2)) = true := by
  rw [List.all_eq_true]
  intro r hr
  exact decide_eq_true (h r hr)

theorem okCnf_of {H : CFG} (h : AllCnfShaped H) : (H.R.all fun r => CFG.altIsChomsky r.rhs) = true := by
  rw [List.all_eq_true]
  exact h

theorem noUnit_of_cnf {H : CFG} (h : AllCnfShaped H) : NoUnit H := by
  intro r hr
  have := h r hr
  unfold isUnit
  revert this
  rcases r.rhs with _ | ⟨x, _ | ⟨y, _ | ⟨z, l⟩⟩⟩ <;> (try cases x) <;> (try cases y) <;> simp [altIsChomsky]

theorem rhsLe2_of_cnf {H : CFG} (h : AllCnfShaped H) : RhsLe2 H := by
  intro r hr
  have := h r hr
  revert this
  rcases r.rhs with _ | ⟨x, _ | ⟨y, _ | ⟨z, l⟩⟩⟩ <;> (try cases x) <;> (try cases y) <;> simp [altIsChomsky]

/-- what the exercise needs about the stages of the conversion of `G` with start hint `start` -/
structure Stages (G : CFG) (start : String) : Prop where
  S1 : (G.addStart start).S = freshVariable G.V start
  S2 : (G.addStart start).removeEps.S = freshVariable G.V start
  S3 : (G.addStart start).removeEps.elimUnit.S = freshVariable G.V start
  S4 : (G.addStart start).removeEps.elimUnit.binarise.S = freshVariable G.V start
  S5 : (G.addStart start).removeEps.elimUnit.binarise.isolateTerminals.S = freshVariable G.V start
  v1 : (G.addStart start).valid = true
  v2 : (G.addStart start).removeEps.valid = true
  v3 : (G.addStart start).removeEps.elimUnit.valid = true
  v4 : (G.addStart start).removeEps.elimUnit.binarise.valid = true
  s1 : (G.addStart start).S ∈ (G.addStart start).V
  s2 : (G.addStart start).removeEps.S ∈ (G.addStart start).removeEps.V
  s3 : (G.addStart start).removeEps.elimUnit.S ∈ (G.addStart start).removeEps.elimUnit.V
  s4 : (G.addStart start).removeEps.elimUnit.binarise.S ∈ (G.addStart start).removeEps.elimUnit.binarise.V
  a1 : AliasOK (G.addStart start)
  a2 : AliasOK (G.addStart start).removeEps
  a3 : AliasOK (G.addStart start).removeEps.elimUnit
  a4 : AliasOK (G.addStart start).removeEps.elimUnit.binarise
  V123 : ∀ A, A ∈ (G.addStart start).removeEps.elimUnit.V ↔ A ∈ G.V ∨ A = freshVariable G.V start
  ne2 : NoEpsExceptStart (G.addStart start).removeEps
  ne3 : NoEpsExceptStart (G.addStart start).removeEps.elimUnit
  ne4 : NoEpsExceptStart (G.addStart start).removeEps.elimUnit.binarise
  nu3 : NoUnit (G.addStart start).removeEps.elimUnit
  nu4 : NoUnit (G.addStart start).removeEps.elimUnit.binarise
  le4 : RhsLe2 (G.addStart start).removeEps.elimUnit.binarise
  pipe : C08d.Pipe G start

theorem stages (G : CFG) (start : String) (hv : G.valid = true) (hS : G.S ∈ G.V) (ha : AliasOK G)
    (hd : ∀ a, a ∈ G.Sigma → a ∉ G.V ∧ a ≠ freshVariable G.V start) : Stages G start := by
  have hS1 : (G.addStart start).S = freshVariable G.V start := rfl
  obtain ⟨v1, _, s1, V1, sr1, a1, l1⟩ := addStart_spec G start hv hS
  have a1 := a1 ha
  obtain ⟨v2, S2, V2, ne2, a2, sr2, l2⟩ := removeEps_spec (G.addStart start) v1
  have sr2 := sr2 sr1
  have s2 : (G.addStart start).removeEps.S ∈ (G.addStart start).removeEps.V := by
    rw [S2, V2]; exact s1
  have d2 : Disjoint (G.addStart start).removeEps := by
    intro x hx hxs
    rw [V2] at hx
    have hxs' : x ∈ G.Sigma := hxs
    rcases (V1 x).mp hx with h | h
    · exact (hd x hxs').1 h
    · exact (hd x hxs').2 h
  obtain ⟨v3, S3, V3, nu3, ne3, sr3, a3, l3⟩ := elimUnit_spec (G.addStart start).removeEps v2 d2
  have ne3 := ne3 ne2 sr2
  have a3 := a3 a2
  have s3 : (G.addStart start).removeEps.elimUnit.S ∈ (G.addStart start).removeEps.elimUnit.V := by
    rw [S3, V3]; exact s2
  obtain ⟨v4, S4, V4, le4, a4, nu4, ne4, sr4, l4⟩ :=
    binarise_spec C08d.hfresh (G.addStart start).removeEps.elimUnit v3 a3
  have s4 : (G.addStart start).removeEps.elimUnit.binarise.S ∈
      (G.addStart start).removeEps.elimUnit.binarise.V := by
    rw [S4]; exact V4 _ s3
  obtain ⟨v5, S5, _⟩ :=
    isolateTerminals_spec C08d.hfresh (G.addStart start).removeEps.elimUnit.binarise v4 a4
  have e2 : (G.addStart start).removeEps.S = freshVariable G.V start := S2.trans hS1
  have e3 : (G.addStart start).removeEps.elimUnit.S = freshVariable G.V start := S3.trans e2
  have e4 : (G.addStart start).removeEps.elimUnit.binarise.S = freshVariable G.V start := S4.trans e3
  exact ⟨hS1, e2, e3, e4, S5.trans e4, v1, v2, v3, v4, s1, s2, s3, s4, a1, a2, a3, a4,
    (by intro A; rw [V3, V2]; exact V1 A), ne2, ne3, ne4 ne3, nu3, nu4 nu3, le4,
    C08d.pipe G start hv hS ha hd⟩

/-- the structural part holds for the answer key of every phase -/
theorem chomskyStruct_self (G : CFG) (phase : Nat) (start : String)
    (hv : G.valid = true) (hS : G.S ∈ G.V) (ha : AliasOK G)
    (hd : ∀ a, a ∈ G.Sigma → a ∉ G.V ∧ a ≠ freshVariable G.V start) (hstart : start ∉ G.V) :
    chomskyStruct (G.applyChomsky phase start) phase start = true := by
  have st := stages G start hv hS ha hd
  have hf := freshVariable_of_not_mem hstart
  unfold chomskyStruct
  rcases phase with _ | _ | _ | _ | _ | n
  · simp
  · rw [C08d.applyChomsky_1]
    simp [st.S1, hf]
  · rw [C08d.applyChomsky_2]
    simp only [okEps_of st.ne2]
    simp [st.S2, hf]
  · rw [C08d.applyChomsky_3]
    simp only [okEps_of st.ne3, okUnit_of st.nu3]
    simp [st.S3, hf]
  · rw [C08d.applyChomsky_4]
    simp only [okEps_of st.ne4, okUnit_of st.nu4, okLen_of st.le4]
    simp [st.S4, hf]
  · rw [C08d.applyChomsky_ge5 G (n + 5) start (by omega)]
    obtain ⟨c5, _, ne5⟩ := C08d.of_isChomsky st.pipe.chomsky5
    simp only [okEps_of ne5, okUnit_of (noUnit_of_cnf c5), okLen_of (rhsLe2_of_cnf c5), okCnf_of c5]
    simp [st.S5, hf]

/-- the language part: the enumerations of the answer key and of the input grammar agree.
    `hd0`: the start variable that `cfg_words_up_to_n` introduces when it normalises `G` is not a terminal;
    `hd1` (phases 1–4, where the answer key is not yet in CNF and is normalised again by the enumerator): the
    terminals are neither variables of the answer key nor the start variable introduced by that normalisation -/
theorem chomskyLang_self (G : CFG) (phase : Nat) (start : String) (len : Nat)
    (hv : G.valid = true) (hS : G.S ∈ G.V) (ha : AliasOK G)
    (hd : ∀ a, a ∈ G.Sigma → a ∉ G.V ∧ a ≠ freshVariable G.V start)
    (hd0 : ∀ a, a ∈ G.Sigma → a ≠ freshVariable G.V "S")
    (hd1 : phase ≤ 4 → ∀ a, a ∈ G.Sigma →
      a ∉ (G.applyChomsky phase start).V ∧ a ≠ freshVariable (G.applyChomsky phase start).V "S") :
    (compareLanguages ((G.applyChomsky phase start).wordsUpTo len) (G.wordsUpTo len)).isNone = true := by
  have st := stages G start hv hS ha hd
  have hG : ∀ w, w ∈ G.wordsUpTo len ↔ w.length ≤ len ∧ G.Lang w :=
    cfg_words_exact G hv hS ha (fun a h => ⟨(hd a h).1, hd0 a h⟩) len
  have hL := applyChomsky_lang G phase start hv hS ha hd
  rw [C12a.compare_isNone_iff]
  intro w
  rw [hG w, ← hL w]
  rcases phase with _ | _ | _ | _ | _ | n
  · rw [C08d.applyChomsky_0] at hd1 ⊢
    exact cfg_words_exact G hv hS ha (hd1 (by omega)) len w
  · rw [C08d.applyChomsky_1] at hd1 ⊢
    exact cfg_words_exact _ st.v1 st.s1 st.a1 (hd1 (by omega)) len w
  · rw [C08d.applyChomsky_2] at hd1 ⊢
    exact cfg_words_exact _ st.v2 st.s2 st.a2 (hd1 (by omega)) len w
  · rw [C08d.applyChomsky_3] at hd1 ⊢
    exact cfg_words_exact _ st.v3 st.s3 st.a3 (hd1 (by omega)) len w
  · rw [C08d.applyChomsky_4] at hd1 ⊢
    have hSig : (G.addStart start).removeEps.elimUnit.binarise.Sigma = G.Sigma := by
      rw [C08d.binarise_Sigma]; rfl
    exact cfg_words_exact _ st.v4 st.s4 st.a4 (by rw [hSig]; exact hd1 (by omega)) len w
  · rw [C08d.applyChomsky_ge5 G (n + 5) start (by omega)]
    exact cfg_words_exact_cnf _ st.pipe.chomsky5 len w

theorem chomskyCheck_self (G : CFG) (phase : Nat) (start : String) (len : Nat)
    (hv : G.valid = true) (hS : G.S ∈ G.V) (ha : AliasOK G)
    (hd : ∀ a, a ∈ G.Sigma → a ∉ G.V ∧ a ≠ freshVariable G.V start) (hstart : start ∉ G.V)
    (hd0 : ∀ a, a ∈ G.Sigma → a ≠ freshVariable G.V "S")
    (hd1 : phase ≤ 4 → ∀ a, a ∈ G.Sigma →
      a ∉ (G.applyChomsky phase start).V ∧ a ≠ freshVariable (G.applyChomsky phase start).V "S") :
    chomskyCheck G (G.applyChomsky phase start) phase start len = true := by
  rw [chomskyCheck_eq, chomskyLang_self G phase start len hv hS ha hd hd0 hd1,
    chomskyStruct_self G phase start hv hS ha hd hstart]
  rfl

/-- phases 0–3 add no variable but the new start variable: `hd1` follows from a condition on the input -/
theorem hd1_of_le3 (G : CFG) (phase : Nat) (start : String) (h3 : phase ≤ 3)
    (hd : ∀ a, a ∈ G.Sigma → a ∉ G.V ∧ a ≠ freshVariable G.V start)
    (hd0 : ∀ a, a ∈ G.Sigma → a ≠ freshVariable G.V "S")
    (hd0' : ∀ a, a ∈ G.Sigma → a ≠ freshVariable (G.V ++ [freshVariable G.V start]) "S") :
    ∀ a, a ∈ G.Sigma →
      a ∉ (G.applyChomsky phase start).V ∧ a ≠ freshVariable (G.applyChomsky phase start).V "S" := by
  intro a haS
  have hV : ∀ H : CFG, H.V = G.V ++ [freshVariable G.V start] →
      a ∉ H.V ∧ a ≠ freshVariable H.V "S" := by
    intro H hH
    rw [hH]
    refine ⟨?_, hd0' a haS⟩
    rw [List.mem_append, List.mem_singleton]
    rintro (h | h)
    · exact (hd a haS).1 h
    · exact (hd a haS).2 h
  rcases phase with _ | _ | _ | _ | n
  · rw [C08d.applyChomsky_0]; exact ⟨(hd a haS).1, hd0 a haS⟩
  · rw [C08d.applyChomsky_1]; exact hV _ rfl
  · rw [C08d.applyChomsky_2]; exact hV _ rfl
  · rw [C08d.applyChomsky_3]; exact hV _ rfl
  · omega

end Chomsky

/-! ### example grammars for the Chomsky exercise -/

/-- `S → aSb | ε` -/
def exS : CFG :=
  { V := ["S"], Sigma := ["a", "b"], S := "S",
    R := [⟨"S", 0, [.t "a", .v "S", .t "b"]⟩, ⟨"S", 1, []⟩] }

theorem exS_valid : exS.valid = true := by decide
theorem exS_S : exS.S ∈ exS.V := by decide
theorem exS_alias : CFG.AliasOK exS := CFG.C08c.aliasOK_of_b (by decide)
theorem exS_hd : ∀ a, a ∈ exS.Sigma → a ∉ exS.V ∧ a ≠ CFG.freshVariable exS.V "T" := by decide
theorem exS_hd0 : ∀ a, a ∈ exS.Sigma → a ≠ CFG.freshVariable exS.V "S" := by decide
theorem exS_hd1 (phase : Nat) : phase ≤ 4 → ∀ a, a ∈ exS.Sigma →
    a ∉ (exS.applyChomsky phase "T").V ∧ a ≠ CFG.freshVariable (exS.applyChomsky phase "T").V "S" := by
  intro h
  rcases phase with _ | _ | _ | _ | _ | n
  · decide
  · decide
  · decide
  · decide
  · decide
  · omega

/-- counterexample to the statement without `hd1`: the upper-case terminal `A` collides with the variable `A` that
    phase 4 introduces for the tail of `X → bbb`; when the enumerator normalises the answer key, the unit-rule phase
    takes the terminal `A` of `T → A` for that variable and adds `T → bb` -/
def cexG : CFG :=
  { V := ["X"], Sigma := ["A", "b"], S := "X",
    R := [⟨"X", 0, [.t "A"]⟩, ⟨"X", 1, [.t "b", .t "b", .t "b"]⟩] }

theorem cexG_valid : cexG.valid = true := by decide
theorem cexG_S : cexG.S ∈ cexG.V := by decide
theorem cexG_alias : CFG.AliasOK cexG := CFG.C08c.aliasOK_of_b (by decide)
theorem cexG_hd : ∀ a, a ∈ cexG.Sigma → a ∉ cexG.V ∧ a ≠ CFG.freshVariable cexG.V "T" := by decide
theorem cexG_hd0 : ∀ a, a ∈ cexG.Sigma → a ≠ CFG.freshVariable cexG.V "S" := by decide
theorem cexG_key : (cexG.applyChomsky 4 "T").V = ["X", "T", "A"] ∧ (cexG.applyChomsky 4 "T").R =
    [⟨"T", 4, [.t "A"]⟩, ⟨"X", 5, [.t "b", .v "A"]⟩, ⟨"X", 4, [.t "A"]⟩, ⟨"T", 5, [.t "b", .v "A"]⟩,
     ⟨"A", 6, [.t "b", .t "b"]⟩] := by decide
theorem cexG_rejected : chomskyCheck cexG (cexG.applyChomsky 4 "T") 4 "T" 3 = false := by decide +kernel

end C13a
end Gamba
