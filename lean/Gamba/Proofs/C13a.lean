/-
  Gamba.Proofs.C13a — helper lemmas for "the checkers accept the library's own answers" (Model/Check.lean).
-/
import Gamba.Model.Check
import Gamba.Spec.Automata
import Gamba.Proofs.DFABasic
import Gamba.Proofs.MinBasic
import Gamba.Props.C14c
import Gamba.Props.C02reg
import Gamba.Props.C14a
import Gamba.Props.C14b
import Gamba.Props.C04b
import Gamba.Props.C04c
import Gamba.Proofs.C12a
namespace Gamba
namespace C13a
open Check

/-! ### reflexivity of the structural tests -/

theorem seq_refl {α : Type} [DecidableEq α] (l : List α) : seq l l = true :=
  seq_iff.mpr fun _ => Iff.rfl

theorem compare_refl {τ : Type} [DecidableEq τ] (A : List (List τ)) :
    (compareLanguages A A).isNone = true :=
  (C12a.compare_isNone_iff A A).mpr fun _ => Iff.rfl

/-- with unique keys, a dict is `deltaEq` to itself -/
theorem deltaEq_refl (d : Dict (String × String) String) (hk : (d.map (·.1)).Nodup) :
    deltaEq d d = true := by
  unfold deltaEq
  have : d.all (fun e => d.lookup e.1 == some e.2) = true := by
    rw [List.all_eq_true]
    intro e he
    rw [beq_iff_eq]
    exact C14b.lookup_of_mem_nodup hk (k := e.1) (v := e.2) he
  rw [this]; rfl

/-! ### product names -/

theorem splitOn_no_sep (sep : Char) (l : List Char) (h : sep ∉ l) : Text.splitOn sep l = [l] := by
  induction l with
  | nil => rfl
  | cons c l ih =>
    have hc : c ≠ sep := fun e => h (e ▸ List.mem_cons_self)
    have hl : sep ∉ l := fun e => h (List.mem_cons_of_mem _ e)
    simp only [Text.splitOn, if_neg hc, ih hl]

theorem splitOn_append_sep (sep : Char) (l r : List Char) (h : sep ∉ l) :
    Text.splitOn sep (l ++ sep :: r) = l :: Text.splitOn sep r := by
  induction l with
  | nil => simp [Text.splitOn]
  | cons c l ih =>
    have hc : c ≠ sep := fun e => h (e ▸ List.mem_cons_self)
    have hl : sep ∉ l := fun e => h (List.mem_cons_of_mem _ e)
    simp only [List.cons_append, Text.splitOn, if_neg hc, ih hl]

theorem productName_toList (p q : String) :
    (productName (p, q)).toList = '(' :: (p.toList ++ ',' :: (q.toList ++ [')'])) := by
  simp [productName, String.toList_append]

theorem inner_productName (p q : String) :
    Text.inner (productName (p, q)).toList = p.toList ++ ',' :: q.toList := by
  rw [productName_toList]
  unfold Text.inner
  simp only [List.drop_succ_cons, List.drop_zero]
  rw [show p.toList ++ ',' :: (q.toList ++ [')']) = (p.toList ++ ',' :: q.toList) ++ [')'] by simp]
  exact List.dropLast_concat

theorem extractPair_productName (p q : String) (hp : ',' ∉ p.toList) (hq : ',' ∉ q.toList) :
    extractPair (productName (p, q)) = some (p, q) := by
  unfold extractPair
  rw [inner_productName, splitOn_append_sep _ _ _ hp, splitOn_no_sep _ _ hq]
  simp [Text.str, String.ofList_toList]

theorem productName_inj {p q p' q' : String} (hp : ',' ∉ p.toList) (hq : ',' ∉ q.toList)
    (hp' : ',' ∉ p'.toList) (hq' : ',' ∉ q'.toList)
    (h : productName (p, q) = productName (p', q')) : (p, q) = (p', q') := by
  have h1 := extractPair_productName p q hp hq
  rw [h, extractPair_productName p' q' hp' hq'] at h1
  exact (Option.some.inj h1).symm

/-! ### product exercises -/

section Product
variable (t : ProductType) (D1 D2 : DFA String String)

/-- `productName` is injective on the states of the product (no commas in the component names) -/
theorem productName_inj_on (hn1 : ∀ q, q ∈ D1.Q → ',' ∉ q.toList) (hn2 : ∀ q, q ∈ D2.Q → ',' ∉ q.toList) :
    ∀ p q, p ∈ (D1.product D2 t).Q → q ∈ (D1.product D2 t).Q → productName p = productName q → p = q := by
  rintro ⟨p1, p2⟩ ⟨q1, q2⟩ hp hq h
  rw [DFA.product_mem_Q] at hp hq
  exact productName_inj (hn1 _ hp.1) (hn2 _ hp.2) (hn1 _ hq.1) (hn2 _ hq.2) h

theorem productAnswer_valid (h1 : D1.valid = true) (h2 : D2.valid = true)
    (hS : ∀ a, a ∈ D1.Sigma ↔ a ∈ D2.Sigma)
    (hn1 : ∀ q, q ∈ D1.Q → ',' ∉ q.toList) (hn2 : ∀ q, q ∈ D2.Q → ',' ∉ q.toList) :
    ((D1.product D2 t).mapStates productName).valid = true :=
  mapStates_valid productName _ (product_valid D1 D2 t h1 h2 hS) (productName_inj_on t D1 D2 hn1 hn2)

/-- the structural part: the named product automaton passes the comparison with itself -/
theorem productFeedback_self (h1 : D1.valid = true) (h2 : D2.valid = true)
    (hS : ∀ a, a ∈ D1.Sigma ↔ a ∈ D2.Sigma)
    (hn1 : ∀ q, q ∈ D1.Q → ',' ∉ q.toList) (hn2 : ∀ q, q ∈ D2.Q → ',' ∉ q.toList) :
    productFeedbackEmpty ((D1.product D2 t).mapStates productName) D1 D2
      ((D1.product D2 t).mapStates productName) = some true := by
  have hPv := product_valid D1 D2 t h1 h2 hS
  have hinj := productName_inj_on t D1 D2 hn1 hn2
  have hQ : ∀ q, q ∈ ((D1.product D2 t).mapStates productName).Q →
      ∃ p r, q = productName (p, r) ∧ p ∈ D1.Q ∧ r ∈ D2.Q ∧ extractPair q = some (p, r) := by
    intro q hq
    simp only [DFA.mapStates, List.mem_map] at hq
    obtain ⟨⟨p, r⟩, hpr, rfl⟩ := hq
    rw [DFA.product_mem_Q] at hpr
    exact ⟨p, r, rfl, hpr.1, hpr.2, extractPair_productName p r (hn1 _ hpr.1) (hn2 _ hpr.2)⟩
  unfold productFeedbackEmpty
  have hany : (((D1.product D2 t).mapStates productName).Q.any fun q => (extractPair q).isNone) = false := by
    rw [List.any_eq_false]
    intro q hq
    obtain ⟨p, r, _, _, _, he⟩ := hQ q hq
    rw [he]; simp
  rw [if_neg (by rw [hany]; exact Bool.false_ne_true)]
  simp only [Option.some.injEq, Bool.and_eq_true, decide_eq_true_eq, List.all_eq_true, seq_refl, and_true]
  refine ⟨?_, ?_⟩
  · intro q hq
    obtain ⟨p, r, _, hp, hr, he⟩ := hQ q hq
    rw [he]
    simp [hp, hr]
  · intro e he
    simp only [DFA.mapStates, List.mem_map] at he
    obtain ⟨⟨⟨⟨p, r⟩, a⟩, tgt⟩, hs, rfl⟩ := he
    have hcl := DFA.valid_closed hPv hs
    have hpr := (DFA.product_mem_Q D1 D2 t p r).mp hcl.1
    have htgt : tgt = (D1.next p a, D2.next r a) := by
      have hs' := hs
      rw [DFA.product_delta_eq] at hs'
      simp only [List.mem_flatMap, List.mem_map, Prod.mk.injEq] at hs'
      obtain ⟨k, _, a', _, ⟨rfl, rfl⟩, rfl⟩ := hs'
      rfl
    have := DFA.mapStates_lookup (i := _) productName (D1.product D2 t) hPv hinj hcl.1 a
    simp only at this ⊢
    rw [this, DFA.product_lookup (i := _), if_pos ⟨hpr, hcl.2.1⟩, htgt]
    simp

/-- the language part -/
theorem productAnswer_words (len : Nat) (h1 : D1.valid = true) (h2 : D2.valid = true)
    (hS : ∀ a, a ∈ D1.Sigma ↔ a ∈ D2.Sigma)
    (hn1 : ∀ q, q ∈ D1.Q → ',' ∉ q.toList) (hn2 : ∀ q, q ∈ D2.Q → ',' ∉ q.toList) (w : List String) :
    w ∈ ((D1.product D2 t).mapStates productName).wordsUpTo len ↔ w ∈ (match t with
      | .union => langUnion (D1.wordsUpTo len) (D2.wordsUpTo len)
      | .intersection => langInter (D1.wordsUpTo len) (D2.wordsUpTo len)
      | .symmetricDifference => langSymDiff (D1.wordsUpTo len) (D2.wordsUpTo len)) := by
  have hPv := product_valid D1 D2 t h1 h2 hS
  have hinj := productName_inj_on t D1 D2 hn1 hn2
  have hAv := productAnswer_valid t D1 D2 h1 h2 hS hn1 hn2
  have hAS : ((D1.product D2 t).mapStates productName).Sigma = D1.Sigma := rfl
  have e0 : w ∈ ((D1.product D2 t).mapStates productName).wordsUpTo len ↔
      (w.length ≤ len ∧ (∀ a, a ∈ w → a ∈ D1.Sigma)) ∧ (D1.product D2 t).Accepts w := by
    rw [dfa_words_exact _ hAv len w, hAS]
    constructor
    · rintro ⟨hl, hw, ha⟩; exact ⟨⟨hl, hw⟩, (mapStates_lang productName _ hPv hinj w hw).mp ha⟩
    · rintro ⟨⟨hl, hw⟩, ha⟩; exact ⟨hl, hw, (mapStates_lang productName _ hPv hinj w hw).mpr ha⟩
  have e1 : w ∈ D1.wordsUpTo len ↔ (w.length ≤ len ∧ (∀ a, a ∈ w → a ∈ D1.Sigma)) ∧ D1.Accepts w := by
    rw [dfa_words_exact D1 h1 len w, and_assoc]
  have e2 : w ∈ D2.wordsUpTo len ↔ (w.length ≤ len ∧ (∀ a, a ∈ w → a ∈ D1.Sigma)) ∧ D2.Accepts w := by
    rw [dfa_words_exact D2 h2 len w, and_assoc]
    constructor
    · rintro ⟨hl, hw, ha⟩; exact ⟨hl, fun a h => (hS a).mpr (hw a h), ha⟩
    · rintro ⟨hl, hw, ha⟩; exact ⟨hl, fun a h => (hS a).mp (hw a h), ha⟩
  rw [e0]
  by_cases hb : w.length ≤ len ∧ (∀ a, a ∈ w → a ∈ D1.Sigma)
  · have hu := product_union_lang D1 D2 h1 h2 hS w hb.2
    have hi := product_intersection_lang D1 D2 h1 h2 hS w hb.2
    have hd := product_symdiff_lang D1 D2 h1 h2 hS w hb.2
    generalize (w.length ≤ len ∧ (∀ a, a ∈ w → a ∈ D1.Sigma)) = P at e1 e2 hb
    cases t with
    | union => simp only [langUnion_spec, e1, e2, hu, hb, true_and]
    | intersection => simp only [langInter_spec, e1, e2, hi, hb, true_and]
    | symmetricDifference => simp only [langSymDiff_spec, e1, e2, hd, hb, true_and]
  · generalize (w.length ≤ len ∧ (∀ a, a ∈ w → a ∈ D1.Sigma)) = P at e1 e2 hb
    cases t <;>
      simp only [langUnion_spec, langInter_spec, langSymDiff_spec, e1, e2, hb, false_and, or_self, and_self,
        not_false_eq_true, and_false]

theorem productCheck_self (len : Nat) (h1 : D1.valid = true) (h2 : D2.valid = true)
    (hS : ∀ a, a ∈ D1.Sigma ↔ a ∈ D2.Sigma)
    (hn1 : ∀ q, q ∈ D1.Q → ',' ∉ q.toList) (hn2 : ∀ q, q ∈ D2.Q → ',' ∉ q.toList) :
    productCheck t D1 D2 ((D1.product D2 t).mapStates productName) len = some true := by
  unfold productCheck
  have hs : seq D1.Sigma D2.Sigma = true := seq_iff.mpr hS
  simp only [hs, Bool.not_true, Bool.false_eq_true, if_false, productFeedback_self t D1 D2 h1 h2 hS hn1 hn2,
    Bool.true_and, Option.some.injEq]
  rw [C12a.compare_isNone_iff]
  intro w
  have := productAnswer_words t D1 D2 len h1 h2 hS hn1 hn2 w
  cases t <;> exact this

end Product

/-- `exD2` (even length) with the state `e` named `e,x`: a state name containing a comma -/
def exComma : DFA String String :=
  { Q := ["e,x", "o"], Sigma := ["b", "a"],
    delta := [(("e,x", "a"), "o"), (("e,x", "b"), "o"), (("o", "a"), "e,x"), (("o", "b"), "e,x")],
    q0 := "e,x", F := ["e,x"] }

/-! ### reverse exercise -/

theorem succ_iff_Succ {σ τ : Type} [DecidableEq σ] [DecidableEq τ] (N : NFA σ τ) (q : σ) (a : τ) (r : σ) :
    r ∈ N.succ q a ↔ N.Succ q a r := by
  unfold NFA.succ NFA.Succ
  exact C14b.mem_getD_iff.symm

theorem reverseCheck_self (D : DFA String String) (hv : D.valid = true) (hk : (D.delta.map (·.1)).Nodup)
    (fresh eps : String) (hf : fresh ∉ D.Q) (he : eps ∉ D.Sigma) (s : Sched) (len : Nat) :
    reverseCheck D (D.reverse fresh eps) s len = .ok true := by
  have hRv := reverse_valid D fresh eps hv hf he
  obtain ⟨L, hL, hm⟩ := nfa_words_exact (D.reverse fresh eps) hRv s len
  unfold reverseCheck
  rw [hL]
  simp only [bind, Except.bind, pure, Except.pure, Except.ok.injEq, Bool.and_eq_true, ssubset_iff,
    List.all_eq_true, decide_eq_true_eq, C12a.compare_isNone_iff]
  have hS : (D.reverse fresh eps).Sigma = D.Sigma := rfl
  have hQ : (D.reverse fresh eps).Q = sinsert D.Q fresh := rfl
  have h0 : (D.reverse fresh eps).q0 = fresh := rfl
  have hF : (D.reverse fresh eps).F = [D.q0] := rfl
  refine ⟨⟨⟨⟨⟨?_, ?_⟩, ?_⟩, ?_⟩, ?_⟩, ?_⟩
  · rw [hS]; exact seq_refl _
  · intro q hq
    rw [hQ, mem_sinsert]
    exact Or.inl hq
  · rintro ⟨⟨q, a⟩, r⟩ hmem
    rw [succ_iff_Succ, DFA.reverse_Succ_iff]
    have hr : r ∈ D.Q := (DFA.valid_closed hv hmem).2.2
    have hne : ¬ ((r, a) = (fresh, eps)) := by
      intro h
      simp only [Prod.mk.injEq] at h
      exact hf (h.1 ▸ hr)
    simp only
    rw [if_neg hne]
    exact hmem
  · rw [h0]; exact hf
  · rw [hF]; exact seq_refl _
  · intro w
    rw [hm w, langReverse_spec, dfa_words_exact D hv len w.reverse, hS, List.length_reverse]
    have hrev : (∀ a, a ∈ w.reverse → a ∈ D.Sigma) ↔ (∀ a, a ∈ w → a ∈ D.Sigma) := by
      simp only [List.mem_reverse]
    rw [hrev]
    constructor
    · rintro ⟨h1, h2, h3⟩
      exact ⟨h1, h2, (reverse_lang D fresh eps hv hf he hk w h2).mp h3⟩
    · rintro ⟨h1, h2, h3⟩
      exact ⟨h1, h2, (reverse_lang D fresh eps hv hf he hk w h2).mpr h3⟩

end C13a
end Gamba
