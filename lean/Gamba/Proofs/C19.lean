/-
  Gamba.Proofs.C19 — helper lemmas for property C19.

  PART A: the alias micro-model `Gamba.Model.Heap`.  Frame lemmas for the repaired (copying)
  constructions, and a simulation between the original (sharing) and the repaired version.
  PART B: two Nerode partitions of the same DFA have the same blocks (up to the order inside a block).
-/
import Gamba.Model.Basic
import Gamba.Model.Heap
import Gamba.Proofs.DFABasic
import Gamba.Proofs.MinBasic
namespace Gamba
namespace Heap
set_option linter.unusedSectionVars false
variable {σ τ : Type} [DecidableEq σ] [DecidableEq τ]

/-! ### reading the store -/

theorem read_append_lt (h l : Store σ) {a : Addr} (ha : a < h.length) :
    Store.read (h ++ l) a = Store.read h a := by
  simp [Store.read, List.getD_eq_getElem?_getD, List.getElem?_append_left ha]

theorem read_append_length (h : Store σ) (v : List σ) : Store.read (h ++ [v]) h.length = v := by
  simp [Store.read, List.getD_eq_getElem?_getD]

theorem read_set_ne (h : Store σ) {a b : Addr} (v : List σ) (hne : b ≠ a) :
    Store.read (h.set b v) a = Store.read h a := by
  simp [Store.read, List.getD_eq_getElem?_getD, List.getElem?_set_ne hne]

theorem read_set_eq (h : Store σ) {a : Addr} (v : List σ) (ha : a < h.length) :
    Store.read (h.set a v) a = v := by
  simp [Store.read, List.getD_eq_getElem?_getD, List.getElem?_set_self ha]

/-! ### frame invariant -/

/-- every address of `d` is at least `n` -/
def Fresh (n : Nat) (d : Dict (σ × τ) Addr) : Prop := ∀ e, e ∈ d → n ≤ e.2

/-- the store `h` still has the first `n` cells of `h0` -/
def FrameOK (n : Nat) (h0 h : Store σ) : Prop := n ≤ h.length ∧ ∀ a, a < n → h.read a = h0.read a

def Good (n : Nat) (h0 : Store σ) (p : Dict (σ × τ) Addr × Store σ) : Prop :=
  Fresh n p.1 ∧ FrameOK n h0 p.2

theorem FrameOK.refl (h : Store σ) : FrameOK h.length h h := ⟨Nat.le_refl _, fun _ _ => rfl⟩

theorem FrameOK.alloc {n : Nat} {h0 h : Store σ} (hf : FrameOK n h0 h) (c : List σ) :
    FrameOK n h0 (h.alloc c).1 := by
  obtain ⟨h1, h2⟩ := hf
  refine ⟨?_, ?_⟩
  · simp only [Store.alloc, List.length_append, List.length_singleton]; omega
  · intro a ha
    simp only [Store.alloc]
    rw [read_append_lt h _ (show a < h.length by omega)]
    exact h2 a ha

theorem FrameOK.mono {n m : Nat} {h0 h : Store σ} (hf : FrameOK n h0 h) (hm : m ≤ n) : FrameOK m h0 h :=
  ⟨Nat.le_trans hm hf.1, fun a ha => hf.2 a (by omega)⟩

theorem FrameOK.trans {n m : Nat} {h0 h1 h2 : Store σ} (h01 : FrameOK n h0 h1) (h12 : FrameOK m h1 h2)
    (hm : n ≤ m) : FrameOK n h0 h2 :=
  ⟨Nat.le_trans hm h12.1, fun a ha => (h12.2 a (by omega)).trans (h01.2 a ha)⟩

theorem addInPlace_good {n : Nat} {h0 : Store σ} {d : Dict (σ × τ) Addr} {h : Store σ}
    (hg : Good n h0 (d, h)) (k : σ × τ) (t : σ) : Good n h0 (addInPlace d h k t) := by
  obtain ⟨hfr, hf⟩ := hg
  unfold addInPlace
  split
  · rename_i a hl
    have ha : n ≤ a := hfr _ (mem_of_lookup_eq_some hl)
    refine ⟨hfr, ?_, ?_⟩
    · simp only [Store.unionInPlace, List.length_set]; exact hf.1
    · intro b hb
      simp only [Store.unionInPlace]
      rw [read_set_ne h _ (Nat.ne_of_gt (show b < a by omega))]
      exact hf.2 b hb
  · refine ⟨?_, hf.alloc [t]⟩
    intro e he
    simp only [Store.alloc] at he
    rcases List.mem_append.mp he with he | he
    · exact hfr e he
    · simp only [List.mem_singleton] at he
      subst he
      exact hf.1

theorem foldl_addInPlace_good {n : Nat} {h0 : Store σ} (ks : List σ) (e : τ) (t : σ)
    (p : Dict (σ × τ) Addr × Store σ) (hg : Good n h0 p) :
    Good n h0 (ks.foldl (fun (acc : Dict (σ × τ) Addr × Store σ) q => addInPlace acc.1 acc.2 (q, e) t) p) := by
  induction ks generalizing p with
  | nil => exact hg
  | cons q ks ih =>
    simp only [List.foldl_cons]
    exact ih _ (addInPlace_good hg _ _)

theorem copyDelta_aux_good {n : Nat} {h0 : Store σ} (d : Dict (σ × τ) Addr)
    (p : Dict (σ × τ) Addr × Store σ) (hg : Good n h0 p) :
    Good n h0 (d.foldl (fun (acc : Dict (σ × τ) Addr × Store σ) e =>
      let (h', a) := acc.2.alloc (acc.2.read e.2)
      (acc.1 ++ [(e.1, a)], h')) p) := by
  induction d generalizing p with
  | nil => exact hg
  | cons e d ih =>
    simp only [List.foldl_cons]
    apply ih
    obtain ⟨hfr, hf⟩ := hg
    refine ⟨?_, hf.alloc _⟩
    intro e' he'
    rcases List.mem_append.mp he' with he' | he'
    · exact hfr e' he'
    · simp only [List.mem_singleton] at he'
      subst he'
      exact hf.1

theorem copyDelta_good (d : Dict (σ × τ) Addr) (h : Store σ) : Good h.length h (copyDelta d h) :=
  copyDelta_aux_good d _ ⟨fun _ he => by simp at he, FrameOK.refl h⟩

theorem Good.append {n : Nat} {h0 h1 h2 : Store σ} {d1 d2 : Dict (σ × τ) Addr}
    (g1 : Good n h0 (d1, h1)) (g2 : Good h1.length h1 (d2, h2)) : Good n h0 (d1 ++ d2, h2) := by
  refine ⟨?_, g1.2.trans g2.2 g1.2.1⟩
  intro e he
  rcases List.mem_append.mp he with he | he
  · exact g1.1 e he
  · exact Nat.le_trans g1.2.1 (g2.1 e he)

theorem repetitionCopied_frameOK (N : HNFA σ τ) (h : Store σ) (q0 : σ) :
    FrameOK h.length h (repetitionCopied N h q0).2 := by
  have g0 := copyDelta_good N.delta h
  have g1 := foldl_addInPlace_good (sinsert N.F q0) N.eps N.q0 _ g0
  exact g1.2.alloc [N.q0]

theorem concatCopied_frameOK (N1 N2 : HNFA σ τ) (h : Store σ) :
    FrameOK h.length h (concatCopied N1 N2 h).2 := by
  have g1 := copyDelta_good N1.delta h
  have g2 := copyDelta_good N2.delta (copyDelta N1.delta h).2
  have g12 := Good.append (d1 := (copyDelta N1.delta h).1) (h1 := (copyDelta N1.delta h).2) g1 g2
  exact (foldl_addInPlace_good N1.F N1.eps N2.q0 _ g12).2

theorem view_eq_of_frame (N : HNFA σ τ) {h h' : Store σ} (hwf : N.WF h) (hf : FrameOK h.length h h') :
    N.view h' = N.view h := by
  unfold HNFA.view
  apply List.map_congr_left
  intro e he
  rw [hf.2 e.2 (hwf e he)]

/-! ### simulation between the sharing and the copying version -/

theorem lookup_map_val {κ : Type} [BEq κ] [LawfulBEq κ] (f : Addr → Addr) (d : Dict κ Addr) (k : κ) :
    (d.map (fun e => (e.1, f e.2))).lookup k = (d.lookup k).map f := by
  induction d with
  | nil => rfl
  | cons e d ih =>
    obtain ⟨k', v'⟩ := e
    simp only [List.map_cons, List.lookup_cons]
    cases hb : k == k'
    · exact ih
    · rfl

theorem lookup_set {κ ν : Type} [DecidableEq κ] [BEq κ] [LawfulBEq κ] (d : Dict κ ν) (k k' : κ) (v : ν) :
    (Dict.set d k v).lookup k' = if k' = k then some v else d.lookup k' := by
  induction d with
  | nil =>
    simp only [Dict.set, List.lookup_cons, List.lookup_nil]
    by_cases hk : k' = k
    · simp [hk]
    · have hb : (k' == k) = false := by simp [hk]
      simp [hb, hk]
  | cons e d ih =>
    obtain ⟨k1, v1⟩ := e
    simp only [Dict.set]
    by_cases h1 : k1 = k
    · subst h1
      simp only [if_true, List.lookup_cons]
      by_cases hk : k' = k1
      · simp [hk]
      · have hb : (k' == k1) = false := by simp [hk]
        simp [hb, hk]
    · simp only [h1, if_false, List.lookup_cons]
      by_cases hk : k' = k1
      · subst hk
        simp [h1]
      · have hb : (k' == k1) = false := by simp [hk]
        simp only [hb]
        exact ih

/-- `dC` is `dS` with the addresses renamed by `f`; `f` is injective on the addresses of `dS`,
all addresses are allocated, and corresponding cells have equal content -/
def Sim (f : Addr → Addr) (dS : Dict (σ × τ) Addr) (hS : Store σ) (dC : Dict (σ × τ) Addr) (hC : Store σ) : Prop :=
  dC = dS.map (fun e => (e.1, f e.2)) ∧
  (∀ e, e ∈ dS → e.2 < hS.length ∧ f e.2 < hC.length ∧ hC.read (f e.2) = hS.read e.2) ∧
  (∀ e e', e ∈ dS → e' ∈ dS → f e.2 = f e'.2 → e.2 = e'.2)

def SimE (pS pC : Dict (σ × τ) Addr × Store σ) : Prop := ∃ f, Sim f pS.1 pS.2 pC.1 pC.2

theorem SimE.mk' {dS dC : Dict (σ × τ) Addr} {hS hC : Store σ} (f : Addr → Addr)
    (h : Sim f dS hS dC hC) : SimE (dS, hS) (dC, hC) := ⟨f, h⟩

theorem addInPlace_sim {dS dC : Dict (σ × τ) Addr} {hS hC : Store σ}
    (hs : SimE (dS, hS) (dC, hC)) (k : σ × τ) (t : σ) :
    SimE (addInPlace dS hS k t) (addInPlace dC hC k t) := by
  obtain ⟨f, hmap, hb, hinj⟩ := hs
  simp only at hmap hb hinj
  unfold addInPlace
  rw [hmap, lookup_map_val]
  cases hl : dS.lookup k with
  | none =>
    simp only [Option.map_none, Store.alloc]
    refine SimE.mk' (fun x => if x = hS.length then hC.length else f x) ⟨?_, ?_, ?_⟩
    · simp only [List.map_append, List.map_cons, List.map_nil, if_true]
      congr 1
      apply List.map_congr_left
      intro e he
      have := (hb e he).1
      have hne : e.2 ≠ hS.length := Nat.ne_of_lt this
      simp only [hne, if_false]
    · intro e he
      simp only [List.length_append, List.length_singleton]
      rcases List.mem_append.mp he with he | he
      · obtain ⟨h1, h2, h3⟩ := hb e he
        have hne : e.2 ≠ hS.length := Nat.ne_of_lt h1
        simp only [hne, if_false]
        refine ⟨Nat.lt_succ_of_lt h1, Nat.lt_succ_of_lt h2, ?_⟩
        rw [read_append_lt hC _ h2, read_append_lt hS _ h1]
        exact h3
      · simp only [List.mem_singleton] at he
        subst he
        simp only [if_true]
        refine ⟨Nat.lt_succ_self _, Nat.lt_succ_self _, ?_⟩
        rw [read_append_length, read_append_length]
    · intro e e' he he'
      rcases List.mem_append.mp he with he | he <;> rcases List.mem_append.mp he' with he' | he'
      · have hne : e.2 ≠ hS.length := Nat.ne_of_lt (hb e he).1
        have hne' : e'.2 ≠ hS.length := Nat.ne_of_lt (hb e' he').1
        simp only [hne, hne', if_false]
        exact hinj e e' he he'
      · simp only [List.mem_singleton] at he'
        subst he'
        have hne : e.2 ≠ hS.length := Nat.ne_of_lt (hb e he).1
        simp only [hne, if_false, if_true]
        intro h
        have := (hb e he).2.1
        exact absurd h (Nat.ne_of_lt this)
      · simp only [List.mem_singleton] at he
        subst he
        have hne' : e'.2 ≠ hS.length := Nat.ne_of_lt (hb e' he').1
        simp only [hne', if_false, if_true]
        intro h
        have := (hb e' he').2.1
        exact absurd h.symm (Nat.ne_of_lt this)
      · simp only [List.mem_singleton] at he he'
        subst he he'
        intro _; rfl
  | some a =>
    simp only [Option.map_some, Store.unionInPlace]
    have hmem := mem_of_lookup_eq_some hl
    obtain ⟨ha1, ha2, ha3⟩ := hb _ hmem
    simp only at ha1 ha2 ha3
    refine SimE.mk' f ⟨rfl, ?_, hinj⟩
    intro e he
    simp only [List.length_set]
    obtain ⟨h1, h2, h3⟩ := hb e he
    refine ⟨h1, h2, ?_⟩
    by_cases hea : e.2 = a
    · rw [hea, read_set_eq hC _ ha2, read_set_eq hS _ ha1, ha3]
    · have hne : f e.2 ≠ f a := fun h => hea (hinj e (k, a) he hmem h)
      rw [read_set_ne hC _ (Ne.symm hne), read_set_ne hS _ (Ne.symm hea)]
      exact h3

theorem foldl_addInPlace_sim (ks : List σ) (e : τ) (t : σ)
    (pS pC : Dict (σ × τ) Addr × Store σ) (hs : SimE pS pC) :
    SimE (ks.foldl (fun (acc : Dict (σ × τ) Addr × Store σ) q => addInPlace acc.1 acc.2 (q, e) t) pS)
      (ks.foldl (fun (acc : Dict (σ × τ) Addr × Store σ) q => addInPlace acc.1 acc.2 (q, e) t) pC) := by
  induction ks generalizing pS pC with
  | nil => exact hs
  | cons q ks ih =>
    simp only [List.foldl_cons]
    exact ih _ _ (addInPlace_sim hs _ _)

theorem copyDelta_aux_sim (h : Store σ) (d pre : Dict (σ × τ) Addr)
    (hnd : ((pre ++ d).map (·.2)).Nodup) (hwf : ∀ e, e ∈ pre ++ d → e.2 < h.length)
    (p : Dict (σ × τ) Addr × Store σ) (hf : FrameOK h.length h p.2) (hs : SimE (pre, h) p) :
    SimE (pre ++ d, h) (d.foldl (fun (acc : Dict (σ × τ) Addr × Store σ) e =>
      let (h', a) := acc.2.alloc (acc.2.read e.2)
      (acc.1 ++ [(e.1, a)], h')) p) := by
  induction d generalizing pre p with
  | nil => simpa using hs
  | cons e d ih =>
    simp only [List.foldl_cons]
    have happ : pre ++ e :: d = (pre ++ [e]) ++ d := by simp
    rw [happ] at hnd hwf ⊢
    apply ih _ hnd hwf
    · exact hf.alloc _
    · obtain ⟨f, hmap, hb, hinj⟩ := hs
      obtain ⟨dA, hA⟩ := p
      simp only at hmap hb hinj hf ⊢
      have he_lt : e.2 < h.length := hwf e (by simp)
      have hfresh : ∀ e', e' ∈ pre → e'.2 ≠ e.2 := by
        intro e' he' heq
        have hnd' : ((pre ++ [e]).map (·.2)).Nodup := by
          rw [List.map_append] at hnd
          exact (List.nodup_append.mp hnd).1
        rw [List.map_append, List.nodup_append] at hnd'
        exact hnd'.2.2 e'.2 (List.mem_map.mpr ⟨e', he', rfl⟩) e.2 (by simp) heq
      simp only [Store.alloc]
      refine SimE.mk' (fun x => if x = e.2 then hA.length else f x) ⟨?_, ?_, ?_⟩
      · simp only [List.map_append, List.map_cons, List.map_nil, if_true]
        rw [hmap]
        congr 1
        apply List.map_congr_left
        intro e' he'
        simp only [hfresh e' he', if_false]
      · intro e' he'
        simp only [List.length_append, List.length_singleton]
        rcases List.mem_append.mp he' with he' | he'
        · obtain ⟨h1, h2, h3⟩ := hb e' he'
          simp only [hfresh e' he', if_false]
          refine ⟨h1, Nat.lt_succ_of_lt h2, ?_⟩
          rw [read_append_lt hA _ h2]
          exact h3
        · simp only [List.mem_singleton] at he'
          subst he'
          simp only [if_true]
          refine ⟨he_lt, Nat.lt_succ_self _, ?_⟩
          rw [read_append_length]
          exact hf.2 _ he_lt
      · intro e1 e2 he1 he2
        rcases List.mem_append.mp he1 with m1 | m1 <;> rcases List.mem_append.mp he2 with m2 | m2
        · simp only [hfresh e1 m1, hfresh e2 m2, if_false]
          exact hinj e1 e2 m1 m2
        · simp only [List.mem_singleton] at m2
          rw [m2]
          simp only [hfresh e1 m1, if_false, if_true]
          intro h'
          exact absurd h' (Nat.ne_of_lt (hb e1 m1).2.1)
        · simp only [List.mem_singleton] at m1
          rw [m1]
          simp only [hfresh e2 m2, if_false, if_true]
          intro h'
          exact absurd h'.symm (Nat.ne_of_lt (hb e2 m2).2.1)
        · simp only [List.mem_singleton] at m1 m2
          rw [m1, m2]
          intro _; rfl

theorem copyDelta_sim (d : Dict (σ × τ) Addr) (h : Store σ)
    (hnd : (d.map (·.2)).Nodup) (hwf : ∀ e, e ∈ d → e.2 < h.length) :
    SimE (d, h) (copyDelta d h) := by
  have := copyDelta_aux_sim h d [] (by simpa using hnd) (by simpa using hwf) ([], h) (FrameOK.refl h)
    ⟨id, rfl, fun _ he => by simp at he, fun _ _ he => by simp at he⟩
  rw [List.nil_append] at this
  exact this

theorem repetition_same_result_noalias (N : HNFA σ τ) (h : Store σ) (q0 : σ) (hwf : N.WF h)
    (hna : (N.delta.map (·.2)).Nodup) :
    ∀ k, ((repetitionCopied N h q0).1.delta.lookup k).map ((repetitionCopied N h q0).2.read) =
         ((repetitionShared N h q0).1.delta.lookup k).map ((repetitionShared N h q0).2.read) := by
  intro k
  have hs := foldl_addInPlace_sim (sinsert N.F q0) N.eps N.q0 _ _ (copyDelta_sim N.delta h hna hwf)
  generalize hpS : (sinsert N.F q0).foldl
    (fun (acc : Dict (σ × τ) Addr × Store σ) q => addInPlace acc.1 acc.2 (q, N.eps) N.q0) (N.delta, h) = pS at hs
  generalize hpC : (sinsert N.F q0).foldl
    (fun (acc : Dict (σ × τ) Addr × Store σ) q => addInPlace acc.1 acc.2 (q, N.eps) N.q0) (copyDelta N.delta h) = pC at hs
  have eS : repetitionShared N h q0 =
      ({ Q := sinsert N.Q q0, delta := Dict.set pS.1 (q0, N.eps) pS.2.length, q0 := q0, F := sinsert N.F q0, eps := N.eps },
        pS.2 ++ [[N.q0]]) := by
    rw [← hpS]; rfl
  have eC : repetitionCopied N h q0 =
      ({ Q := sinsert N.Q q0, delta := Dict.set pC.1 (q0, N.eps) pC.2.length, q0 := q0, F := sinsert N.F q0, eps := N.eps },
        pC.2 ++ [[N.q0]]) := by
    rw [← hpC]; rfl
  rw [eS, eC]
  simp only [lookup_set]
  obtain ⟨f, hmap, hb, hinj⟩ := hs
  by_cases hk : k = (q0, N.eps)
  · simp only [hk, if_true, Option.map_some, read_append_length]
  · simp only [hk, if_false]
    rw [hmap, lookup_map_val]
    cases hl : pS.1.lookup k with
    | none => rfl
    | some a =>
      obtain ⟨h1, h2, h3⟩ := hb _ (mem_of_lookup_eq_some hl)
      simp only at h1 h2 h3
      simp only [Option.map_some]
      rw [read_append_lt pC.2 _ h2, read_append_lt pS.2 _ h1, h3]

end Heap

/-! ### PART B: two Nerode partitions of the same DFA have the same blocks -/

set_option linter.unusedSectionVars false in
theorem DFA.IsNerode.block_corr {σ τ : Type} [DecidableEq σ] [DecidableEq τ] {D : DFA σ τ}
    {P P' : List (List σ)} (hN : D.IsNerode P) (hN' : D.IsNerode P') :
    ∀ B, B ∈ P → ∃ B', B' ∈ P' ∧ ∀ q, q ∈ B ↔ q ∈ B' := by
  intro B hB
  obtain ⟨p, hp⟩ := List.exists_mem_of_ne_nil B (hN.1.nonempty B hB)
  have hpQ : p ∈ D.Q := hN.1.sub B hB p hp
  obtain ⟨B', hB', hp'⟩ := hN'.1.cover p hpQ
  refine ⟨B', hB', fun q => ⟨fun hq => ?_, fun hq => ?_⟩⟩
  · have he : D.Equiv p q := hN.equiv_of_mem hB hp hq
    obtain ⟨C', hC', hq'⟩ := hN'.1.cover q (hN.1.sub B hB q hq)
    have : B' = C' := (hN'.2 B' C' hB' hC' p q hp' hq').mpr he
    rw [this]; exact hq'
  · have he : D.Equiv p q := hN'.equiv_of_mem hB' hp' hq
    obtain ⟨C, hC, hqC⟩ := hN.1.cover q (hN'.1.sub B' hB' q hq)
    have : B = C := (hN.2 B C hB hC p q hp hqC).mpr he
    rw [this]; exact hqC

end Gamba
