/-
  Gamba.Proofs.C04b — the Moore-style refinement `dfa_quotient` (`DFA.quotient`): the split of a block by an
  abstract equivalence (`splitBy`/`ins`), the loop invariant `QInv` (partition of Q, blocks respect F, states in
  different blocks are Nerode-inequivalent), the exit test (`equalSets` ⇒ stable ⇒ congruence ⇒ Nerode), progress
  (a non-final round on a partition without empty blocks strictly increases the number of blocks) and the
  fuel bound `|Q| + 2`.
-/
import Gamba.Model.DFA
import Gamba.Model.Minimize
import Gamba.Spec.Automata
import Gamba.Proofs.DFABasic
import Gamba.Proofs.MinBasic
namespace Gamba
set_option linter.unusedSectionVars false
variable {σ τ : Type} [DecidableEq σ] [DecidableEq τ]

namespace C04b

/-! ### splitting a block by an abstract relation -/

/-- the test of `splitBlock`: `v` is related to the head of `W` -/
def headRel (r : σ → σ → Bool) (v : σ) (W : List σ) : Bool :=
  match W with
  | [] => false
  | w :: _ => r v w

/-- insert `v` into the first sub-block whose head is related to `v`, else open a new one -/
def ins (r : σ → σ → Bool) (v : σ) : List (List σ) → List (List σ)
  | [] => [[v]]
  | W :: WW => if headRel r v W then (W ++ [v]) :: WW else W :: ins r v WW

/-- `splitBlock` for an abstract relation -/
def splitBy (r : σ → σ → Bool) (V : List σ) : List (List σ) :=
  V.foldl (fun WW v => ins r v WW) []

theorem step_eq_ins (r : σ → σ → Bool) (v : σ) (WW : List (List σ)) :
    (match WW.findIdx? (headRel r v) with
      | some i => WW.modify i (· ++ [v])
      | none => WW ++ [[v]]) = ins r v WW := by
  induction WW with
  | nil => rfl
  | cons W WW ih =>
    rw [List.findIdx?_cons]
    by_cases h : headRel r v W = true
    · simp only [h, if_true, ins, List.modify_zero_cons]
    · have h' : headRel r v W = false := by simpa using h
      simp only [h', Bool.false_eq_true, if_false, ins]
      rw [← ih]
      cases List.findIdx? (headRel r v) WW with
      | none => rfl
      | some i => simp only [Option.map_some, List.modify_succ_cons]

theorem splitBlock_eq (D : DFA σ τ) (VV : List (List σ)) (V : List σ) :
    D.splitBlock VV V = splitBy (D.sameSig VV) V := by
  unfold DFA.splitBlock splitBy
  congr 1
  funext WW v
  exact step_eq_ins (D.sameSig VV) v WW

/-- what a correct split looks like -/
structure SplitOK (r : σ → σ → Bool) (WW : List (List σ)) : Prop where
  ne : ∀ W, W ∈ WW → W ≠ []
  same : ∀ W, W ∈ WW → ∀ x, x ∈ W → ∀ y, y ∈ W → r x y = true
  pw : WW.Pairwise (fun W W' => ∀ x, x ∈ W → ∀ y, y ∈ W' → r x y = false)

/-- `r` is an equivalence relation -/
structure IsEqv (r : σ → σ → Bool) : Prop where
  refl : ∀ x, r x x = true
  symm : ∀ x y, r x y = true → r y x = true
  trans : ∀ x y z, r x y = true → r y z = true → r x z = true

theorem mem_ins_cases {r : σ → σ → Bool} {v : σ} {WW : List (List σ)} {W' : List σ}
    (h : W' ∈ ins r v WW) :
    W' ∈ WW ∨ (∃ W, W ∈ WW ∧ headRel r v W = true ∧ W' = W ++ [v]) ∨
      (W' = [v] ∧ ∀ W, W ∈ WW → headRel r v W = false) := by
  induction WW with
  | nil =>
    simp only [ins, List.mem_singleton] at h
    exact Or.inr (Or.inr ⟨h, fun W hW => by cases hW⟩)
  | cons W WW ih =>
    simp only [ins] at h
    split at h
    · rename_i hr
      rcases List.mem_cons.mp h with rfl | h
      · exact Or.inr (Or.inl ⟨W, List.mem_cons_self, hr, rfl⟩)
      · exact Or.inl (List.mem_cons_of_mem _ h)
    · rename_i hr
      rcases List.mem_cons.mp h with rfl | h
      · exact Or.inl List.mem_cons_self
      · rcases ih h with h1 | ⟨W1, hW1, hr1, rfl⟩ | ⟨rfl, hall⟩
        · exact Or.inl (List.mem_cons_of_mem _ h1)
        · exact Or.inr (Or.inl ⟨W1, List.mem_cons_of_mem _ hW1, hr1, rfl⟩)
        · refine Or.inr (Or.inr ⟨rfl, ?_⟩)
          intro W2 hW2
          rcases List.mem_cons.mp hW2 with rfl | hW2
          · simpa using hr
          · exact hall W2 hW2

/-- elements of the blocks after an insertion -/
theorem mem_ins {r : σ → σ → Bool} {v : σ} {WW : List (List σ)} {x : σ} :
    (∃ W, W ∈ ins r v WW ∧ x ∈ W) ↔ (∃ W, W ∈ WW ∧ x ∈ W) ∨ x = v := by
  induction WW with
  | nil => simp [ins]
  | cons W WW ih =>
    simp only [ins]
    split
    · simp only [List.mem_cons, exists_eq_or_imp, List.mem_append, List.not_mem_nil, or_false]
      constructor
      · rintro ((h | h) | h)
        · exact Or.inl (Or.inl h)
        · exact Or.inr h
        · exact Or.inl (Or.inr h)
      · rintro ((h | h) | h)
        · exact Or.inl (Or.inl h)
        · exact Or.inr h
        · exact Or.inl (Or.inr h)
    · simp only [List.mem_cons, exists_eq_or_imp, ih]
      constructor
      · rintro (h | h | h)
        · exact Or.inl (Or.inl h)
        · exact Or.inl (Or.inr h)
        · exact Or.inr h
      · rintro ((h | h) | h)
        · exact Or.inl h
        · exact Or.inr (Or.inl h)
        · exact Or.inr (Or.inr h)

theorem headRel_true {r : σ → σ → Bool} {v : σ} {W : List σ} (h : headRel r v W = true) :
    ∃ w, w ∈ W ∧ r v w = true := by
  cases W with
  | nil => cases h
  | cons w W => exact ⟨w, List.mem_cons_self, h⟩

theorem headRel_false {r : σ → σ → Bool} {v : σ} {W : List σ} (hne : W ≠ []) (h : headRel r v W = false) :
    ∃ w, w ∈ W ∧ r v w = false := by
  cases W with
  | nil => exact absurd rfl hne
  | cons w W => exact ⟨w, List.mem_cons_self, h⟩

theorem IsEqv.false_of {r : σ → σ → Bool} (hr : IsEqv r) {x y z : σ} (h1 : r x y = true)
    (h2 : r y z = false) : r x z = false := by
  cases h : r x z with
  | false => rfl
  | true =>
    have := hr.trans y x z (hr.symm x y h1) h
    rw [h2] at this; cases this

theorem IsEqv.false_symm {r : σ → σ → Bool} (hr : IsEqv r) {x y : σ} (h : r x y = false) :
    r y x = false := by
  cases h' : r y x with
  | false => rfl
  | true => rw [hr.symm y x h'] at h; cases h

theorem SplitOK.ins {r : σ → σ → Bool} (hr : IsEqv r) {WW : List (List σ)} (h : SplitOK r WW) (v : σ) :
    SplitOK r (ins r v WW) := by
  refine ⟨?_, ?_, ?_⟩
  · intro W' hW'
    rcases mem_ins_cases hW' with h1 | ⟨W, _, _, rfl⟩ | ⟨rfl, _⟩
    · exact h.ne W' h1
    · simp
    · simp
  · intro W' hW' x hx y hy
    rcases mem_ins_cases hW' with h1 | ⟨W, hW, hrel, rfl⟩ | ⟨rfl, _⟩
    · exact h.same W' h1 x hx y hy
    · obtain ⟨w, hw, hvw⟩ := headRel_true hrel
      have hxv : ∀ z, z ∈ W ++ [v] → r z w = true := by
        intro z hz
        rcases List.mem_append.mp hz with hz | hz
        · exact h.same W hW z hz w hw
        · rw [List.mem_singleton.mp hz]; exact hvw
      exact hr.trans x w y (hxv x hx) (hr.symm y w (hxv y hy))
    · rw [List.mem_singleton.mp hx, List.mem_singleton.mp hy]; exact hr.refl v
  · have hpw := h.pw
    have hne := h.ne
    have hsame := h.same
    clear h
    induction WW with
    | nil => simp [C04b.ins]
    | cons W WW ih =>
      rw [List.pairwise_cons] at hpw
      simp only [C04b.ins]
      split
      · rename_i hrel
        rw [List.pairwise_cons]
        refine ⟨?_, hpw.2⟩
        intro W' hW' x hx y hy
        rcases List.mem_append.mp hx with hx | hx
        · exact hpw.1 W' hW' x hx y hy
        · rw [List.mem_singleton.mp hx]
          obtain ⟨w, hw, hvw⟩ := headRel_true hrel
          exact hr.false_of hvw (hpw.1 W' hW' w hw y hy)
      · rename_i hrel
        rw [List.pairwise_cons]
        refine ⟨?_, ih hpw.2 (fun W' hW' => hne W' (List.mem_cons_of_mem _ hW'))
          (fun W' hW' => hsame W' (List.mem_cons_of_mem _ hW'))⟩
        intro W' hW' x hx y hy
        have hWne : W ≠ [] := hne W List.mem_cons_self
        obtain ⟨w, hw, hvw⟩ := headRel_false hWne (by simpa using hrel)
        have hxv : r x v = false :=
          hr.false_of (hsame W List.mem_cons_self x hx w hw) (hr.false_symm hvw)
        rcases mem_ins_cases hW' with h1 | ⟨W1, hW1, _, rfl⟩ | ⟨rfl, _⟩
        · exact hpw.1 W' h1 x hx y hy
        · rcases List.mem_append.mp hy with hy | hy
          · exact hpw.1 W1 hW1 x hx y hy
          · rw [List.mem_singleton.mp hy]; exact hxv
        · rw [List.mem_singleton.mp hy]; exact hxv

theorem SplitOK.nil (r : σ → σ → Bool) : SplitOK r ([] : List (List σ)) :=
  ⟨fun _ h => (by cases h), fun _ h => (by cases h), List.Pairwise.nil⟩

theorem SplitOK.foldl {r : σ → σ → Bool} (hr : IsEqv r) (V : List σ) {WW : List (List σ)}
    (h : SplitOK r WW) : SplitOK r (V.foldl (fun WW v => C04b.ins r v WW) WW) := by
  induction V generalizing WW with
  | nil => exact h
  | cons v V ih => exact ih (h.ins hr v)

theorem mem_foldl_ins {r : σ → σ → Bool} (V : List σ) {WW : List (List σ)} {x : σ} :
    (∃ W, W ∈ V.foldl (fun WW v => C04b.ins r v WW) WW ∧ x ∈ W) ↔ (∃ W, W ∈ WW ∧ x ∈ W) ∨ x ∈ V := by
  induction V generalizing WW with
  | nil => simp
  | cons v V ih =>
    rw [List.foldl_cons, ih, mem_ins, List.mem_cons, or_assoc]

/-- the split is a correct split -/
theorem splitBy_ok {r : σ → σ → Bool} (hr : IsEqv r) (V : List σ) : SplitOK r (splitBy r V) :=
  SplitOK.foldl hr V (SplitOK.nil r)

/-- the sub-blocks cover exactly `V` -/
theorem mem_splitBy {r : σ → σ → Bool} (V : List σ) {x : σ} :
    (∃ W, W ∈ splitBy r V ∧ x ∈ W) ↔ x ∈ V := by
  unfold splitBy
  rw [mem_foldl_ins]
  simp

theorem splitBy_nil (r : σ → σ → Bool) : splitBy r ([] : List σ) = [] := rfl

/-- related elements lie in the same sub-block -/
theorem SplitOK.eq_of_rel {r : σ → σ → Bool} (hr : IsEqv r) {WW : List (List σ)} (h : SplitOK r WW)
    {W W' : List σ} (hW : W ∈ WW) (hW' : W' ∈ WW) {x y : σ} (hx : x ∈ W) (hy : y ∈ W')
    (hxy : r x y = true) : W = W' := by
  have hpw := h.pw
  clear h
  induction WW with
  | nil => cases hW
  | cons W0 WW ih =>
    rw [List.pairwise_cons] at hpw
    rcases List.mem_cons.mp hW with rfl | hW1
    · rcases List.mem_cons.mp hW' with rfl | hW2
      · rfl
      · have := hpw.1 W' hW2 x hx y hy
        rw [hxy] at this; cases this
    · rcases List.mem_cons.mp hW' with rfl | hW2
      · have := hpw.1 W hW1 y hy x hx
        rw [hr.symm x y hxy] at this; cases this
      · exact ih hW1 hW2 hpw.2

/-- sub-blocks are pairwise disjoint (positionally) -/
theorem SplitOK.pd {r : σ → σ → Bool} (hr : IsEqv r) {WW : List (List σ)} (h : SplitOK r WW) :
    WW.Pairwise (fun B C => ∀ q, q ∈ B → q ∉ C) := by
  refine h.pw.imp ?_
  intro B C hBC q hqB hqC
  have := hBC q hqB q hqC
  rw [hr.refl q] at this; cases this

/-- a non-empty block yields at least one sub-block -/
theorem splitBy_length_pos {r : σ → σ → Bool} {V : List σ} (hV : V ≠ []) : 1 ≤ (splitBy r V).length := by
  cases V with
  | nil => exact absurd rfl hV
  | cons v V =>
    obtain ⟨W, hW, _⟩ := (mem_splitBy (r := r) (v :: V) (x := v)).mpr List.mem_cons_self
    cases h : splitBy r (v :: V) with
    | nil => rw [h] at hW; cases hW
    | cons _ _ => simp

/-- exactly one sub-block: it is `V` as a set -/
theorem splitBy_length_one {r : σ → σ → Bool} {V : List σ} (h : (splitBy r V).length = 1) :
    ∃ W, splitBy r V = [W] ∧ ∀ x, x ∈ W ↔ x ∈ V := by
  cases hs : splitBy r V with
  | nil => rw [hs] at h; cases h
  | cons W rest =>
    cases rest with
    | cons _ _ => rw [hs] at h; simp at h
    | nil =>
      refine ⟨W, rfl, ?_⟩
      intro x
      rw [← mem_splitBy (r := r) V, hs]
      simp

/-! ### the signature relation -/

theorem seq_refl (a : List σ) : seq a a = true := seq_iff.mpr (fun _ => Iff.rfl)

theorem seq_symm {a b : List σ} (h : seq a b = true) : seq b a = true :=
  seq_iff.mpr (fun x => (seq_iff.mp h x).symm)

theorem seq_trans {a b c : List σ} (h1 : seq a b = true) (h2 : seq b c = true) : seq a c = true :=
  seq_iff.mpr (fun x => (seq_iff.mp h1 x).trans (seq_iff.mp h2 x))

theorem sameSig_iff (D : DFA σ τ) (VV : List (List σ)) (v w : σ) :
    D.sameSig VV v w = true ↔
      ∀ a, a ∈ D.Sigma → seq (blockOf VV (D.next v a)) (blockOf VV (D.next w a)) = true := by
  simp only [DFA.sameSig, List.all_eq_true]

theorem sameSig_eqv (D : DFA σ τ) (VV : List (List σ)) : IsEqv (D.sameSig VV) := by
  refine ⟨?_, ?_, ?_⟩
  · intro x
    rw [sameSig_iff]
    intro a _
    exact seq_refl _
  · intro x y h
    rw [sameSig_iff] at h ⊢
    intro a ha
    exact seq_symm (h a ha)
  · intro x y z h1 h2
    rw [sameSig_iff] at h1 h2 ⊢
    intro a ha
    exact seq_trans (h1 a ha) (h2 a ha)

/-! ### the loop invariant -/

/-- invariant of `quotientLoop`: the blocks (possibly some empty) partition `Q`, respect `F`, and states of
    different blocks are Nerode-inequivalent -/
structure QInv (D : DFA σ τ) (VV : List (List σ)) : Prop where
  sub : ∀ B, B ∈ VV → ∀ q, q ∈ B → q ∈ D.Q
  cover : ∀ q, q ∈ D.Q → ∃ B, B ∈ VV ∧ q ∈ B
  pd : VV.Pairwise (fun B C => ∀ q, q ∈ B → q ∉ C)
  fin : ∀ B, B ∈ VV → ∀ p, p ∈ B → ∀ q, q ∈ B → (p ∈ D.F ↔ q ∈ D.F)
  sep : ∀ B, B ∈ VV → ∀ C, C ∈ VV → ∀ p, p ∈ B → ∀ q, q ∈ C → D.Equiv p q → B = C

theorem QInv.disj {D : DFA σ τ} {VV : List (List σ)} (h : QInv D VV) :
    ∀ B C, B ∈ VV → C ∈ VV → ∀ q, q ∈ B → q ∈ C → B = C :=
  fun B C hB hC q hqB hqC => h.sep B hB C hC q hqB q hqC (DFA.Equiv.refl D q)

/-- the initial partition `[F, Q ∖ F]` -/
theorem QInv.init (D : DFA σ τ) (hv : D.valid = true) : QInv D [D.F, sdiff D.Q D.F] := by
  refine ⟨?_, ?_, ?_, ?_, ?_⟩
  · intro B hB q hq
    simp only [List.mem_cons, List.not_mem_nil, or_false] at hB
    rcases hB with rfl | rfl
    · exact DFA.valid_F hv hq
    · exact (mem_sdiff.mp hq).1
  · intro q hq
    by_cases hF : q ∈ D.F
    · exact ⟨D.F, List.mem_cons_self, hF⟩
    · exact ⟨sdiff D.Q D.F, List.mem_cons_of_mem _ List.mem_cons_self, mem_sdiff.mpr ⟨hq, hF⟩⟩
  · simp only [List.pairwise_cons, List.mem_cons, List.not_mem_nil, or_false, forall_eq,
      List.Pairwise.nil, and_true, false_imp_iff, implies_true]
    intro q hq hq'
    exact (mem_sdiff.mp hq').2 hq
  · intro B hB p hp q hq
    simp only [List.mem_cons, List.not_mem_nil, or_false] at hB
    rcases hB with rfl | rfl
    · exact ⟨fun _ => hq, fun _ => hp⟩
    · exact ⟨fun h => absurd h (mem_sdiff.mp hp).2, fun h => absurd h (mem_sdiff.mp hq).2⟩
  · intro B hB C hC p hp q hq he
    simp only [List.mem_cons, List.not_mem_nil, or_false] at hB hC
    rcases hB with rfl | rfl <;> rcases hC with rfl | rfl
    · rfl
    · exact absurd (he.fin.mp hp) (mem_sdiff.mp hq).2
    · exact absurd (he.fin.mpr hq) (mem_sdiff.mp hp).2
    · rfl

/-- Nerode-equivalent states have the same signature -/
theorem QInv.sameSig_of_equiv {D : DFA σ τ} (hv : D.valid = true) {VV : List (List σ)} (h : QInv D VV)
    {p q : σ} (hp : p ∈ D.Q) (hq : q ∈ D.Q) (he : D.Equiv p q) : D.sameSig VV p q = true := by
  rw [sameSig_iff]
  intro a ha
  obtain ⟨h1, h2⟩ := blockOf_spec (h.cover _ (DFA.valid_next_mem hv hp ha))
  obtain ⟨h3, h4⟩ := blockOf_spec (h.cover _ (DFA.valid_next_mem hv hq ha))
  rw [h.sep _ h1 _ h3 _ h2 _ h4 (he.next ha)]
  exact seq_refl _

/-- same signature means: the successors lie in the same block -/
theorem QInv.blockOf_eq_of_sameSig {D : DFA σ τ} (hv : D.valid = true) {VV : List (List σ)} (h : QInv D VV)
    {p q : σ} (hp : p ∈ D.Q) (hq : q ∈ D.Q) (hs : D.sameSig VV p q = true) {a : τ} (ha : a ∈ D.Sigma) :
    blockOf VV (D.next p a) = blockOf VV (D.next q a) := by
  obtain ⟨h1, h2⟩ := blockOf_spec (h.cover _ (DFA.valid_next_mem hv hp ha))
  obtain ⟨h3, _⟩ := blockOf_spec (h.cover _ (DFA.valid_next_mem hv hq ha))
  have := (seq_iff.mp ((sameSig_iff D VV p q).mp hs a ha) _).mp h2
  exact h.disj _ _ h1 h3 _ h2 this

/-- one refinement round -/
def refine (D : DFA σ τ) (VV : List (List σ)) : List (List σ) := VV.flatMap (D.splitBlock VV)

theorem mem_refine {D : DFA σ τ} {VV : List (List σ)} {W : List σ} :
    W ∈ refine D VV ↔ ∃ V, V ∈ VV ∧ W ∈ splitBy (D.sameSig VV) V := by
  simp only [refine, List.mem_flatMap, splitBlock_eq]

theorem refine_nonempty {D : DFA σ τ} {VV : List (List σ)} : ∀ W, W ∈ refine D VV → W ≠ [] := by
  intro W hW
  obtain ⟨V, _, hWV⟩ := mem_refine.mp hW
  exact (splitBy_ok (sameSig_eqv D VV) V).ne W hWV

theorem sub_of_mem_splitBy {r : σ → σ → Bool} {V W : List σ} (hW : W ∈ splitBy r V) {x : σ} (hx : x ∈ W) :
    x ∈ V := (mem_splitBy V).mp ⟨W, hW, hx⟩

/-- the invariant is preserved by a refinement round -/
theorem QInv.refine {D : DFA σ τ} (hv : D.valid = true) {VV : List (List σ)} (h : QInv D VV) :
    QInv D (refine D VV) := by
  have hr := sameSig_eqv D VV
  refine ⟨?_, ?_, ?_, ?_, ?_⟩
  · intro W hW q hq
    obtain ⟨V, hV, hWV⟩ := mem_refine.mp hW
    exact h.sub V hV q (sub_of_mem_splitBy hWV hq)
  · intro q hq
    obtain ⟨V, hV, hqV⟩ := h.cover q hq
    obtain ⟨W, hW, hqW⟩ := (mem_splitBy (r := D.sameSig VV) V).mpr hqV
    exact ⟨W, mem_refine.mpr ⟨V, hV, hW⟩, hqW⟩
  · unfold C04b.refine
    rw [List.pairwise_flatMap]
    refine ⟨?_, ?_⟩
    · intro V _
      rw [splitBlock_eq]
      exact (splitBy_ok hr V).pd hr
    · refine h.pd.imp ?_
      intro V V' hVV' W hW W' hW' q hqW hqW'
      rw [splitBlock_eq] at hW hW'
      exact hVV' q (sub_of_mem_splitBy hW hqW) (sub_of_mem_splitBy hW' hqW')
  · intro W hW p hp q hq
    obtain ⟨V, hV, hWV⟩ := mem_refine.mp hW
    exact h.fin V hV p (sub_of_mem_splitBy hWV hp) q (sub_of_mem_splitBy hWV hq)
  · intro W hW W' hW' p hp q hq he
    obtain ⟨V, hV, hWV⟩ := mem_refine.mp hW
    obtain ⟨V', hV', hWV'⟩ := mem_refine.mp hW'
    have hpV := sub_of_mem_splitBy hWV hp
    have hqV' := sub_of_mem_splitBy hWV' hq
    have hVV' : V = V' := h.sep V hV V' hV' p hpV q hqV' he
    subst hVV'
    exact (splitBy_ok hr V).eq_of_rel hr hWV hWV' hp hq
      (h.sameSig_of_equiv hv (h.sub V hV p hpV) (h.sub V hV q hqV') he)

/-! ### the exit test -/

theorem equalSets_iff (A B : List (List σ)) :
    equalSets A B = true ↔
      (∀ x, x ∈ A → ∃ y, y ∈ B ∧ seq x y = true) ∧ (∀ x, x ∈ B → ∃ y, y ∈ A ∧ seq x y = true) := by
  simp only [equalSets, Bool.and_eq_true, List.all_eq_true, List.any_eq_true]

/-- exit ⇒ the current partition has no empty block -/
theorem nonempty_of_equalSets {D : DFA σ τ} {VV : List (List σ)}
    (he : equalSets VV (refine D VV) = true) : ∀ B, B ∈ VV → B ≠ [] := by
  intro B hB hnil
  subst hnil
  obtain ⟨X, hX, hs⟩ := ((equalSets_iff _ _).mp he).1 [] hB
  have hXne := refine_nonempty X hX
  cases X with
  | nil => exact hXne rfl
  | cons x X =>
    have := (seq_iff.mp hs x).mpr List.mem_cons_self
    cases this

/-- exit ⇒ every block is stable -/
theorem stable_of_equalSets {D : DFA σ τ} {VV : List (List σ)}
    (he : equalSets VV (refine D VV) = true) :
    ∀ B, B ∈ VV → ∀ p, p ∈ B → ∀ q, q ∈ B → D.sameSig VV p q = true := by
  intro B hB p hp q hq
  obtain ⟨X, hX, hs⟩ := ((equalSets_iff _ _).mp he).1 B hB
  obtain ⟨V, hV, hXV⟩ := mem_refine.mp hX
  have hpX := (seq_iff.mp hs p).mp hp
  have hqX := (seq_iff.mp hs q).mp hq
  exact (splitBy_ok (sameSig_eqv D VV) V).same X hXV p hpX q hqX

/-- exit ⇒ the current partition is the Nerode partition -/
theorem nerode_of_equalSets {D : DFA σ τ} (hv : D.valid = true) {VV : List (List σ)} (h : QInv D VV)
    (he : equalSets VV (refine D VV) = true) : D.IsNerode VV := by
  have hne := nonempty_of_equalSets he
  have hst := stable_of_equalSets he
  have hP : D.IsPartition VV := ⟨hne, h.sub, h.cover, h.disj⟩
  have hC : D.IsCongr VV := by
    refine ⟨hP, ?_, ?_⟩
    · intro B hB p q hp hq
      exact h.fin B hB p hp q hq
    · intro B hB p q hp hq a ha
      exact h.blockOf_eq_of_sameSig hv (h.sub B hB p hp) (h.sub B hB q hq) (hst B hB p hp q hq) ha
  exact hC.isNerode hv (fun B C hB hC p q hp hq he => h.sep B hB C hC p hp q hq he)

/-! ### progress and the fuel bound -/

theorem length_le_sum_of_pos {α : Type} (l : List α) (f : α → Nat) (h : ∀ x, x ∈ l → 1 ≤ f x) :
    l.length ≤ (l.map f).sum := by
  induction l with
  | nil => simp
  | cons x l ih =>
    have h1 := h x List.mem_cons_self
    have h2 := ih (fun y hy => h y (List.mem_cons_of_mem _ hy))
    simp only [List.length_cons, List.map_cons, List.sum_cons]
    omega

theorem eq_one_of_sum_le {α : Type} (l : List α) (f : α → Nat) (h : ∀ x, x ∈ l → 1 ≤ f x)
    (hs : (l.map f).sum ≤ l.length) : ∀ x, x ∈ l → f x = 1 := by
  induction l with
  | nil => intro x hx; cases hx
  | cons y l ih =>
    have h1 := h y List.mem_cons_self
    have h2 := length_le_sum_of_pos l f (fun z hz => h z (List.mem_cons_of_mem _ hz))
    simp only [List.length_cons, List.map_cons, List.sum_cons] at hs
    intro x hx
    rcases List.mem_cons.mp hx with rfl | hx
    · omega
    · exact ih (fun z hz => h z (List.mem_cons_of_mem _ hz)) (by omega) x hx

theorem refine_length (D : DFA σ τ) (VV : List (List σ)) :
    (refine D VV).length = (VV.map (fun V => (splitBy (D.sameSig VV) V).length)).sum := by
  unfold refine
  rw [List.length_flatMap]
  simp only [splitBlock_eq]

/-- on a partition without empty blocks a round never loses blocks -/
theorem length_le_refine {D : DFA σ τ} {VV : List (List σ)} (hne : ∀ B, B ∈ VV → B ≠ []) :
    VV.length ≤ (refine D VV).length := by
  rw [refine_length]
  exact length_le_sum_of_pos VV _ (fun V hV => splitBy_length_pos (hne V hV))

/-- a non-final round on a partition without empty blocks strictly increases the number of blocks -/
theorem length_lt_refine {D : DFA σ τ} {VV : List (List σ)} (hne : ∀ B, B ∈ VV → B ≠ [])
    (he : equalSets VV (refine D VV) = false) : VV.length < (refine D VV).length := by
  apply Classical.byContradiction
  intro hlt
  have hle : (refine D VV).length ≤ VV.length := by omega
  rw [refine_length] at hle
  have hone := eq_one_of_sum_le VV _ (fun V hV => splitBy_length_pos (hne V hV)) hle
  have : equalSets VV (refine D VV) = true := by
    rw [equalSets_iff]
    constructor
    · intro V hV
      obtain ⟨W, hW, hWV⟩ := splitBy_length_one (hone V hV)
      refine ⟨W, mem_refine.mpr ⟨V, hV, by rw [hW]; exact List.mem_cons_self⟩, ?_⟩
      exact seq_iff.mpr (fun x => (hWV x).symm)
    · intro X hX
      obtain ⟨V, hV, hXV⟩ := mem_refine.mp hX
      obtain ⟨W, hW, hWV⟩ := splitBy_length_one (hone V hV)
      rw [hW, List.mem_singleton] at hXV
      subst hXV
      exact ⟨V, hV, seq_iff.mpr hWV⟩
  rw [this] at he
  cases he

/-- pigeonhole: pairwise disjoint non-empty sublists of `Q` -/
theorem length_le_of_disjoint (VV : List (List σ)) (Q : List σ) (hne : ∀ B, B ∈ VV → B ≠ [])
    (hsub : ∀ B, B ∈ VV → ∀ q, q ∈ B → q ∈ Q) (hpd : VV.Pairwise (fun B C => ∀ q, q ∈ B → q ∉ C)) :
    VV.length ≤ Q.length := by
  induction VV generalizing Q with
  | nil => simp
  | cons B VV ih =>
    rw [List.pairwise_cons] at hpd
    cases hB : B with
    | nil => exact absurd hB (hne B List.mem_cons_self)
    | cons b B' =>
      have hbB : b ∈ B := hB ▸ List.mem_cons_self
      have hbQ : b ∈ Q := hsub B List.mem_cons_self b hbB
      have := ih (Q.erase b) (fun C hC => hne C (List.mem_cons_of_mem _ hC))
        (fun C hC q hq => by
          have hqb : q ≠ b := by
            rintro rfl
            exact hpd.1 C hC q hbB hq
          exact (List.mem_erase_of_ne hqb).mpr (hsub C (List.mem_cons_of_mem _ hC) q hq))
        hpd.2
      rw [List.length_erase_of_mem hbQ] at this
      have hpos : 0 < Q.length := List.length_pos_of_mem hbQ
      simp only [List.length_cons]
      omega

theorem QInv.length_le {D : DFA σ τ} {VV : List (List σ)} (h : QInv D VV) (hne : ∀ B, B ∈ VV → B ≠ []) :
    VV.length ≤ D.Q.length :=
  length_le_of_disjoint VV D.Q hne h.sub h.pd

theorem quotientLoop_succ (D : DFA σ τ) (fuel : Nat) (VV : List (List σ)) :
    D.quotientLoop (fuel + 1) VV =
      if equalSets VV (refine D VV) then .ok VV else D.quotientLoop fuel (refine D VV) := rfl

/-- the loop from a partition without empty blocks -/
theorem quotientLoop_ok_of_nonempty {D : DFA σ τ} (hv : D.valid = true) (fuel : Nat) (VV : List (List σ))
    (h : QInv D VV) (hne : ∀ B, B ∈ VV → B ≠ []) (hf : D.Q.length + 1 ≤ VV.length + fuel) :
    ∃ R, D.quotientLoop fuel VV = .ok R ∧ D.IsNerode R := by
  induction fuel generalizing VV with
  | zero =>
    have := h.length_le hne
    omega
  | succ fuel ih =>
    rw [quotientLoop_succ]
    cases he : equalSets VV (refine D VV) with
    | true => exact ⟨VV, by simp, nerode_of_equalSets hv h he⟩
    | false =>
      have hlt := length_lt_refine hne he
      simp only [Bool.false_eq_true, if_false]
      exact ih (refine D VV) (h.refine hv) refine_nonempty (by omega)

/-- the loop from any partition satisfying the invariant (empty blocks allowed): fuel `|Q| + 2` suffices -/
theorem quotientLoop_ok {D : DFA σ τ} (hv : D.valid = true) (fuel : Nat) (VV : List (List σ))
    (h : QInv D VV) (hf : D.Q.length + 2 ≤ fuel) :
    ∃ R, D.quotientLoop fuel VV = .ok R ∧ D.IsNerode R := by
  cases fuel with
  | zero => omega
  | succ fuel =>
    rw [quotientLoop_succ]
    cases he : equalSets VV (refine D VV) with
    | true => exact ⟨VV, by simp, nerode_of_equalSets hv h he⟩
    | false =>
      simp only [Bool.false_eq_true, if_false]
      exact quotientLoop_ok_of_nonempty hv fuel (refine D VV) (h.refine hv) refine_nonempty (by omega)

/-- `dfa_quotient` succeeds and returns `ofBlocks` of the Nerode partition -/
theorem quotient_ok (D : DFA σ τ) (hv : D.valid = true) :
    ∃ R, D.quotient = .ok (D.ofBlocks R) ∧ D.IsNerode R := by
  obtain ⟨R, hR, hN⟩ := quotientLoop_ok hv (D.Q.length + 2) _ (QInv.init D hv) (Nat.le_refl _)
  refine ⟨R, ?_, hN⟩
  have hvR := (DFA.ofBlocks_nerode D hv R hN).1
  unfold DFA.quotient
  rw [hR]
  show DFA.checked (D.ofBlocks R) = _
  unfold DFA.checked
  rw [if_pos hvR]

end C04b
end Gamba
