/-
  Gamba.Proofs.C15c — helper lemmas for property C15 (PDA part): whatever `PDA.simulate` (`pda_simulate_word`)
  returns is a genuine accepting computation; `none` is returned exactly when `PDA.accepts` says no; and the
  simulation never fails when the reachable configurations form a finite universe smaller than the search fuel.
-/
import Gamba.Model.PDA
import Gamba.Model.Simulate
import Gamba.Spec.PDA
import Gamba.Spec.Trace
import Gamba.Proofs.Search
import Gamba.Proofs.C09
import Gamba.Proofs.C02pda
namespace Gamba

/-! ### generic list / chain lemmas -/
section Generic
variable {α β : Type}

/-- glue two chains that overlap in one element -/
theorem ChainOf.append_overlap {r : α → α → Prop} {l1 l2 : List α} {x : α}
    (h1 : ChainOf r (l1 ++ [x])) (h2 : ChainOf r (x :: l2)) : ChainOf r (l1 ++ x :: l2) := by
  induction l1 with
  | nil => exact h2
  | cons y l1 ih =>
    cases l1 with
    | nil => exact ChainOf.cons h1.rel h2
    | cons z l1 => exact ChainOf.cons h1.rel (ih h1.tail)

theorem C15c.eq_dropLast_append {l : List α} {x : α} (h : l.getLast? = some x) : l = l.dropLast ++ [x] :=
  C09.getLast?_eq_some h

/-- head of `path.dropLast.map g ++ g f :: rest` when `f` is the last element of `path` -/
theorem C15c.head_glue {g : α → β} {path : List α} {f : α} {rest : List β} (h : path.getLast? = some f) :
    (path.dropLast.map g ++ g f :: rest).head? = some (g (path.headD f)) := by
  have hp := C15c.eq_dropLast_append h
  cases hd : path.dropLast with
  | nil =>
    rw [hd] at hp
    rw [hp]
    rfl
  | cons y l =>
    rw [hd] at hp
    rw [hp]
    rfl

theorem C15c.getLast?_append_cons (l1 : List α) (x : α) (l2 : List α) :
    (l1 ++ x :: l2).getLast? = (x :: l2).getLast? := by
  rw [List.getLast?_append]
  cases h : (x :: l2).getLast? with
  | none => simp at h
  | some y => rfl

end Generic

section
variable {σ τ γ : Type} [DecidableEq σ] [DecidableEq τ] [DecidableEq γ]

/-! ### a valid trace is an accepting run -/

theorem PDA.run_of_chain (P : PDA σ τ γ) : ∀ (l : List (σ × List τ × List γ)) (x : σ × List τ × List γ)
    (f : σ) (st : List γ), ChainOf P.TraceStep (x :: l) → (x :: l).getLast? = some (f, [], st) →
    P.Run (x.1, x.2.2) x.2.1 (f, st) := by
  intro l
  induction l with
  | nil =>
    intro x f st _ hl
    simp only [List.getLast?_singleton, Option.some.injEq] at hl
    subst hl
    exact PDA.Run.nil _
  | cons y l ih =>
    intro x f st hc hl
    rw [List.getLast?_cons_cons] at hl
    have hr := ih y f st hc.tail hl
    rcases hc.rel with ⟨he, hm⟩ | ⟨a, he, ha, hm⟩
    · rw [he]
      exact PDA.Run.eps hm hr
    · rw [he]
      exact PDA.Run.sym ha hm hr

theorem PDA.ValidTrace.accepts {P : PDA σ τ γ} {w : List τ} {tr : List (σ × List τ × List γ)}
    (h : P.ValidTrace w tr) : P.Accepts w := by
  obtain ⟨hh, hc, f, st, hl, hf⟩ := h
  cases tr with
  | nil => cases hh
  | cons x l =>
    simp only [List.head?_cons, Option.some.injEq] at hh
    subst hh
    exact ⟨f, st, hf, P.run_of_chain l _ f st hc hl⟩

/-! ### unfolding `rebuild` -/

/-- the row of a configuration with unread input `word` -/
def PDA.row (word : List τ) (r : PConf σ γ) : σ × List τ × List γ := (r.1, word, r.2)

theorem PDA.rebuild_nil_of {P : PDA σ τ γ} {fuel : Nat} {s : Sched} {S : List (PConf σ γ)}
    {H : List (List (PConf σ γ))} {front : PConf σ γ} {word : List τ} {result : List (σ × List τ × List γ)}
    {path : List (PConf σ γ)} (hp : P.findEpsPath fuel s S front = .ok (some path)) :
    P.rebuild fuel s [] (S :: H) front word result = .ok (path.dropLast.map (PDA.row word) ++ result) := by
  simp only [PDA.rebuild, hp, bind, Except.bind, pure, Except.pure]
  rfl

theorem PDA.rebuild_nil_ok {P : PDA σ τ γ} {fuel : Nat} {s : Sched} {H : List (List (PConf σ γ))}
    {front : PConf σ γ} {word : List τ} {result tr : List (σ × List τ × List γ)}
    (h : P.rebuild fuel s [] H front word result = .ok tr) :
    ∃ S H' path, H = S :: H' ∧ P.findEpsPath fuel s S front = .ok (some path) ∧
      tr = path.dropLast.map (PDA.row word) ++ result := by
  cases H with
  | nil => simp [PDA.rebuild] at h
  | cons S H' =>
    cases hp : P.findEpsPath fuel s S front with
    | error e => simp [PDA.rebuild, hp, bind, Except.bind] at h
    | ok o =>
      cases o with
      | none => simp [PDA.rebuild, hp, bind, Except.bind] at h
      | some path =>
        rw [PDA.rebuild_nil_of hp] at h
        cases h
        exact ⟨S, H', path, rfl, hp, rfl⟩

theorem PDA.rebuild_cons_of {P : PDA σ τ γ} {fuel : Nat} {s : Sched} {a : τ} {rev : List τ}
    {S1 S2 : List (PConf σ γ)} {H' : List (List (PConf σ γ))} {front front2 : PConf σ γ} {word : List τ}
    {result : List (σ × List τ × List γ)} {path : List (PConf σ γ)}
    (hp : P.findEpsPath fuel s S1 front = .ok (some path))
    (ht : P.findTransition S2 a (path.headD front) = some front2) :
    P.rebuild fuel s (a :: rev) (S1 :: S2 :: H') front word result =
      P.rebuild fuel s rev H' front2 (a :: word)
        (PDA.row (a :: word) front2 :: (path.dropLast.map (PDA.row word) ++ result)) := by
  rw [PDA.rebuild]
  simp only [hp, bind, Except.bind, ht]
  rfl

theorem PDA.rebuild_cons_ok {P : PDA σ τ γ} {fuel : Nat} {s : Sched} {a : τ} {rev : List τ}
    {H : List (List (PConf σ γ))} {front : PConf σ γ} {word : List τ}
    {result tr : List (σ × List τ × List γ)}
    (h : P.rebuild fuel s (a :: rev) H front word result = .ok tr) :
    ∃ S1 S2 H' path front2, H = S1 :: S2 :: H' ∧ P.findEpsPath fuel s S1 front = .ok (some path) ∧
      P.findTransition S2 a (path.headD front) = some front2 ∧
      P.rebuild fuel s rev H' front2 (a :: word)
        (PDA.row (a :: word) front2 :: (path.dropLast.map (PDA.row word) ++ result)) = .ok tr := by
  cases H with
  | nil => simp [PDA.rebuild] at h
  | cons S1 H =>
    cases H with
    | nil => simp [PDA.rebuild] at h
    | cons S2 H' =>
      cases hp : P.findEpsPath fuel s S1 front with
      | error e => simp [PDA.rebuild, hp, bind, Except.bind] at h
      | ok o =>
        cases o with
        | none => simp [PDA.rebuild, hp, bind, Except.bind] at h
        | some path =>
          cases ht : P.findTransition S2 a (path.headD front) with
          | none =>
            rw [PDA.rebuild] at h
            simp only [hp, bind, Except.bind, ht] at h
            cases h
          | some front2 =>
            rw [PDA.rebuild_cons_of hp ht] at h
            exact ⟨S1, S2, H', path, front2, rfl, hp, ht, h⟩

/-! ### soundness of `rebuild` -/

/-- an ε-path lifted to rows with a fixed unread input -/
theorem PDA.chain_rows (P : PDA σ τ γ) (hk : (P.delta.map (·.1)).Nodup) (word : List τ)
    {path : List (PConf σ γ)} (hc : ChainOf (fun x y => y ∈ P.moves P.eps x) path) :
    ChainOf P.TraceStep (path.map (PDA.row word)) :=
  ChainOf.map _ hc (fun _ _ hab => Or.inl ⟨rfl, PDA.Move_of_mem_moves hk hab⟩)

/-- prepending the rows of a found ε-path (all but its last configuration) to a chain starting in `front` -/
theorem PDA.glue (P : PDA σ τ γ) (hk : (P.delta.map (·.1)).Nodup) {fuel : Nat} {s : Sched}
    {S : List (PConf σ γ)} {front : PConf σ γ} {path : List (PConf σ γ)} {word : List τ}
    {rest : List (σ × List τ × List γ)}
    (hp : P.findEpsPath fuel s S front = .ok (some path))
    (hc : ChainOf P.TraceStep (PDA.row word front :: rest)) :
    ChainOf P.TraceStep (path.dropLast.map (PDA.row word) ++ PDA.row word front :: rest) ∧
    (path.dropLast.map (PDA.row word) ++ PDA.row word front :: rest).head? =
      some (PDA.row word (path.headD front)) ∧
    path.headD front ∈ S := by
  obtain ⟨⟨r, hr, hrS⟩, hch, hl⟩ := findPath_sound _ _ _ _ _ _ hp
  refine ⟨?_, C15c.head_glue hl, ?_⟩
  · have h1 := P.chain_rows hk word hch
    rw [C15c.eq_dropLast_append hl, List.map_append] at h1
    exact ChainOf.append_overlap h1 hc
  · rw [List.headD_eq_head?_getD, hr]
    exact hrS

theorem PDA.rebuild_spec (P : PDA σ τ γ) (hk : (P.delta.map (·.1)).Nodup) (fuel : Nat) (s : Sched) :
    ∀ (rev : List τ) (H : List (List (PConf σ γ))) (front : PConf σ γ) (word : List τ)
      (rest tr : List (σ × List τ × List γ)),
      (∀ a, a ∈ rev → a ≠ P.eps) → H.length = 2 * rev.length + 1 →
      ChainOf P.TraceStep (PDA.row word front :: rest) →
      P.rebuild fuel s rev H front word (PDA.row word front :: rest) = .ok tr →
      ChainOf P.TraceStep tr ∧ (∃ pre, tr = pre ++ PDA.row word front :: rest) ∧
      ∃ S0 c0, H.getLast? = some S0 ∧ c0 ∈ S0 ∧ tr.head? = some (PDA.row (rev.reverse ++ word) c0) := by
  intro rev
  induction rev with
  | nil =>
    intro H front word rest tr _ hlen hc h
    obtain ⟨S, H', path, rfl, hp, rfl⟩ := PDA.rebuild_nil_ok h
    have : H' = [] := List.eq_nil_of_length_eq_zero (by simpa using hlen)
    subst this
    obtain ⟨g1, g2, g3⟩ := P.glue hk hp hc
    exact ⟨g1, ⟨_, rfl⟩, S, path.headD front, rfl, g3, g2⟩
  | cons a rev ih =>
    intro H front word rest tr ha hlen hc h
    obtain ⟨S1, S2, H', path, front2, rfl, hp, ht, h'⟩ := PDA.rebuild_cons_ok h
    obtain ⟨g1, g2, _⟩ := P.glue hk hp hc
    obtain ⟨l', hl'⟩ := List.head?_eq_some_iff.mp g2
    have hmv : path.headD front ∈ P.moves a front2 := by
      have := List.find?_some ht
      simpa using this
    have hstep : P.TraceStep (PDA.row (a :: word) front2) (PDA.row word (path.headD front)) :=
      Or.inr ⟨a, rfl, ha a List.mem_cons_self, PDA.Move_of_mem_moves hk hmv⟩
    have hc' : ChainOf P.TraceStep (PDA.row (a :: word) front2 ::
        (path.dropLast.map (PDA.row word) ++ PDA.row word front :: rest)) := by
      rw [hl'] at g1 ⊢
      exact ChainOf.cons hstep g1
    have hlen' : H'.length = 2 * rev.length + 1 := by
      simp only [List.length_cons] at hlen
      omega
    obtain ⟨i1, ⟨pre, hpre⟩, S0, c0, i3, i4, i5⟩ :=
      ih H' front2 (a :: word) _ tr (fun b hb => ha b (List.mem_cons_of_mem _ hb)) hlen' hc' h'
    refine ⟨i1, ⟨pre ++ PDA.row (a :: word) front2 :: path.dropLast.map (PDA.row word), ?_⟩, S0, c0, ?_, i4, ?_⟩
    · rw [hpre]
      simp
    · cases H' with
      | nil => simp at hlen'
      | cons X H'' =>
        rw [List.getLast?_cons_cons, List.getLast?_cons_cons]
        exact i3
    · rw [i5, List.reverse_cons, List.append_assoc]
      rfl

/-! ### the forward history -/

theorem PDA.history_eq (P : PDA σ τ γ) (limit : Nat) (s : Sched) :
    ∀ (w : List τ) (R : List (PConf σ γ)) (H0 : List (List (PConf σ γ))),
      ∃ pre, P.history limit s w R H0 = pre ++ H0 ∧ pre.length = 2 * w.length := by
  intro w
  induction w with
  | nil => intro R H0; exact ⟨[], rfl, rfl⟩
  | cons a w ih =>
    intro R H0
    obtain ⟨pre, h1, h2⟩ := ih (P.epsClosure limit s (P.doTransition a R)).1
      ((P.epsClosure limit s (P.doTransition a R)).1 :: P.doTransition a R :: H0)
    refine ⟨pre ++ [(P.epsClosure limit s (P.doTransition a R)).1, P.doTransition a R], ?_, ?_⟩
    · rw [PDA.history, h1]
      simp
    · simp only [List.length_append, List.length_cons, List.length_nil, h2]
      omega

/-- the head of the history is the configuration set computed by `runConfs` -/
theorem PDA.history_head (P : PDA σ τ γ) (limit : Nat) (s : Sched) :
    ∀ (w : List τ) (R : List (PConf σ γ)) (H0 : List (List (PConf σ γ))) (b : Bool),
      (P.history limit s w R (R :: H0)).head? = some (P.runConfs limit s (R, b) w).1 := by
  intro w
  induction w with
  | nil => intro R H0 b; rw [PDA.runConfs_nil]; rfl
  | cons a w ih =>
    intro R H0 b
    rw [PDA.history, PDA.runConfs_cons]
    exact ih _ _ _

/-! ### unfolding `simulate` -/

theorem PDA.simulate_some {P : PDA σ τ γ} {limit fuel : Nat} {s : Sched} {w : List τ}
    {tr : List (σ × List τ × List γ)} (h : P.simulate limit fuel s w = .ok (some tr)) :
    ∃ S H' front, P.history limit s w (P.epsClosure limit s [(P.q0, [])]).1
        [(P.epsClosure limit s [(P.q0, [])]).1, [(P.q0, [])]] = S :: H' ∧ front ∈ S ∧ front.1 ∈ P.F ∧
      P.rebuild fuel s w.reverse H' front [] [PDA.row [] front] = .ok tr := by
  unfold PDA.simulate at h
  simp only [bind, Except.bind, pure, Except.pure] at h
  cases hH : P.history limit s w (P.epsClosure limit s [(P.q0, [])]).1
      [(P.epsClosure limit s [(P.q0, [])]).1, [(P.q0, [])]] with
  | nil => rw [hH] at h; cases h
  | cons S H' =>
    rw [hH] at h
    simp only at h
    cases hp : pickAt (S.filter fun r => decide (r.1 ∈ P.F)) s.next.1 with
    | none => rw [hp] at h; cases h
    | some fr =>
      obtain ⟨front, rest⟩ := fr
      rw [hp] at h
      simp only at h
      have hm := pickAt_mem hp
      simp only [List.mem_filter, decide_eq_true_eq] at hm
      refine ⟨S, H', front, rfl, hm.1, hm.2, ?_⟩
      cases hr : P.rebuild fuel s w.reverse H' front [] [(front.1, [], front.2)] with
      | error e => rw [hr] at h; cases h
      | ok r =>
        rw [hr] at h
        cases h
        exact hr

theorem PDA.simulate_valid' (P : PDA σ τ γ) (hk : (P.delta.map (·.1)).Nodup)
    (limit fuel : Nat) (s : Sched) (w : List τ) (hw : ∀ a, a ∈ w → a ≠ P.eps)
    (tr : List (σ × List τ × List γ)) (h : P.simulate limit fuel s w = .ok (some tr)) :
    P.ValidTrace w tr := by
  obtain ⟨S, H', front, hH, hfS, hfF, hr⟩ := PDA.simulate_some h
  obtain ⟨pre, hpre, hlen⟩ := P.history_eq limit s w (P.epsClosure limit s [(P.q0, [])]).1
    [(P.epsClosure limit s [(P.q0, [])]).1, [(P.q0, [])]]
  rw [hH] at hpre
  -- `H'` has `2 |w| + 1` elements and ends with the initial set
  have hH' : H'.length = 2 * w.reverse.length + 1 ∧ H'.getLast? = some [(P.q0, [])] := by
    cases pre with
    | nil =>
      simp only [List.length_nil] at hlen
      simp only [List.nil_append, List.cons.injEq] at hpre
      obtain ⟨_, rfl⟩ := hpre
      have : w.length = 0 := by omega
      simp [this]
    | cons X pre' =>
      simp only [List.cons_append, List.cons.injEq] at hpre
      obtain ⟨_, rfl⟩ := hpre
      simp only [List.length_cons] at hlen
      refine ⟨?_, ?_⟩
      · simp only [List.length_append, List.length_cons, List.length_nil, List.length_reverse]
        omega
      · simp
  obtain ⟨c1, ⟨pre2, hpre2⟩, S0, c0, d1, d2, d3⟩ := P.rebuild_spec hk fuel s w.reverse H' front [] [] tr
    (fun a ha => hw a (List.mem_reverse.mp ha)) hH'.1 (ChainOf.single _) hr
  rw [hH'.2] at d1
  cases d1
  have := List.mem_singleton.mp d2
  subst this
  refine ⟨?_, c1, front.1, front.2, ?_, hfF⟩
  · rw [d3]
    simp [PDA.row]
  · rw [hpre2, C15c.getLast?_append_cons]
    rfl

theorem PDA.simulate_none_iff' (P : PDA σ τ γ) (limit fuel : Nat) (s : Sched) (w : List τ) :
    P.simulate limit fuel s w = .ok none ↔ P.accepts limit s w = false := by
  have hh := P.history_head limit s w (P.epsClosure limit s [(P.q0, [])]).1 [[(P.q0, [])]]
    (P.epsClosure limit s [(P.q0, [])]).2
  have hacc : P.accepts limit s w =
      (P.runConfs limit s ((P.epsClosure limit s [(P.q0, [])]).1, (P.epsClosure limit s [(P.q0, [])]).2) w).1.any
        fun c => decide (c.1 ∈ P.F) := by
    unfold PDA.accepts
    rw [PDA.acceptsT_eq]
  rw [hacc]
  unfold PDA.simulate
  simp only [bind, Except.bind, pure, Except.pure]
  cases hH : P.history limit s w (P.epsClosure limit s [(P.q0, [])]).1
      [(P.epsClosure limit s [(P.q0, [])]).1, [(P.q0, [])]] with
  | nil => rw [hH] at hh; cases hh
  | cons S H' =>
    rw [hH] at hh
    simp only [List.head?_cons, Option.some.injEq] at hh
    rw [← hh]
    simp only
    cases hp : pickAt (S.filter fun r => decide (r.1 ∈ P.F)) s.next.1 with
    | none =>
      have he := C09.pickAt_eq_none hp
      simp only [true_iff]
      rw [Bool.eq_false_iff]
      intro hany
      rw [List.any_eq_true] at hany
      obtain ⟨c, hc, hcF⟩ := hany
      have : c ∈ S.filter fun r => decide (r.1 ∈ P.F) := List.mem_filter.mpr ⟨hc, hcF⟩
      rw [he] at this
      cases this
    | some fr =>
      obtain ⟨front, rest⟩ := fr
      simp only
      have hm := pickAt_mem hp
      rw [List.mem_filter] at hm
      constructor
      · intro h
        cases hr : P.rebuild fuel s w.reverse H' front [] [(front.1, [], front.2)] with
        | error e => rw [hr] at h; cases h
        | ok r => rw [hr] at h; cases h
      · intro h
        have : (S.any fun c => decide (c.1 ∈ P.F)) = true := List.any_eq_true.mpr ⟨front, hm.1, hm.2⟩
        rw [this] at h
        cases h

/-! ### termination: the rebuild never fails when the reachable configurations fit in a finite universe -/

theorem PDA.reach_iff_epsReach (P : PDA σ τ γ) (hk : (P.delta.map (·.1)).Nodup) (R : List (PConf σ γ))
    (c : PConf σ γ) : Reach (P.moves P.eps) R c ↔ P.EpsReach R c := by
  constructor
  · intro h
    induction h with
    | base hm => exact .base hm
    | step _ hs ih => exact .step ih (PDA.Move_of_mem_moves hk hs)
  · intro h
    induction h with
    | base hm => exact .base hm
    | step _ hs ih => exact .step ih (PDA.mem_moves_of_Move hs)

/-- shape of the history below the top closed set: the raw set after the last transition, the closed set
    before it, …, down to the initial set -/
inductive PDA.HistOK (P : PDA σ τ γ) (limit : Nat) (s : Sched) : List τ → List (List (PConf σ γ)) → Prop
  | nil : PDA.HistOK P limit s [] [[(P.q0, [])]]
  | cons {a : τ} {rev : List τ} {S : List (PConf σ γ)} {H : List (List (PConf σ γ))} :
      PDA.HistOK P limit s rev (S :: H) →
      PDA.HistOK P limit s (a :: rev)
        (P.doTransition a (P.epsClosure limit s S).1 :: (P.epsClosure limit s S).1 :: S :: H)

/-- every configuration in a history set is reachable from the initial configuration -/
theorem PDA.HistOK.reach {P : PDA σ τ γ} (hk : (P.delta.map (·.1)).Nodup) {limit : Nat} {s : Sched}
    {rev : List τ} {H : List (List (PConf σ γ))} (h : P.HistOK limit s rev H) :
    (∀ a, a ∈ rev → a ≠ P.eps) → ∀ S, S ∈ H → ∀ r, r ∈ S → ∃ u, P.Run (P.q0, []) u r := by
  induction h with
  | nil =>
    intro _ S hS r hr
    have := List.mem_singleton.mp hS
    subst this
    have := List.mem_singleton.mp hr
    subst this
    exact ⟨[], .nil _⟩
  | @cons a rev S H _ ih =>
    intro ha
    have ih' := ih (fun b hb => ha b (List.mem_cons_of_mem _ hb))
    have hC : ∀ r, r ∈ (P.epsClosure limit s S).1 → ∃ u, P.Run (P.q0, []) u r := by
      intro r hr
      obtain ⟨c0, hc0, hrun⟩ := PDA.Run.of_epsReach (P.epsClosure_sound' hk limit s S r hr) (.nil r)
      obtain ⟨u, hu⟩ := ih' S List.mem_cons_self c0 hc0
      exact ⟨u ++ [], hu.append hrun⟩
    intro S' hS' r hr
    rcases List.mem_cons.mp hS' with rfl | hS'
    · obtain ⟨c0, hc0, hm⟩ := PDA.mem_doTransition.mp hr
      obtain ⟨u, hu⟩ := hC c0 hc0
      exact ⟨u ++ [a], PDA.Run.snoc (ha a List.mem_cons_self) hu (PDA.Move_of_mem_moves hk hm) (.nil r)⟩
    · rcases List.mem_cons.mp hS' with rfl | hS'
      · exact hC r hr
      · exact ih' S' hS' r hr

/-- a target in the (possibly truncated) closure of a reachable set is found by the path search -/
theorem PDA.findEpsPath_complete (P : PDA σ τ γ) (hk : (P.delta.map (·.1)).Nodup) (limit fuel : Nat) (s : Sched)
    (U : List (PConf σ γ))
    (hU : ∀ R c, (∀ r, r ∈ R → ∃ u, P.Run (P.q0, []) u r) → P.EpsReach R c → c ∈ U)
    (hf : U.length + 1 ≤ fuel) (S : List (PConf σ γ)) (hS : ∀ r, r ∈ S → ∃ u, P.Run (P.q0, []) u r)
    (front : PConf σ γ) (hfr : front ∈ (P.epsClosure limit s S).1) :
    ∃ path, P.findEpsPath fuel s S front = .ok (some path) := by
  obtain ⟨p, hp, _⟩ := findPath_complete (P.moves P.eps) s S front U
    (fun x hx => hU S x hS ((P.reach_iff_epsReach hk S x).mp hx)) fuel hf
    ((P.reach_iff_epsReach hk S front).mpr (P.epsClosure_sound' hk limit s S front hfr))
  exact ⟨p, hp⟩

theorem PDA.rebuild_total (P : PDA σ τ γ) (hk : (P.delta.map (·.1)).Nodup) (limit fuel : Nat) (s : Sched)
    (U : List (PConf σ γ))
    (hU : ∀ R c, (∀ r, r ∈ R → ∃ u, P.Run (P.q0, []) u r) → P.EpsReach R c → c ∈ U)
    (hf : U.length + 1 ≤ fuel) {rev : List τ} {H : List (List (PConf σ γ))} (h : P.HistOK limit s rev H) :
    (∀ a, a ∈ rev → a ≠ P.eps) → ∀ (front : PConf σ γ) (word : List τ) (result : List (σ × List τ × List γ)),
      (∃ S, H.head? = some S ∧ front ∈ (P.epsClosure limit s S).1) →
      ∃ tr, P.rebuild fuel s rev H front word result = .ok tr := by
  induction h with
  | nil =>
    intro _ front word result hfr
    obtain ⟨S, hS, hfr⟩ := hfr
    simp only [List.head?_cons, Option.some.injEq] at hS
    subst hS
    obtain ⟨path, hp⟩ := P.findEpsPath_complete hk limit fuel s U hU hf [(P.q0, [])]
      (fun r hr => by
        have := List.mem_singleton.mp hr
        subst this
        exact ⟨[], .nil _⟩) front hfr
    exact ⟨_, PDA.rebuild_nil_of hp⟩
  | @cons a rev S H hH ih =>
    intro ha front word result hfr
    obtain ⟨D, hD, hfr⟩ := hfr
    simp only [List.head?_cons, Option.some.injEq] at hD
    subst hD
    have hreach := (PDA.HistOK.cons (a := a) hH).reach hk ha
    obtain ⟨path, hp⟩ := P.findEpsPath_complete hk limit fuel s U hU hf _
      (hreach _ List.mem_cons_self) front hfr
    obtain ⟨⟨r, hr, hrD⟩, _, _⟩ := findPath_sound _ _ _ _ _ _ hp
    have hhd : path.headD front = r := by rw [List.headD_eq_head?_getD, hr]; rfl
    obtain ⟨c0, hc0, hm⟩ := PDA.mem_doTransition.mp hrD
    cases ht : P.findTransition (P.epsClosure limit s S).1 a (path.headD front) with
    | none =>
      have := List.find?_eq_none.mp ht c0 hc0
      rw [hhd] at this
      simp only [decide_eq_true_eq] at this
      exact absurd hm this
    | some front2 =>
      have hf2 : front2 ∈ (P.epsClosure limit s S).1 := List.mem_of_find?_eq_some ht
      rw [PDA.rebuild_cons_of hp ht]
      exact ih (fun b hb => ha b (List.mem_cons_of_mem _ hb)) front2 _ _ ⟨S, rfl, hf2⟩

theorem PDA.history_ok (P : PDA σ τ γ) (limit : Nat) (s : Sched) :
    ∀ (w rev0 : List τ) (S0 : List (PConf σ γ)) (H0 : List (List (PConf σ γ))),
      P.HistOK limit s rev0 (S0 :: H0) →
      ∃ Sn Hn, P.history limit s w (P.epsClosure limit s S0).1 ((P.epsClosure limit s S0).1 :: S0 :: H0) =
          (P.epsClosure limit s Sn).1 :: Sn :: Hn ∧ P.HistOK limit s (w.reverse ++ rev0) (Sn :: Hn) := by
  intro w
  induction w with
  | nil => intro rev0 S0 H0 h; exact ⟨S0, H0, rfl, h⟩
  | cons a w ih =>
    intro rev0 S0 H0 h
    obtain ⟨Sn, Hn, h1, h2⟩ := ih (a :: rev0) _ _ (PDA.HistOK.cons (a := a) h)
    refine ⟨Sn, Hn, ?_, ?_⟩
    · rw [PDA.history]
      exact h1
    · rw [List.reverse_cons, List.append_assoc]
      exact h2

theorem PDA.simulate_total (P : PDA σ τ γ) (hk : (P.delta.map (·.1)).Nodup) (limit fuel : Nat) (s : Sched)
    (w : List τ) (hw : ∀ a, a ∈ w → a ≠ P.eps) (U : List (PConf σ γ))
    (hU : ∀ R c, (∀ r, r ∈ R → ∃ u, P.Run (P.q0, []) u r) → P.EpsReach R c → c ∈ U)
    (hf : U.length + 1 ≤ fuel) : ∃ r, P.simulate limit fuel s w = .ok r := by
  obtain ⟨Sn, Hn, h1, h2⟩ := P.history_ok limit s w [] [(P.q0, [])] [] PDA.HistOK.nil
  rw [List.append_nil] at h2
  unfold PDA.simulate
  simp only [bind, Except.bind, pure, Except.pure]
  rw [h1]
  simp only
  cases hp : pickAt ((P.epsClosure limit s Sn).1.filter fun r => decide (r.1 ∈ P.F)) s.next.1 with
  | none => exact ⟨none, rfl⟩
  | some fr =>
    obtain ⟨front, rest⟩ := fr
    simp only
    have hm := pickAt_mem hp
    rw [List.mem_filter] at hm
    obtain ⟨tr, htr⟩ := P.rebuild_total hk limit fuel s U hU hf h2
      (fun a ha => hw a (List.mem_reverse.mp ha)) front [] [(front.1, [], front.2)] ⟨Sn, rfl, hm.1⟩
    rw [htr]
    exact ⟨some tr, rfl⟩

/-! ### a criterion for the finite-universe hypothesis, and a concrete PDA satisfying it -/

theorem PDA.moves_sym_mem {P : PDA σ τ γ} {a : τ} {c c' : PConf σ γ} (h : c' ∈ P.moves a c) :
    a ∈ P.delta.map (·.1.2.1) := by
  obtain ⟨e, he, _, h2, _⟩ := PDA.mem_moves.mp h
  exact List.mem_map.mpr ⟨e, he, h2⟩

/-- if `U` contains the initial configuration and is closed under all moves (over the symbols occurring in δ),
    it contains every reachable configuration — in the shape required by `pda_simulate_terminates_partial` -/
theorem PDA.universe_of_closed (P : PDA σ τ γ) (U : List (PConf σ γ)) (h0 : (P.q0, []) ∈ U)
    (hcl : ∀ c, c ∈ U → ∀ a, a ∈ P.delta.map (·.1.2.1) → ∀ c', c' ∈ P.moves a c → c' ∈ U) :
    ∀ R c, (∀ r, r ∈ R → ∃ u, P.Run (P.q0, []) u r) → P.EpsReach R c → c ∈ U := by
  have hmove : ∀ a c c', c ∈ U → P.Move a c c' → c' ∈ U := by
    intro a c c' hc hm
    have hm' := PDA.mem_moves_of_Move hm
    exact hcl c hc a (PDA.moves_sym_mem hm') c' hm'
  have hrun : ∀ c u r, P.Run c u r → c ∈ U → r ∈ U := by
    intro c u r h
    induction h with
    | nil => exact id
    | eps hm _ ih => exact fun hc => ih (hmove _ _ _ hc hm)
    | sym _ hm _ ih => exact fun hc => ih (hmove _ _ _ hc hm)
  intro R c hR h
  induction h with
  | base hm =>
    obtain ⟨u, hu⟩ := hR _ hm
    exact hrun _ _ _ hu h0
  | step _ hs ih => exact hmove _ _ _ ih hs

end

/-- `{ab}` with a bounded stack: only five configurations are reachable -/
def C15c.exFin : PDA String String String :=
  { Q := ["s", "t", "p", "q", "f"], Sigma := ["a", "b"], Gamma := ["$", "A"],
    delta := [(("s", "eps", "eps"), [("t", "$")]),
              (("t", "a", "eps"), [("p", "A")]),
              (("p", "b", "A"), [("q", "eps")]),
              (("q", "eps", "$"), [("f", "eps")])],
    q0 := "s", F := ["f"], eps := "eps", epsG := "eps" }

def C15c.exFinU : List (PConf String String) :=
  [("s", []), ("t", ["$"]), ("p", ["$", "A"]), ("q", ["$"]), ("f", [])]

theorem C15c.exFin_universe : ∀ R c, (∀ r, r ∈ R → ∃ u, C15c.exFin.Run (C15c.exFin.q0, []) u r) →
    C15c.exFin.EpsReach R c → c ∈ C15c.exFinU :=
  PDA.universe_of_closed C15c.exFin C15c.exFinU (by decide) (by decide)

end Gamba
