/-
  Gamba.Proofs.C12h — helper lemmas for `Gamba.Model.CheckAll` (the language checkers for every formalism,
  `check_number_of_nfa_states`, `check_cfg_accepts`, `check_cfg_rejects`): the semantic membership predicate
  `CheckAll.Sem`, the unpacking of `langOfText`, the verdicts as Boolean facts, and the `mapM` facts behind the two
  grammar checkers.
-/
import Gamba.Model.CheckAll
import Gamba.Props.C12g
import Gamba.Props.C02pda
import Gamba.Props.C11
import Gamba.Props.C16a
import Gamba.Proofs.C18
namespace Gamba
open Parse

/-! ### 0. vocabulary: the semantic language of a text of a given kind, up to a length bound -/

namespace CheckAll

/-- "the text parses as kind `k`, `w` has length ≤ `len`, and the parsed object accepts / generates / matches `w`".
    DFA, NFA, PDA: the Spec-level acceptance predicates (`DFA.Accepts`, `NFA.Accepts`, `PDA.Accepts`: acceptance by final
    state); regular expression: `Regexp.Lang`; grammar: `CFG.Lang`; TM: `w` is over the input alphabet and the machine
    halts in its accepting state within `e.tmBudget` steps (`TM.accepts w budget = some true`, which `tm_accepts_true_iff`
    of C11 characterises by `TM.HaltsAt`).  The alphabet clause is needed for TMs only: a valid DFA / NFA / PDA accepts
    no word with a foreign symbol, a TM may. -/
def Sem (k : Kind) (text : String) (e : Env) (len : Nat) (w : List String) : Prop :=
  match k with
  | .dfa => ∃ A, parseDfa text.toList = .ok A ∧ w.length ≤ len ∧ A.Accepts w
  | .nfa => ∃ A, parseNfa text.toList = .ok A ∧ w.length ≤ len ∧ A.Accepts w
  | .pda => ∃ P, parsePda text.toList = .ok P ∧ w.length ≤ len ∧ P.Accepts w
  | .tm => ∃ T, parseTm text.toList = .ok T ∧ w.length ≤ len ∧ (∀ a, a ∈ w → a ∈ T.Sigma) ∧
      T.accepts w e.tmBudget = some true
  | .cfg => ∃ G eps, CfgText.parseSimpleCfg text.toList = .ok (G, eps) ∧ w.length ≤ len ∧ G.Lang w
  | .regexp => ∃ r, RegexpText.parseSimple text = some r ∧ w.length ≤ len ∧ r.Lang w

/-- the side condition under which `cfg_words_up_to_n` is exact for the parsed grammar (the one `cfg_words_exact`,
    `cfgLanguageWords_text_sound`, `chomsky_text_lang` carry): the grammar is in Chomsky normal form, or none of its
    terminals is a variable name (or the fresh start variable) -/
def CfgSide (text : String) : Prop :=
  ∀ G eps, CfgText.parseSimpleCfg text.toList = .ok (G, eps) →
    G.isChomsky = true ∨ ∀ a, a ∈ G.Sigma → a ∉ G.V ∧ a ≠ CFG.freshVariable G.V "S"

/-- no ε-closure of the PDA enumeration up to `len` was truncated by the iteration limit -/
def PdaUntruncated (text : String) (e : Env) (len : Nat) : Prop :=
  ∀ P, parsePda text.toList = .ok P → (P.wordsUpTo e.pdaLimit e.sched len).2 = false

/-- the condition under which the enumeration of kind `k` is exact: none for DFA, NFA, TM, regular expression -/
def Exact (k : Kind) (text : String) (e : Env) (len : Nat) : Prop :=
  match k with
  | .pda => PdaUntruncated text e len
  | .cfg => CfgSide text
  | _ => True

end CheckAll

namespace C12h
open CheckText CheckAll

/-! ### 4. agreement with the kind-specific models -/

theorem languageWords_dfa_eq (a ws : String) (e : Env) (len m : Nat) :
    languageWords .dfa a ws e len m = dfaLanguageWords a ws len m := by
  unfold languageWords langOfText dfaLanguageWords
  cases parseDfa a.toList <;> rfl

theorem languageWords_nfa_eq (a ws : String) (e : Env) (len m : Nat) :
    languageWords .nfa a ws e len m = nfaLanguageWords a ws e.sched len m := by
  unfold languageWords langOfText nfaLanguageWords
  cases parseNfa a.toList with
  | error _ => rfl
  | ok A => cases hL : A.wordsUpTo e.sched len <;> simp only [hL]

theorem maxStatesOk_zero (m : Nat) : Check.maxStatesOk 0 m = true := by
  unfold Check.maxStatesOk
  simp

theorem languageWords_cfg_eq_any (a ws : String) (e : Env) (len m : Nat) :
    languageWords .cfg a ws e len m = cfgLanguageWords a ws len := by
  unfold languageWords langOfText cfgLanguageWords
  cases CfgText.parseSimpleCfg a.toList with
  | error _ => rfl
  | ok Ge =>
    obtain ⟨G, eps⟩ := Ge
    show ofBool (Check.languageFromWords 0 m _ _) = ofBool (Check.equalLanguages _ _)
    unfold Check.languageFromWords Check.equalLanguages
    rw [maxStatesOk_zero, Bool.true_and]

theorem languageFile_dfa_dfa_eq (a r : String) (e : Env) (len : Nat) :
    languageFile .dfa .dfa a r e len = dfaLanguageFile a r len := by
  unfold languageFile langOfText dfaLanguageFile
  cases parseDfa a.toList <;> cases parseDfa r.toList <;> rfl

theorem languageFile_nfa_nfa_eq (a r : String) (e : Env) (len : Nat) :
    languageFile .nfa .nfa a r e len = nfaLanguageFile a r e.sched len := by
  unfold languageFile langOfText nfaLanguageFile
  cases parseNfa a.toList with
  | error _ =>
    cases parseNfa r.toList with
    | error _ => rfl
    | ok N => cases N.wordsUpTo e.sched len <;> rfl
  | ok A =>
    cases parseNfa r.toList with
    | error _ => cases hL : A.wordsUpTo e.sched len <;> simp only [hL]
    | ok N =>
      cases hL : A.wordsUpTo e.sched len <;> cases hL' : N.wordsUpTo e.sched len <;> simp only [hL, hL']

theorem languageWordsLangs_dfa_eq (a ws : String) (e : Env) (len : Nat) :
    languageWordsLangs .dfa a ws e len = CheckCex.dfaLanguageWordsLangs a ws len := by
  unfold languageWordsLangs langOfText CheckCex.dfaLanguageWordsLangs
  cases parseDfa a.toList <;> rfl

theorem languageWordsLangs_nfa_eq (a ws : String) (e : Env) (len : Nat) :
    languageWordsLangs .nfa a ws e len = CheckCex.nfaLanguageWordsLangs a ws e.sched len := by
  unfold languageWordsLangs langOfText CheckCex.nfaLanguageWordsLangs
  cases parseNfa a.toList with
  | error _ => rfl
  | ok A => cases hL : A.wordsUpTo e.sched len <;> simp only [hL]

theorem languageWordsLangs_cfg_eq (a ws : String) (e : Env) (len : Nat) :
    languageWordsLangs .cfg a ws e len = CheckCex.cfgLanguageWordsLangs a ws len := by
  unfold languageWordsLangs langOfText CheckCex.cfgLanguageWordsLangs
  cases CfgText.parseSimpleCfg a.toList with
  | error _ => rfl
  | ok Ge => obtain ⟨G, eps⟩ := Ge; rfl

theorem languageFileLangs_dfa_dfa_eq (a r : String) (e : Env) (len : Nat) :
    languageFileLangs .dfa .dfa a r e len = CheckCex.dfaLanguageFileLangs a r len := by
  unfold languageFileLangs langOfText CheckCex.dfaLanguageFileLangs
  cases parseDfa a.toList <;> cases parseDfa r.toList <;> rfl

theorem languageFileLangs_nfa_nfa_eq (a r : String) (e : Env) (len : Nat) :
    languageFileLangs .nfa .nfa a r e len = CheckCex.nfaLanguageFileLangs a r e.sched len := by
  unfold languageFileLangs langOfText CheckCex.nfaLanguageFileLangs
  cases parseNfa a.toList with
  | error _ =>
    cases parseNfa r.toList with
    | error _ => rfl
    | ok N => cases N.wordsUpTo e.sched len <;> rfl
  | ok A =>
    cases parseNfa r.toList with
    | error _ => cases hL : A.wordsUpTo e.sched len <;> simp only [hL]
    | ok N =>
      cases hL : A.wordsUpTo e.sched len <;> cases hL' : N.wordsUpTo e.sched len <;> simp only [hL, hL']

/-! ### 6. `check_number_of_nfa_states` -/

theorem numberOfNfaStates_ok_iff (nfa : String) (count : Nat) :
    numberOfNfaStates nfa count = .ok ↔ ∃ N, parseNfa nfa.toList = .ok N ∧ (dedup N.Q).length = count := by
  unfold numberOfNfaStates
  cases h : parseNfa nfa.toList with
  | error e =>
    constructor
    · intro h'; cases h'
    · rintro ⟨N, hN, _⟩; cases hN
  | ok N =>
    show ofBool _ = .ok ↔ _
    rw [C12c.ofBool_ok_iff, decide_eq_true_eq]
    constructor
    · intro hc; exact ⟨N, rfl, hc⟩
    · rintro ⟨N', hN', hc⟩; cases hN'; exact hc

theorem numberOfNfaStates_error_iff (nfa : String) (count : Nat) :
    numberOfNfaStates nfa count = .error ↔ ∃ e, parseNfa nfa.toList = .error e := by
  unfold numberOfNfaStates
  cases h : parseNfa nfa.toList with
  | error e => exact ⟨fun _ => ⟨e, rfl⟩, fun _ => rfl⟩
  | ok N =>
    show ofBool _ = .error ↔ _
    constructor
    · intro hc; exact absurd hc (C12f.ofBool_error _)
    · rintro ⟨e, he⟩; cases he

theorem numberOfNfaStates_feedback_iff (nfa : String) (count : Nat) :
    numberOfNfaStates nfa count = .feedback ↔ ∃ N, parseNfa nfa.toList = .ok N ∧ (dedup N.Q).length ≠ count := by
  unfold numberOfNfaStates
  cases h : parseNfa nfa.toList with
  | error e =>
    constructor
    · intro h'; cases h'
    · rintro ⟨N, hN, _⟩; cases hN
  | ok N =>
    show ofBool _ = .feedback ↔ _
    rw [C12f.ofBool_feedback_iff, decide_eq_false_iff_not]
    constructor
    · intro hc; exact ⟨N, rfl, hc⟩
    · rintro ⟨N', hN', hc⟩; cases hN'; exact hc

/-! ### 7. `check_cfg_accepts`, `check_cfg_rejects` -/

section
variable {α ε : Type}

/-- `mapM` of a test that tags its verdict with its argument: the result lists every argument, each with its verdict -/
theorem mapM_tag_spec {f : α → Except ε Bool} {l : List α} {r : List (α × Bool)}
    (h : l.mapM (fun w => (f w).map fun b => (w, b)) = .ok r) :
    (∀ w, w ∈ l → ∃ b, (w, b) ∈ r) ∧ ∀ p, p ∈ r → p.1 ∈ l ∧ f p.1 = .ok p.2 := by
  induction l generalizing r with
  | nil =>
    rw [List.mapM_nil] at h
    cases h
    exact ⟨fun w hw => (nomatch hw), fun p hp => (nomatch hp)⟩
  | cons x l ih =>
    cases hx : f x with
    | error e =>
      rw [C12e.mapM_cons_error (e := e) (by simp only [hx]; rfl)] at h
      cases h
    | ok b0 =>
      rw [C12e.mapM_cons_ok (b := (x, b0)) (by simp only [hx]; rfl)] at h
      cases hl : l.mapM (fun w => (f w).map fun b => (w, b)) with
      | error e => rw [hl] at h; cases h
      | ok r' =>
        rw [hl] at h
        cases h
        obtain ⟨i1, i2⟩ := ih hl
        refine ⟨fun w hw => ?_, fun p hp => ?_⟩
        · rcases List.mem_cons.mp hw with rfl | hw
          · exact ⟨b0, List.mem_cons_self⟩
          · obtain ⟨b, hb⟩ := i1 w hw
            exact ⟨b, List.mem_cons_of_mem _ hb⟩
        · rcases List.mem_cons.mp hp with rfl | hp
          · exact ⟨List.mem_cons_self, hx⟩
          · exact ⟨List.mem_cons_of_mem _ (i2 p hp).1, (i2 p hp).2⟩

theorem mapM_tag_ok_of_forall {f : α → Except ε Bool} {l : List α} (h : ∀ w, w ∈ l → ∃ b, f w = .ok b) :
    ∃ r, l.mapM (fun w => (f w).map fun b => (w, b)) = .ok r := by
  refine C12e.mapM_ok_of_forall fun w hw => ?_
  obtain ⟨b, hb⟩ := h w hw
  exact ⟨(w, b), by simp only [hb]; rfl⟩

theorem mapM_tag_error {f : α → Except ε Bool} {l : List α} {e : ε}
    (h : l.mapM (fun w => (f w).map fun b => (w, b)) = .error e) : ∃ w, w ∈ l ∧ ∃ e', f w = .error e' := by
  obtain ⟨w, hw, e', he'⟩ := C12e.mapM_error_iff.mp ⟨e, h⟩
  refine ⟨w, hw, ?_⟩
  cases hf : f w with
  | error e'' => exact ⟨e'', rfl⟩
  | ok b => simp only [hf] at he'; cases he'

end

/-- the common core of the two checkers: the listed words whose verdict is `pol` -/
def failuresOf (r : List (List String × Bool)) (pol : Bool) : List (List String) :=
  (r.filter fun p => p.2 == pol).map (·.1)

theorem mem_failuresOf {r : List (List String × Bool)} {pol : Bool} {w : List String} :
    w ∈ failuresOf r pol ↔ (w, pol) ∈ r := by
  unfold failuresOf
  simp only [List.mem_map, List.mem_filter, beq_iff_eq]
  constructor
  · rintro ⟨p, ⟨hp, hb⟩, rfl⟩
    obtain ⟨w, b⟩ := p
    cases hb
    exact hp
  · intro h; exact ⟨(w, pol), ⟨h, rfl⟩, rfl⟩

/-- the two checkers at once: `pol = false` for `check_cfg_accepts` (the failures are the rejected words), `pol = true` for
    `check_cfg_rejects` -/
def cfgCheck (pol : Bool) (cfg ws : String) : Verdict × List (List String) :=
  match CfgText.parseSimpleCfg cfg.toList with
  | .ok (G, _) =>
    match (parseWordList ws).mapM (fun w => (G.accepts w).map fun b => (w, b)) with
    | .ok r => (ofBool (failuresOf r pol).isEmpty, failuresOf r pol)
    | .error _ => (.error, [])
  | .error _ => (.error, [])

theorem cfgCheck_cases (pol : Bool) (cfg ws : String) :
    (∃ e, CfgText.parseSimpleCfg cfg.toList = .error e ∧ cfgCheck pol cfg ws = (.error, [])) ∨
    ∃ G eps, CfgText.parseSimpleCfg cfg.toList = .ok (G, eps) ∧
      ((∃ e, (parseWordList ws).mapM (fun w => (G.accepts w).map fun b => (w, b)) = .error e ∧
          cfgCheck pol cfg ws = (.error, [])) ∨
       ∃ r, (parseWordList ws).mapM (fun w => (G.accepts w).map fun b => (w, b)) = .ok r ∧
          cfgCheck pol cfg ws = (ofBool (failuresOf r pol).isEmpty, failuresOf r pol)) := by
  unfold cfgCheck
  cases hp : CfgText.parseSimpleCfg cfg.toList with
  | error e => exact Or.inl ⟨e, rfl, rfl⟩
  | ok Ge =>
    obtain ⟨G, eps⟩ := Ge
    refine Or.inr ⟨G, eps, rfl, ?_⟩
    cases hm : (parseWordList ws).mapM (fun w => (G.accepts w).map fun b => (w, b)) with
    | error e => exact Or.inl ⟨e, rfl, by simp only [hm]⟩
    | ok r => exact Or.inr ⟨r, rfl, by simp only [hm]⟩

theorem cfgAccepts_eq_check (cfg ws : String) : cfgAccepts cfg ws = cfgCheck false cfg ws := by
  unfold cfgAccepts cfgCheck
  cases CfgText.parseSimpleCfg cfg.toList with
  | error e => rfl
  | ok Ge =>
    obtain ⟨G, eps⟩ := Ge
    cases hm : (parseWordList ws).mapM (fun w => (G.accepts w).map fun b => (w, b)) with
    | error e => simp only [hm]
    | ok r =>
      simp only [hm, failuresOf]
      have e : (fun p : List String × Bool => !p.2) = fun p => p.2 == false := by
        funext p; cases p.2 <;> rfl
      rw [e]

theorem cfgRejects_eq_check (cfg ws : String) : cfgRejects cfg ws = cfgCheck true cfg ws := by
  unfold cfgRejects cfgCheck
  cases CfgText.parseSimpleCfg cfg.toList with
  | error e => rfl
  | ok Ge =>
    obtain ⟨G, eps⟩ := Ge
    cases hm : (parseWordList ws).mapM (fun w => (G.accepts w).map fun b => (w, b)) with
    | error e => simp only [hm]
    | ok r =>
      simp only [hm, failuresOf]
      have e : (fun p : List String × Bool => p.2) = fun p => p.2 == true := by
        funext p; cases p.2 <;> rfl
      rw [e]

theorem cfgCheck_ok_iff (pol : Bool) (cfg ws : String) :
    (cfgCheck pol cfg ws).1 = .ok ↔ ∃ G eps, CfgText.parseSimpleCfg cfg.toList = .ok (G, eps) ∧
      ∀ w, w ∈ parseWordList ws → G.accepts w = .ok (!pol) := by
  rcases cfgCheck_cases pol cfg ws with ⟨e, hp, hv⟩ | ⟨G, eps, hp, ⟨e, hm, hv⟩ | ⟨r, hm, hv⟩⟩
  · rw [hv]
    constructor
    · intro h; cases h
    · rintro ⟨G, eps, h, _⟩; rw [hp] at h; cases h
  · rw [hv]
    obtain ⟨w, hw, e', he'⟩ := mapM_tag_error hm
    constructor
    · intro h; cases h
    · rintro ⟨G', eps', h, hall⟩
      rw [hp] at h
      cases h
      rw [hall w hw] at he'
      cases he'
  · rw [hv]
    obtain ⟨i1, i2⟩ := mapM_tag_spec hm
    show ofBool _ = .ok ↔ _
    rw [C12c.ofBool_ok_iff, List.isEmpty_iff]
    constructor
    · intro hemp
      refine ⟨G, eps, hp, fun w hw => ?_⟩
      obtain ⟨b, hb⟩ := i1 w hw
      have hf := (i2 _ hb).2
      have hne : b ≠ pol := by
        rintro rfl
        have : w ∈ failuresOf r b := mem_failuresOf.mpr hb
        rw [hemp] at this
        cases this
      have : b = !pol := by cases b <;> cases pol <;> simp_all
      rw [← this]
      exact hf
    · rintro ⟨G', eps', h, hall⟩
      rw [hp] at h
      cases h
      apply List.eq_nil_iff_forall_not_mem.mpr
      intro w hw
      have hb := mem_failuresOf.mp hw
      obtain ⟨hl, hf⟩ := i2 _ hb
      rw [hall w hl] at hf
      cases pol <;> cases hf

theorem cfgCheck_failures_iff (pol : Bool) (cfg ws : String) (w : List String) :
    w ∈ (cfgCheck pol cfg ws).2 ↔ (cfgCheck pol cfg ws).1 ≠ .error ∧
      ∃ G eps, CfgText.parseSimpleCfg cfg.toList = .ok (G, eps) ∧ w ∈ parseWordList ws ∧ G.accepts w = .ok pol := by
  rcases cfgCheck_cases pol cfg ws with ⟨e, hp, hv⟩ | ⟨G, eps, hp, ⟨e, hm, hv⟩ | ⟨r, hm, hv⟩⟩
  · rw [hv]
    constructor
    · intro h; cases h
    · rintro ⟨h, _⟩; exact absurd rfl h
  · rw [hv]
    constructor
    · intro h; cases h
    · rintro ⟨h, _⟩; exact absurd rfl h
  · rw [hv]
    obtain ⟨i1, i2⟩ := mapM_tag_spec hm
    show w ∈ failuresOf r pol ↔ ofBool _ ≠ .error ∧ _
    rw [mem_failuresOf]
    constructor
    · intro hb
      exact ⟨C12f.ofBool_error _, G, eps, hp, (i2 _ hb).1, (i2 _ hb).2⟩
    · rintro ⟨_, G', eps', h, hl, hf⟩
      rw [hp] at h
      cases h
      obtain ⟨b, hb⟩ := i1 w hl
      have := (i2 _ hb).2
      rw [hf] at this
      cases this
      exact hb

theorem cfgCheck_error_iff (pol : Bool) (cfg ws : String) :
    (cfgCheck pol cfg ws).1 = .error ↔ (∃ e, CfgText.parseSimpleCfg cfg.toList = .error e) ∨
      ∃ G eps, CfgText.parseSimpleCfg cfg.toList = .ok (G, eps) ∧ ∃ w, w ∈ parseWordList ws ∧ ∃ e, G.accepts w = .error e := by
  rcases cfgCheck_cases pol cfg ws with ⟨e, hp, hv⟩ | ⟨G, eps, hp, ⟨e, hm, hv⟩ | ⟨r, hm, hv⟩⟩
  · rw [hv]
    exact ⟨fun _ => Or.inl ⟨e, hp⟩, fun _ => rfl⟩
  · rw [hv]
    obtain ⟨w, hw, e', he'⟩ := mapM_tag_error hm
    exact ⟨fun _ => Or.inr ⟨G, eps, hp, w, hw, e', he'⟩, fun _ => rfl⟩
  · rw [hv]
    obtain ⟨i1, i2⟩ := mapM_tag_spec hm
    show ofBool _ = .error ↔ _
    constructor
    · intro h; exact absurd h (C12f.ofBool_error _)
    · rintro (⟨e, he⟩ | ⟨G', eps', h, w, hw, e, he⟩)
      · rw [hp] at he; cases he
      · rw [hp] at h
        cases h
        obtain ⟨b, hb⟩ := i1 w hw
        have := (i2 _ hb).2
        rw [he] at this
        cases this

theorem cfgCheck_ok_iff_nil (pol : Bool) (cfg ws : String) :
    (cfgCheck pol cfg ws).1 = .ok ↔ (cfgCheck pol cfg ws).1 ≠ .error ∧ (cfgCheck pol cfg ws).2 = [] := by
  rcases cfgCheck_cases pol cfg ws with ⟨e, hp, hv⟩ | ⟨G, eps, hp, ⟨e, hm, hv⟩ | ⟨r, hm, hv⟩⟩
  · rw [hv]
    constructor
    · intro h; cases h
    · rintro ⟨h, _⟩; exact absurd rfl h
  · rw [hv]
    constructor
    · intro h; cases h
    · rintro ⟨h, _⟩; exact absurd rfl h
  · rw [hv]
    show ofBool _ = .ok ↔ ofBool _ ≠ .error ∧ failuresOf r pol = []
    rw [C12c.ofBool_ok_iff, List.isEmpty_iff]
    exact ⟨fun h => ⟨C12f.ofBool_error _, h⟩, fun h => h.2⟩

/-! ### 2, 3. the verdicts of the generic checkers as facts about the enumerated languages -/

theorem languageWords_ok_iff (k : CheckAll.Kind) (answer wordList : String) (e : Env) (len maxStates : Nat) :
    languageWords k answer wordList e len maxStates = .ok ↔
      ∃ nQ L, langOfText k answer e len = some (nQ, L) ∧ Check.maxStatesOk nQ maxStates = true ∧
        ∀ w, w ∈ L ↔ w ∈ parseWordList wordList := by
  unfold languageWords
  cases h : langOfText k answer e len with
  | none =>
    constructor
    · intro h'; cases h'
    · rintro ⟨_, _, h', _⟩; cases h'
  | some p =>
    obtain ⟨nQ, L⟩ := p
    show ofBool _ = .ok ↔ _
    rw [C12c.ofBool_ok_iff]
    unfold Check.languageFromWords
    rw [Bool.and_eq_true, C12a.compare_isNone_iff]
    constructor
    · rintro ⟨h1, h2⟩; exact ⟨nQ, L, rfl, h1, h2⟩
    · rintro ⟨nQ', L', h', h1, h2⟩; cases h'; exact ⟨h1, h2⟩

theorem languageWords_error_iff (k : CheckAll.Kind) (answer wordList : String) (e : Env) (len maxStates : Nat) :
    languageWords k answer wordList e len maxStates = .error ↔ langOfText k answer e len = none := by
  unfold languageWords
  cases h : langOfText k answer e len with
  | none => exact ⟨fun _ => rfl, fun _ => rfl⟩
  | some p =>
    obtain ⟨nQ, L⟩ := p
    show ofBool _ = .error ↔ _
    constructor
    · intro h'; exact absurd h' (C12f.ofBool_error _)
    · intro h'; cases h'

theorem languageFile_ok_iff (k rk : CheckAll.Kind) (answer refText : String) (e : Env) (len : Nat) :
    languageFile k rk answer refText e len = .ok ↔
      ∃ n1 L1 n2 L2, langOfText k answer e len = some (n1, L1) ∧ langOfText rk refText e len = some (n2, L2) ∧
        ∀ w, w ∈ L1 ↔ w ∈ L2 := by
  unfold languageFile
  cases h1 : langOfText k answer e len with
  | none =>
    constructor
    · intro h'; cases h'
    · rintro ⟨_, _, _, _, h', _⟩; cases h'
  | some p1 =>
    obtain ⟨n1, L1⟩ := p1
    cases h2 : langOfText rk refText e len with
    | none =>
      constructor
      · intro h'; cases h'
      · rintro ⟨_, _, _, _, _, h', _⟩; cases h'
    | some p2 =>
      obtain ⟨n2, L2⟩ := p2
      show ofBool _ = .ok ↔ _
      rw [C12c.ofBool_ok_iff, C12f.equalLanguages_iff]
      constructor
      · intro hc; exact ⟨n1, L1, n2, L2, rfl, rfl, hc⟩
      · rintro ⟨_, _, _, _, h1', h2', hc⟩; cases h1'; cases h2'; exact hc

theorem languageFile_error_iff (k rk : CheckAll.Kind) (answer refText : String) (e : Env) (len : Nat) :
    languageFile k rk answer refText e len = .error ↔
      langOfText k answer e len = none ∨ langOfText rk refText e len = none := by
  unfold languageFile
  cases h1 : langOfText k answer e len with
  | none => exact ⟨fun _ => Or.inl rfl, fun _ => rfl⟩
  | some p1 =>
    obtain ⟨n1, L1⟩ := p1
    cases h2 : langOfText rk refText e len with
    | none => exact ⟨fun _ => Or.inr rfl, fun _ => rfl⟩
    | some p2 =>
      obtain ⟨n2, L2⟩ := p2
      show ofBool _ = .error ↔ _
      constructor
      · intro h'; exact absurd h' (C12f.ofBool_error _)
      · rintro (h' | h') <;> cases h'

/-! ### 5. the pairs of languages that reach `compare_languages` -/

theorem languageWordsLangs_some {k : CheckAll.Kind} {answer wordList : String} {e : Env} {len : Nat} {A1 A2 : CheckCex.Lang}
    (h : languageWordsLangs k answer wordList e len = some (A1, A2)) :
    ∃ nQ, langOfText k answer e len = some (nQ, A1) ∧ A2 = parseWordList wordList := by
  unfold languageWordsLangs at h
  cases h1 : langOfText k answer e len with
  | none => rw [h1] at h; cases h
  | some p =>
    obtain ⟨nQ, L⟩ := p
    rw [h1] at h
    cases h
    exact ⟨nQ, rfl, rfl⟩

theorem languageFileLangs_some {k rk : CheckAll.Kind} {answer refText : String} {e : Env} {len : Nat} {A1 A2 : CheckCex.Lang}
    (h : languageFileLangs k rk answer refText e len = some (A1, A2)) :
    ∃ n1 n2, langOfText k answer e len = some (n1, A1) ∧ langOfText rk refText e len = some (n2, A2) := by
  unfold languageFileLangs at h
  cases h1 : langOfText k answer e len with
  | none => rw [h1] at h; cases h
  | some p1 =>
    obtain ⟨n1, L1⟩ := p1
    cases h2 : langOfText rk refText e len with
    | none => rw [h1, h2] at h; cases h
    | some p2 =>
      obtain ⟨n2, L2⟩ := p2
      rw [h1, h2] at h
      cases h
      exact ⟨n1, n2, rfl, rfl⟩

/-- list level: a reported word is in exactly one of the two lists, with the polarity of the report, and of minimal length -/
theorem genuine_lists {A1 A2 : List (List String)} {w : List String} {b : Bool}
    (h : compareLanguages A1 A2 = some (w, b)) :
    (b = true → w ∈ A1 ∧ w ∉ A2 ∧ ∀ v, v ∈ A1 → v ∉ A2 → w.length ≤ v.length) ∧
    (b = false → w ∈ A2 ∧ w ∉ A1 ∧ (∀ v, v ∈ A2 → v ∉ A1 → w.length ≤ v.length) ∧ ∀ v, v ∈ A1 → v ∈ A2) := by
  cases b with
  | true => exact ⟨fun _ => compare_extra A1 A2 w h, fun hb => Bool.noConfusion hb⟩
  | false => exact ⟨fun hb => Bool.noConfusion hb, fun _ => compare_missing A1 A2 w h⟩

/-- both sides are semantic languages that already carry their length bound -/
theorem genuine_sem {A1 A2 : List (List String)} {P1 P2 : List String → Prop}
    (h1 : ∀ w, w ∈ A1 ↔ P1 w) (h2 : ∀ w, w ∈ A2 ↔ P2 w) {w : List String} {b : Bool}
    (h : compareLanguages A1 A2 = some (w, b)) :
    (b = true → P1 w ∧ ¬ P2 w ∧ ∀ v, P1 v → ¬ P2 v → w.length ≤ v.length) ∧
    (b = false → P2 w ∧ ¬ P1 w ∧ (∀ v, P2 v → ¬ P1 v → w.length ≤ v.length) ∧ ∀ v, P1 v → P2 v) := by
  obtain ⟨ht, hf⟩ := genuine_lists h
  refine ⟨fun hb => ?_, fun hb => ?_⟩
  · obtain ⟨a, b', c⟩ := ht hb
    exact ⟨(h1 w).mp a, fun hc => b' ((h2 w).mpr hc), fun v p1 p2 => c v ((h1 v).mpr p1) (fun hc => p2 ((h2 v).mp hc))⟩
  · obtain ⟨a, b', c, d⟩ := hf hb
    exact ⟨(h2 w).mp a, fun hc => b' ((h1 w).mpr hc), fun v p2 p1 => c v ((h2 v).mpr p2) (fun hc => p1 ((h1 v).mp hc)),
      fun v p1 => (h2 v).mp (d v ((h1 v).mpr p1))⟩

/-! ### 1. `langOfText` unpacked, kind by kind -/

theorem langOfText_dfa_some {text : String} {e : Env} {len nQ : Nat} {L : CheckCex.Lang}
    (h : langOfText .dfa text e len = some (nQ, L)) :
    ∃ A, parseDfa text.toList = .ok A ∧ nQ = (dedup A.Q).length ∧ L = A.wordsUpTo len := by
  simp only [langOfText] at h
  split at h
  · rename_i A hp; cases h; exact ⟨A, hp, rfl, rfl⟩
  · cases h

theorem langOfText_nfa_some {text : String} {e : Env} {len nQ : Nat} {L : CheckCex.Lang}
    (h : langOfText .nfa text e len = some (nQ, L)) :
    ∃ A, parseNfa text.toList = .ok A ∧ nQ = (dedup A.Q).length ∧ A.wordsUpTo e.sched len = .ok L := by
  simp only [langOfText] at h
  split at h
  · rename_i A hp
    split at h
    · rename_i L' hL; cases h; exact ⟨A, hp, rfl, hL⟩
    · cases h
  · cases h

theorem langOfText_pda_some {text : String} {e : Env} {len nQ : Nat} {L : CheckCex.Lang}
    (h : langOfText .pda text e len = some (nQ, L)) :
    ∃ P, parsePda text.toList = .ok P ∧ nQ = (dedup P.Q).length ∧ L = (P.wordsUpTo e.pdaLimit e.sched len).1 := by
  simp only [langOfText] at h
  split at h
  · rename_i P hp; cases h; exact ⟨P, hp, rfl, rfl⟩
  · cases h

theorem langOfText_tm_some {text : String} {e : Env} {len nQ : Nat} {L : CheckCex.Lang}
    (h : langOfText .tm text e len = some (nQ, L)) :
    ∃ T, parseTm text.toList = .ok T ∧ nQ = (dedup T.Q).length ∧ L = T.wordsUpTo len e.tmBudget := by
  simp only [langOfText] at h
  split at h
  · rename_i T hp; cases h; exact ⟨T, hp, rfl, rfl⟩
  · cases h

theorem langOfText_cfg_some {text : String} {e : Env} {len nQ : Nat} {L : CheckCex.Lang}
    (h : langOfText .cfg text e len = some (nQ, L)) :
    ∃ G eps, CfgText.parseSimpleCfg text.toList = .ok (G, eps) ∧ nQ = 0 ∧ L = G.wordsUpTo len := by
  simp only [langOfText] at h
  split at h
  · rename_i G eps hp; cases h; exact ⟨G, eps, hp, rfl, rfl⟩
  · cases h

theorem langOfText_regexp_some {text : String} {e : Env} {len nQ : Nat} {L : CheckCex.Lang}
    (h : langOfText .regexp text e len = some (nQ, L)) :
    ∃ r, RegexpText.parseSimple text = some r ∧ nQ = 0 ∧ L = r.wordsUpTo len := by
  simp only [langOfText] at h
  split at h
  · rename_i r hp; cases h; exact ⟨r, hp, rfl, rfl⟩
  · cases h

/-! ### what the PDA parser guarantees beyond validity: δ has no repeated key (it is built with `d[k] = …`) -/

section
variable {κ ν α : Type}

theorem foldl_keys_nodup (f : Dict κ ν → α → Dict κ ν)
    (hf : ∀ d t, (d.map (·.1)).Nodup → ((f d t).map (·.1)).Nodup) (l : List α) (d : Dict κ ν)
    (hd : (d.map (·.1)).Nodup) : ((l.foldl f d).map (·.1)).Nodup := by
  induction l generalizing d with
  | nil => exact hd
  | cons t l ih => exact ih _ (hf d t hd)

end

theorem parsePda_keys_nodup {text : List Char} {ok : Word → Bool} {P : SPDA} (h : parsePda text ok = .ok P) :
    (P.delta.map (·.1)).Nodup := by
  unfold parsePda at h
  simp only [bind, Except.bind] at h
  repeat' split at h
  all_goals first | cases h | skip
  obtain ⟨rfl, _⟩ := PDA.checked_ok h
  exact foldl_keys_nodup _ (fun d t hd => nodup_keys_set _ _ hd) _ _ List.nodup_nil

/-- a valid PDA reads input symbols only -/
theorem PDA.Run.over {σ τ γ : Type} [DecidableEq σ] [DecidableEq τ] [DecidableEq γ] {P : PDA σ τ γ}
    (hv : P.valid = true) {c c' : PConf σ γ} {w : List τ} (h : P.Run c w c') : ∀ a, a ∈ w → a ∈ P.Sigma := by
  induction h with
  | nil c => intro a ha; cases ha
  | eps _ _ ih => exact ih
  | sym hne hm _ ih =>
    intro b hb
    rcases List.mem_cons.mp hb with rfl | hb
    · cases hm with
      | mk hl hmem =>
        have hmemd := C09.lookup_mem hl
        simp only [PDA.valid, Bool.and_eq_true, Bool.or_eq_true, decide_eq_true_eq, List.all_eq_true] at hv
        have := hv.2 _ hmemd
        rcases this.1.1.2 with h1 | h1
        · exact h1
        · exact absurd h1 hne
    · exact ih b hb

theorem PDA.Accepts.over {σ τ γ : Type} [DecidableEq σ] [DecidableEq τ] [DecidableEq γ] {P : PDA σ τ γ}
    (hv : P.valid = true) {w : List τ} (h : P.Accepts w) : ∀ a, a ∈ w → a ∈ P.Sigma := by
  obtain ⟨f, st, _, hr⟩ := h
  exact PDA.Run.over hv hr

/-! ### 1. exactness of `langOfText`, kind by kind -/

theorem langOfText_dfa_exact {text : String} {e : Env} {len nQ : Nat} {L : CheckCex.Lang}
    (h : langOfText .dfa text e len = some (nQ, L)) (w : List String) : w ∈ L ↔ Sem .dfa text e len w := by
  obtain ⟨A, hp, rfl, rfl⟩ := langOfText_dfa_some h
  have vA := (C12c.parseDfa_ok_facts hp).1
  rw [C12g.dfa_words_iff vA len w]
  constructor
  · rintro ⟨h1, h2⟩; exact ⟨A, hp, h1, h2⟩
  · rintro ⟨A', hp', h1, h2⟩; rw [hp] at hp'; cases hp'; exact ⟨h1, h2⟩

theorem langOfText_nfa_exact {text : String} {e : Env} {len nQ : Nat} {L : CheckCex.Lang}
    (h : langOfText .nfa text e len = some (nQ, L)) (w : List String) : w ∈ L ↔ Sem .nfa text e len w := by
  obtain ⟨A, hp, rfl, hL⟩ := langOfText_nfa_some h
  have vA := (C12c.parseNfa_ok_facts hp).1
  rw [C12g.nfa_words_iff vA hL w]
  constructor
  · rintro ⟨h1, h2⟩; exact ⟨A, hp, h1, h2⟩
  · rintro ⟨A', hp', h1, h2⟩; rw [hp] at hp'; cases hp'; exact ⟨h1, h2⟩

theorem langOfText_pda_sound {text : String} {e : Env} {len nQ : Nat} {L : CheckCex.Lang}
    (h : langOfText .pda text e len = some (nQ, L)) (w : List String) (hw : w ∈ L) : Sem .pda text e len w := by
  obtain ⟨P, hp, rfl, rfl⟩ := langOfText_pda_some h
  have vP := parsePda_ok_valid _ P hp
  obtain ⟨h1, _, h3⟩ := pda_words_sound P (parsePda_keys_nodup hp) vP e.pdaLimit e.sched len w hw
  exact ⟨P, hp, h1, h3⟩

theorem langOfText_pda_exact {text : String} {e : Env} {len nQ : Nat} {L : CheckCex.Lang}
    (h : langOfText .pda text e len = some (nQ, L)) (ht : PdaUntruncated text e len) (w : List String) :
    w ∈ L ↔ Sem .pda text e len w := by
  refine ⟨langOfText_pda_sound h w, ?_⟩
  obtain ⟨P, hp, rfl, rfl⟩ := langOfText_pda_some h
  have vP := parsePda_ok_valid _ P hp
  rintro ⟨P', hp', h1, h2⟩
  rw [hp] at hp'
  cases hp'
  exact (pda_words_exact P (parsePda_keys_nodup hp) vP e.pdaLimit e.sched len (ht P hp) w).mpr
    ⟨h1, PDA.Accepts.over vP h2, h2⟩

theorem langOfText_tm_exact {text : String} {e : Env} {len nQ : Nat} {L : CheckCex.Lang}
    (h : langOfText .tm text e len = some (nQ, L)) (w : List String) : w ∈ L ↔ Sem .tm text e len w := by
  obtain ⟨T, hp, rfl, rfl⟩ := langOfText_tm_some h
  rw [tm_words_exact T len e.tmBudget w]
  constructor
  · rintro ⟨h1, h2, h3⟩; exact ⟨T, hp, h1, h2, h3⟩
  · rintro ⟨T', hp', h1, h2, h3⟩; rw [hp] at hp'; cases hp'; exact ⟨h1, h2, h3⟩

theorem langOfText_cfg_exact {text : String} {e : Env} {len nQ : Nat} {L : CheckCex.Lang}
    (h : langOfText .cfg text e len = some (nQ, L)) (hs : CfgSide text) (w : List String) :
    w ∈ L ↔ Sem .cfg text e len w := by
  obtain ⟨G, eps, hp, rfl, rfl⟩ := langOfText_cfg_some h
  obtain ⟨v, sv, al⟩ := C12c.parseSimpleCfg_ok_facts hp
  rw [C12f.cfg_words_exact_side v sv al (hs G eps hp) len w]
  constructor
  · rintro ⟨h1, h2⟩; exact ⟨G, eps, hp, h1, h2⟩
  · rintro ⟨G', eps', hp', h1, h2⟩; rw [hp] at hp'; cases hp'; exact ⟨h1, h2⟩

theorem langOfText_regexp_exact {text : String} {e : Env} {len nQ : Nat} {L : CheckCex.Lang}
    (h : langOfText .regexp text e len = some (nQ, L)) (w : List String) : w ∈ L ↔ Sem .regexp text e len w := by
  obtain ⟨r, hp, rfl, rfl⟩ := langOfText_regexp_some h
  rw [regexp_words_exact r len w]
  constructor
  · rintro ⟨h1, h2⟩; exact ⟨r, hp, h1, h2⟩
  · rintro ⟨r', hp', h1, h2⟩; rw [hp] at hp'; cases hp'; exact ⟨h1, h2⟩

/-- all kinds at once, under the exactness condition of the kind -/
theorem langOfText_exact {k : CheckAll.Kind} {text : String} {e : Env} {len nQ : Nat} {L : CheckCex.Lang}
    (h : langOfText k text e len = some (nQ, L)) (hx : Exact k text e len) (w : List String) :
    w ∈ L ↔ Sem k text e len w := by
  cases k with
  | dfa => exact langOfText_dfa_exact h w
  | nfa => exact langOfText_nfa_exact h w
  | pda => exact langOfText_pda_exact h hx w
  | tm => exact langOfText_tm_exact h w
  | cfg => exact langOfText_cfg_exact h hx w
  | regexp => exact langOfText_regexp_exact h w

theorem exact_of_ne {k : CheckAll.Kind} (h1 : k ≠ .pda) (h2 : k ≠ .cfg) (text : String) (e : Env) (len : Nat) :
    Exact k text e len := by
  cases k <;> first | exact True.intro | exact absurd rfl h1 | exact absurd rfl h2

/-- every semantic word is within the bound -/
theorem Sem.length_le {k : CheckAll.Kind} {text : String} {e : Env} {len : Nat} {w : List String}
    (h : Sem k text e len w) : w.length ≤ len := by
  cases k with
  | dfa => obtain ⟨_, _, hl, _⟩ := h; exact hl
  | nfa => obtain ⟨_, _, hl, _⟩ := h; exact hl
  | pda => obtain ⟨_, _, hl, _⟩ := h; exact hl
  | tm => obtain ⟨_, _, hl, _⟩ := h; exact hl
  | cfg => obtain ⟨_, _, _, hl, _⟩ := h; exact hl
  | regexp => obtain ⟨_, _, hl, _⟩ := h; exact hl

/-- `langOfText` succeeds exactly when the text parses: the NFA enumeration cannot fail on a parser result -/
theorem langOfText_nfa_isSome {text : String} {A : NFA String String} (hp : parseNfa text.toList = .ok A)
    (e : Env) (len : Nat) : ∃ L, langOfText .nfa text e len = some ((dedup A.Q).length, L) := by
  have vA := (C12c.parseNfa_ok_facts hp).1
  obtain ⟨L, hL, _⟩ := nfa_words_exact A vA e.sched len
  exact ⟨L, by simp only [langOfText, hp, hL]⟩

/-- soundness needs no side condition except for grammars: every enumerated word is in the semantic language -/
theorem langOfText_sound {k : CheckAll.Kind} (hk : k ≠ .cfg) {text : String} {e : Env} {len nQ : Nat} {L : CheckCex.Lang}
    (h : langOfText k text e len = some (nQ, L)) (w : List String) (hw : w ∈ L) : Sem k text e len w := by
  cases k with
  | dfa => exact (langOfText_dfa_exact h w).mp hw
  | nfa => exact (langOfText_nfa_exact h w).mp hw
  | pda => exact langOfText_pda_sound h w hw
  | tm => exact (langOfText_tm_exact h w).mp hw
  | cfg => exact absurd rfl hk
  | regexp => exact (langOfText_regexp_exact h w).mp hw

theorem tm_valid_ne {σ τ : Type} [DecidableEq σ] [DecidableEq τ] {T : TM σ τ} (hv : T.valid = true) :
    T.qReject ≠ T.qAccept := by
  simp only [TM.valid, Bool.and_eq_true, decide_eq_true_eq] at hv
  exact hv.1.1.1.1.2

/-! ### concrete instances of the side conditions (for the non-vacuity examples) -/

/-- `S → aSb | ε`: no terminal is a variable name -/
theorem exAnBn_side : CfgSide "S -> aSb | ε" := by
  intro G eps hp
  rw [C12e.exAnBn_parse] at hp
  cases hp
  exact Or.inr (by decide)

/-- `p -a,ε→A-> p`, `p -b,A→ε-> q`: with the default limit no ε-closure of the enumeration up to length 3 is truncated -/
theorem exPda_untruncated : PdaUntruncated "initial p\nfinal q\np p a,εA\np q b,Aε" {} 3 := by
  intro P hp
  obtain ⟨P0, h0, hf⟩ : ∃ P0, parsePda "initial p\nfinal q\np p a,εA\np q b,Aε".toList = .ok P0 ∧
      (P0.wordsUpTo ({} : Env).pdaLimit ({} : Env).sched 3).2 = false := ⟨_, rfl, by decide +kernel⟩
  rw [h0] at hp
  cases hp
  exact hf

end C12h
end Gamba
