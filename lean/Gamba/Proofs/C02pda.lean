/-
  Gamba.Proofs.C02pda — helper lemmas for property C02 (PDA part): the model of `pda_words_up_to_n`
  (`PDA.wordsUpTo`, `PDA.wordsLoop`) is sound for every limit and exact when no ε-closure is truncated.
-/
import Gamba.Model.PDA
import Gamba.Spec.PDA
import Gamba.Proofs.C09
namespace Gamba

section
variable {σ τ γ : Type} [DecidableEq σ] [DecidableEq τ] [DecidableEq γ]

/-! ### decomposition of runs -/

theorem PDA.Run.split {P : PDA σ τ γ} {c c' : PConf σ γ} {w : List τ} (h : P.Run c w c') :
    ∀ u v, w = u ++ v → ∃ m, P.Run c u m ∧ P.Run m v c' := by
  induction h with
  | nil c =>
    intro u v huv
    obtain ⟨rfl, rfl⟩ := List.append_eq_nil_iff.mp huv.symm
    exact ⟨c, .nil c, .nil c⟩
  | eps hm _ ih =>
    intro u v huv
    obtain ⟨m, h1, h2⟩ := ih u v huv
    exact ⟨m, .eps hm h1, h2⟩
  | @sym c c' c'' a w ha hm hr ih =>
    intro u v huv
    cases u with
    | nil =>
      simp only [List.nil_append] at huv
      exact ⟨c, .nil c, huv ▸ .sym ha hm hr⟩
    | cons b u =>
      simp only [List.cons_append, List.cons.injEq] at huv
      obtain ⟨rfl, huv⟩ := huv
      obtain ⟨m, h1, h2⟩ := ih u v huv
      exact ⟨m, .sym ha hm h1, h2⟩

theorem PDA.Run.single_inv {P : PDA σ τ γ} {c c' : PConf σ γ} {a : τ} (h : P.Run c [a] c') :
    ∃ c1 c2, P.Run c [] c1 ∧ P.Move a c1 c2 ∧ P.Run c2 [] c' := by
  generalize hw : [a] = w at h
  induction h with
  | nil => cases hw
  | eps hm _ ih =>
    obtain ⟨c1, c2, h1, h2, h3⟩ := ih hw
    exact ⟨c1, c2, .eps hm h1, h2, h3⟩
  | sym _ hm hr _ =>
    cases hw
    exact ⟨_, _, .nil _, hm, hr⟩

/-- the "snoc" decomposition: a run over `w ++ [a]` is a run over `w`, an `a`-move, and trailing ε-moves -/
theorem PDA.Run.snoc_inv {P : PDA σ τ γ} {c c' : PConf σ γ} {w : List τ} {a : τ}
    (h : P.Run c (w ++ [a]) c') :
    ∃ c1 c2, P.Run c w c1 ∧ P.Move a c1 c2 ∧ P.Run c2 [] c' := by
  obtain ⟨m, h1, h2⟩ := h.split w [a] rfl
  obtain ⟨c1, c2, h3, h4, h5⟩ := h2.single_inv
  refine ⟨c1, c2, ?_, h4, h5⟩
  have := h1.append h3
  rwa [List.append_nil] at this

theorem PDA.Run.snoc {P : PDA σ τ γ} {c c1 c2 c' : PConf σ γ} {w : List τ} {a : τ} (ha : a ≠ P.eps)
    (h1 : P.Run c w c1) (h2 : P.Move a c1 c2) (h3 : P.Run c2 [] c') : P.Run c (w ++ [a]) c' :=
  h1.append (.sym ha h2 h3)

theorem PDA.Run.snoc_iff {P : PDA σ τ γ} {c c' : PConf σ γ} {w : List τ} {a : τ} (ha : a ≠ P.eps) :
    P.Run c (w ++ [a]) c' ↔ ∃ c1 c2, P.Run c w c1 ∧ P.Move a c1 c2 ∧ P.EpsReach [c2] c' := by
  constructor
  · intro h
    obtain ⟨c1, c2, h1, h2, h3⟩ := h.snoc_inv
    refine ⟨c1, c2, h1, h2, ?_⟩
    have : ∀ {x y : PConf σ γ}, P.Run x [] y → P.EpsReach [c2] x → P.EpsReach [c2] y := by
      intro x y hr
      generalize hw : ([] : List τ) = w' at hr
      induction hr with
      | nil => exact id
      | eps hs _ ih => exact fun hx => ih hw (.step hx hs)
      | sym => cases hw
    exact this h3 (.base (List.mem_singleton.mpr rfl))
  · rintro ⟨c1, c2, h1, h2, h3⟩
    obtain ⟨c0, hc0, hr⟩ := PDA.Run.of_epsReach h3 (.nil c')
    have := List.mem_singleton.mp hc0
    subst this
    exact PDA.Run.snoc ha h1 h2 hr

theorem PDA.Run.nil_epsReach {P : PDA σ τ γ} {R : List (PConf σ γ)} {x y : PConf σ γ}
    (hr : P.Run x [] y) : P.EpsReach R x → P.EpsReach R y := by
  generalize hw : ([] : List τ) = w' at hr
  induction hr with
  | nil => exact id
  | eps hs _ ih => exact fun hx => ih hw (.step hx hs)
  | sym => cases hw

/-! ### one round of the enumeration loop -/

/-- the `step` list of `PDA.wordsLoop` -/
def PDA.wStep (P : PDA σ τ γ) (limit : Nat) (s : Sched) (W : List (PConf σ γ × List τ)) :
    List (List (PConf σ γ × List τ) × Bool) :=
  W.flatMap fun p => P.Sigma.map fun a =>
    ((P.epsClosure limit s (P.doTransition a [p.1])).1.map fun r1 => (r1, p.2 ++ [a]),
     (P.epsClosure limit s (P.doTransition a [p.1])).2)

/-- the next frontier -/
def PDA.wNext (P : PDA σ τ γ) (limit : Nat) (s : Sched) (W : List (PConf σ γ × List τ)) :
    List (PConf σ γ × List τ) :=
  dedup ((P.wStep limit s W).flatMap (·.1))

theorem PDA.wordsLoop_zero (P : PDA σ τ γ) (limit : Nat) (s : Sched) (W : List (PConf σ γ × List τ))
    (result : List (List τ)) (tr : Bool) : P.wordsLoop limit s 0 W result tr = (result, tr) := by
  rw [PDA.wordsLoop]

theorem PDA.wordsLoop_succ (P : PDA σ τ γ) (limit : Nat) (s : Sched) (n : Nat)
    (W : List (PConf σ γ × List τ)) (result : List (List τ)) (tr : Bool) :
    P.wordsLoop limit s (n + 1) W result tr =
      P.wordsLoop limit s n (P.wNext limit s W)
        (sunion result (((P.wNext limit s W).filter fun p => decide (p.1.1 ∈ P.F)).map (·.2)))
        (tr || (P.wStep limit s W).any (·.2)) := by
  rw [PDA.wordsLoop]
  rfl

theorem PDA.wordsUpTo_eq (P : PDA σ τ γ) (limit : Nat) (s : Sched) (n : Nat) :
    P.wordsUpTo limit s n =
      P.wordsLoop limit s n ((P.epsClosure limit s [(P.q0, [])]).1.map fun r => (r, []))
        (if (P.epsClosure limit s [(P.q0, [])]).1.any (fun c => decide (c.1 ∈ P.F)) then [[]] else [])
        (P.epsClosure limit s [(P.q0, [])]).2 := by
  unfold PDA.wordsUpTo
  rfl

theorem PDA.mem_wNext {P : PDA σ τ γ} {limit : Nat} {s : Sched} {W : List (PConf σ γ × List τ)}
    {x : PConf σ γ × List τ} :
    x ∈ P.wNext limit s W ↔ ∃ p, p ∈ W ∧ ∃ a, a ∈ P.Sigma ∧
      ∃ r1, r1 ∈ (P.epsClosure limit s (P.doTransition a [p.1])).1 ∧ x = (r1, p.2 ++ [a]) := by
  simp only [PDA.wNext, PDA.wStep, mem_dedup, List.mem_flatMap, List.mem_map]
  constructor
  · rintro ⟨l, ⟨p, hp, a, ha, rfl⟩, hx⟩
    simp only [List.mem_map] at hx
    obtain ⟨r1, hr1, rfl⟩ := hx
    exact ⟨p, hp, a, ha, r1, hr1, rfl⟩
  · rintro ⟨p, hp, a, ha, r1, hr1, rfl⟩
    exact ⟨_, ⟨p, hp, a, ha, rfl⟩, List.mem_map.mpr ⟨r1, hr1, rfl⟩⟩

theorem PDA.wStep_flag {P : PDA σ τ γ} {limit : Nat} {s : Sched} {W : List (PConf σ γ × List τ)}
    (h : (P.wStep limit s W).any (·.2) = false) {p : PConf σ γ × List τ} (hp : p ∈ W) {a : τ}
    (ha : a ∈ P.Sigma) : (P.epsClosure limit s (P.doTransition a [p.1])).2 = false := by
  rw [List.any_eq_false] at h
  have hm : (((P.epsClosure limit s (P.doTransition a [p.1])).1.map fun r1 => (r1, p.2 ++ [a])),
     (P.epsClosure limit s (P.doTransition a [p.1])).2) ∈ P.wStep limit s W := by
    simp only [PDA.wStep, List.mem_flatMap, List.mem_map]
    exact ⟨p, hp, a, ha, rfl⟩
  have := h _ hm
  simpa using this

theorem PDA.wordsLoop_flag (P : PDA σ τ γ) (limit : Nat) (s : Sched) (n : Nat) :
    ∀ (W : List (PConf σ γ × List τ)) (result : List (List τ)) (tr : Bool),
      (P.wordsLoop limit s n W result tr).2 = false → tr = false := by
  induction n with
  | zero => intro W result tr h; rw [PDA.wordsLoop_zero] at h; exact h
  | succ n ih =>
    intro W result tr h
    rw [PDA.wordsLoop_succ] at h
    have := ih _ _ _ h
    simp only [Bool.or_eq_false_iff] at this
    exact this.1

/-! ### invariants -/

/-- soundness of one round -/
theorem PDA.wNext_sound (P : PDA σ τ γ) (hk : (P.delta.map (·.1)).Nodup) (hv : P.valid = true)
    (limit : Nat) (s : Sched) (i : Nat) (c0 : PConf σ γ) (W : List (PConf σ γ × List τ))
    (hW : ∀ x, x ∈ W → x.2.length = i ∧ (∀ a, a ∈ x.2 → a ∈ P.Sigma) ∧ P.Run c0 x.2 x.1) :
    ∀ x, x ∈ P.wNext limit s W →
      x.2.length = i + 1 ∧ (∀ a, a ∈ x.2 → a ∈ P.Sigma) ∧ P.Run c0 x.2 x.1 := by
  intro x hx
  obtain ⟨p, hp, a, ha, r1, hr1, rfl⟩ := PDA.mem_wNext.mp hx
  obtain ⟨h1, h2, h3⟩ := hW p hp
  have hae : a ≠ P.eps := fun he => PDA.valid_eps hv (he ▸ ha)
  refine ⟨by simp [h1], ?_, ?_⟩
  · intro b hb
    rcases List.mem_append.mp hb with hb | hb
    · exact h2 b hb
    · rw [List.mem_singleton.mp hb]; exact ha
  · obtain ⟨c2, hc2, hr⟩ := PDA.Run.of_epsReach (P.epsClosure_sound' hk limit s _ r1 hr1) (.nil r1)
    obtain ⟨c1, hc1, hm⟩ := PDA.mem_doTransition.mp hc2
    have := List.mem_singleton.mp hc1
    subst this
    exact PDA.Run.snoc hae h3 (PDA.Move_of_mem_moves hk hm) hr

/-- completeness of one round when its closures are not truncated -/
theorem PDA.wNext_complete (P : PDA σ τ γ)
    (limit : Nat) (s : Sched) (i : Nat) (c0 : PConf σ γ) (W : List (PConf σ γ × List τ))
    (hf : (P.wStep limit s W).any (·.2) = false)
    (hW : ∀ x : PConf σ γ × List τ,
      x.2.length = i → (∀ a, a ∈ x.2 → a ∈ P.Sigma) → P.Run c0 x.2 x.1 → x ∈ W) :
    ∀ x : PConf σ γ × List τ,
      x.2.length = i + 1 → (∀ a, a ∈ x.2 → a ∈ P.Sigma) → P.Run c0 x.2 x.1 → x ∈ P.wNext limit s W := by
  rintro ⟨c, w'⟩ hl hs hr
  simp only at hl hs hr
  have hne : w' ≠ [] := by intro h; subst h; simp at hl
  obtain ⟨w, a, rfl⟩ : ∃ w a, w' = w ++ [a] :=
    ⟨w'.dropLast, w'.getLast hne, (List.dropLast_concat_getLast hne).symm⟩
  have ha : a ∈ P.Sigma := hs a (by simp)
  have hws : ∀ b, b ∈ w → b ∈ P.Sigma := fun b hb => hs b (List.mem_append_left _ hb)
  have hwl : w.length = i := by simp at hl; exact hl
  obtain ⟨c1, c2, h1, h2, h3⟩ := hr.snoc_inv
  have hp : (c1, w) ∈ W := hW (c1, w) hwl hws h1
  have hfl := PDA.wStep_flag hf hp ha
  refine PDA.mem_wNext.mpr ⟨(c1, w), hp, a, ha, c, ?_, rfl⟩
  apply P.epsClosure_complete' limit s _ hfl
  exact h3.nil_epsReach
    (.base (PDA.mem_doTransition.mpr ⟨c1, List.mem_singleton.mpr rfl, PDA.mem_moves_of_Move h2⟩))

omit [DecidableEq τ] [DecidableEq γ] in
/-- the accepted words found in a frontier -/
theorem PDA.mem_finals {P : PDA σ τ γ} {W : List (PConf σ γ × List τ)} {w : List τ} :
    w ∈ ((W.filter fun p => decide (p.1.1 ∈ P.F)).map (·.2)) ↔ ∃ c, (c, w) ∈ W ∧ c.1 ∈ P.F := by
  simp only [List.mem_map, List.mem_filter, decide_eq_true_eq]
  constructor
  · rintro ⟨⟨c, w'⟩, ⟨h1, h2⟩, rfl⟩
    exact ⟨c, h1, h2⟩
  · rintro ⟨c, h1, h2⟩
    exact ⟨(c, w), ⟨h1, h2⟩, rfl⟩

theorem PDA.wordsLoop_sound (P : PDA σ τ γ) (hk : (P.delta.map (·.1)).Nodup) (hv : P.valid = true)
    (limit : Nat) (s : Sched) (n : Nat) :
    ∀ (i : Nat) (W : List (PConf σ γ × List τ)) (result : List (List τ)) (tr : Bool),
      (∀ x, x ∈ W → x.2.length = i ∧ (∀ a, a ∈ x.2 → a ∈ P.Sigma) ∧ P.Run (P.q0, []) x.2 x.1) →
      (∀ w, w ∈ result → w.length ≤ i ∧ (∀ a, a ∈ w → a ∈ P.Sigma) ∧ P.Accepts w) →
      ∀ w, w ∈ (P.wordsLoop limit s n W result tr).1 →
        w.length ≤ i + n ∧ (∀ a, a ∈ w → a ∈ P.Sigma) ∧ P.Accepts w := by
  induction n with
  | zero =>
    intro i W result tr _ hR w hw
    rw [PDA.wordsLoop_zero] at hw
    exact hR w hw
  | succ n ih =>
    intro i W result tr hW hR w hw
    rw [PDA.wordsLoop_succ] at hw
    have hW' := P.wNext_sound hk hv limit s i (P.q0, []) W hW
    have := ih (i + 1) _ _ _ hW' ?_ w hw
    · refine ⟨by omega, this.2⟩
    · intro w' hw'
      rcases mem_sunion.mp hw' with h | h
      · obtain ⟨h1, h2⟩ := hR w' h
        exact ⟨by omega, h2⟩
      · obtain ⟨c, hc, hf⟩ := PDA.mem_finals.mp h
        obtain ⟨h1, h2, h3⟩ := hW' _ hc
        exact ⟨by simp only at h1; omega, h2, c.1, c.2, hf, h3⟩

theorem PDA.wordsLoop_complete (P : PDA σ τ γ)
    (limit : Nat) (s : Sched) (n : Nat) :
    ∀ (i : Nat) (W : List (PConf σ γ × List τ)) (result : List (List τ)) (tr : Bool),
      (P.wordsLoop limit s n W result tr).2 = false →
      (∀ x : PConf σ γ × List τ,
        x.2.length = i → (∀ a, a ∈ x.2 → a ∈ P.Sigma) → P.Run (P.q0, []) x.2 x.1 → x ∈ W) →
      (∀ w : List τ, w.length ≤ i → (∀ a, a ∈ w → a ∈ P.Sigma) → P.Accepts w → w ∈ result) →
      ∀ w : List τ, w.length ≤ i + n → (∀ a, a ∈ w → a ∈ P.Sigma) → P.Accepts w →
        w ∈ (P.wordsLoop limit s n W result tr).1 := by
  induction n with
  | zero =>
    intro i W result tr _ _ hR w hl hs ha
    rw [PDA.wordsLoop_zero]
    exact hR w hl hs ha
  | succ n ih =>
    intro i W result tr hf hW hR w hl hs ha
    rw [PDA.wordsLoop_succ] at hf ⊢
    have hfl := P.wordsLoop_flag limit s n _ _ _ hf
    simp only [Bool.or_eq_false_iff] at hfl
    have hW' := P.wNext_complete limit s i (P.q0, []) W hfl.2 hW
    refine ih (i + 1) _ _ _ hf hW' ?_ w (by omega) hs ha
    intro w' hl' hs' ha'
    apply mem_sunion.mpr
    by_cases hle : w'.length ≤ i
    · exact Or.inl (hR w' hle hs' ha')
    · right
      obtain ⟨f, st, hf', hr⟩ := ha'
      exact PDA.mem_finals.mpr ⟨(f, st), hW' ((f, st), w') (by simp only; omega) hs' hr, hf'⟩

/-! ### `wordsUpTo` -/

theorem PDA.wordsUpTo_sound' (P : PDA σ τ γ) (hk : (P.delta.map (·.1)).Nodup) (hv : P.valid = true)
    (limit : Nat) (s : Sched) (n : Nat) (w : List τ) (h : w ∈ (P.wordsUpTo limit s n).1) :
    w.length ≤ n ∧ (∀ a, a ∈ w → a ∈ P.Sigma) ∧ P.Accepts w := by
  rw [PDA.wordsUpTo_eq] at h
  have hR0 : ∀ c, c ∈ (P.epsClosure limit s [(P.q0, [])]).1 → P.Run (P.q0, []) [] c := by
    intro c hc
    obtain ⟨c0, hc0, hr⟩ := PDA.Run.of_epsReach (P.epsClosure_sound' hk limit s _ c hc) (.nil c)
    have := List.mem_singleton.mp hc0
    subst this
    exact hr
  have := P.wordsLoop_sound hk hv limit s n 0 _ _ _ ?_ ?_ w h
  · simpa using this
  · intro x hx
    obtain ⟨c, hc, rfl⟩ := List.mem_map.mp hx
    exact ⟨rfl, by simp, hR0 c hc⟩
  · intro w' hw'
    split at hw'
    · rename_i hany
      have := List.mem_singleton.mp hw'
      subst this
      simp only [List.any_eq_true, decide_eq_true_eq] at hany
      obtain ⟨c, hc, hf⟩ := hany
      exact ⟨by simp, by simp, c.1, c.2, hf, hR0 c hc⟩
    · cases hw'

theorem PDA.wordsUpTo_complete' (P : PDA σ τ γ)
    (limit : Nat) (s : Sched) (n : Nat) (ht : (P.wordsUpTo limit s n).2 = false) (w : List τ)
    (hl : w.length ≤ n) (hs : ∀ a, a ∈ w → a ∈ P.Sigma) (ha : P.Accepts w) :
    w ∈ (P.wordsUpTo limit s n).1 := by
  rw [PDA.wordsUpTo_eq] at ht ⊢
  have h0 := P.wordsLoop_flag limit s n _ _ _ ht
  have hR0 : ∀ c, P.Run (P.q0, []) [] c → c ∈ (P.epsClosure limit s [(P.q0, [])]).1 := by
    intro c hr
    exact P.epsClosure_complete' limit s _ h0 c
      (hr.nil_epsReach (.base (List.mem_singleton.mpr rfl)))
  refine P.wordsLoop_complete limit s n 0 _ _ _ ht ?_ ?_ w (by omega) hs ha
  · rintro ⟨c, w'⟩ hl' _ hr
    simp only at hl' hr
    have := List.eq_nil_of_length_eq_zero hl'
    subst this
    exact List.mem_map.mpr ⟨c, hR0 c hr, rfl⟩
  · intro w' hl' _ ha'
    have := List.eq_nil_of_length_eq_zero (Nat.le_zero.mp hl')
    subst this
    obtain ⟨f, st, hf, hr⟩ := ha'
    have : (P.epsClosure limit s [(P.q0, [])]).1.any (fun c => decide (c.1 ∈ P.F)) = true := by
      simp only [List.any_eq_true, decide_eq_true_eq]
      exact ⟨(f, st), hR0 _ hr, hf⟩
    rw [if_pos this]
    exact List.mem_singleton.mpr rfl

end
end Gamba
