def hello := "world"
