import Gamba.Model.RegexpText
import Gamba.Spec.Regexp
namespace Gamba
open RegexpText
def r0 : Regexp String := .cat (.sym "a") (.cat (.star (.sum (.sym "a") (.sym "b"))) (.sym "c"))
#eval printSimple r0
#eval parseSimple (printSimple r0)
#eval printFull r0
#eval parseFull (printFull r0)
#check @String.length
#print String.length
#check @String.toList_append
#check @String.length_toList
#check @String.toList_singleton
