/-
  Bridge.NFA — the acceptance specification `Gamba.NFA.Accepts` (Gamba/Spec/Automata.lean)
  coincides with Mathlib's `εNFA.accepts`.

  Two translations are given.

  * `NFA.toMathlib` (the requested one): `step q (some a) = succ q a`, `step q none = succ q eps`.
    FINDING.  In the Gamba model ε is an ordinary element `N.eps : τ` of the symbol type and the
    spec refuses to *read* it (`NFA.Run.sym` demands `a ≠ N.eps`), whereas this translation lets
    the Mathlib automaton read the letter `N.eps` along the ε-edges.  So the equivalence needs
    exactly the hypothesis `N.eps ∉ w` (`nfa_accepts_iff_mathlib'`); it is false without it
    (`nfa_bridge_counterexample` below).  `N.eps ∉ w` follows from `N.valid` (which contains
    `N.eps ∉ N.Sigma`) together with `w` being a word over `N.Sigma`; this gives the requested
    statement `nfa_accepts_iff_mathlib`.  Nothing else of validity is used: states/symbols outside
    `Q`/`Sigma` and missing δ entries are treated identically on both sides (missing = ∅).

  * `NFA.toMathlibG` (guarded): `step q (some a) = if a = N.eps then ∅ else succ q a`.
    With it the equivalence is unconditional (`nfa_accepts_iff_mathlibG`), which pins down the
    spec completely: `Gamba.NFA.Accepts` *is* the language of that εNFA.
-/
import Mathlib.Computability.EpsilonNFA
import Gamba.Spec.Automata
import Gamba.Model.NFA

namespace Gamba
variable {σ τ : Type} [DecidableEq σ] [DecidableEq τ]

theorem NFA.Succ_iff_mem_succ (N : Gamba.NFA σ τ) (q : σ) (a : τ) (q' : σ) :
    N.Succ q a q' ↔ q' ∈ N.succ q a := by
  unfold NFA.Succ NFA.succ
  cases h : N.delta.lookup (q, a) with
  | none => simp
  | some T => simp

/-- requested translation to Mathlib's `εNFA τ σ` -/
def NFA.toMathlib (N : Gamba.NFA σ τ) : εNFA τ σ where
  step q o :=
    match o with
    | some a => {q' | q' ∈ N.succ q a}
    | none => {q' | q' ∈ N.succ q N.eps}
  start := {N.q0}
  accept := {q | q ∈ N.F}

/-- guarded translation: the letter `N.eps` itself can never be read -/
def NFA.toMathlibG (N : Gamba.NFA σ τ) : εNFA τ σ where
  step q o :=
    match o with
    | some a => {q' | a ≠ N.eps ∧ q' ∈ N.succ q a}
    | none => {q' | q' ∈ N.succ q N.eps}
  start := {N.q0}
  accept := {q | q ∈ N.F}

/-- spec run ⇒ Mathlib path (no hypothesis) -/
theorem NFA.run_to_path (N : Gamba.NFA σ τ) {q r : σ} {w : List τ} (h : N.Run q w r) :
    ∃ x' : List (Option τ), x'.reduceOption = w ∧ N.toMathlibG.IsPath q r x' := by
  induction h with
  | nil q => exact ⟨[], rfl, εNFA.IsPath.nil q⟩
  | eps hs _ ih =>
    obtain ⟨x', hx, hp⟩ := ih
    refine ⟨none :: x', by rw [List.reduceOption_cons_of_none, hx], εNFA.IsPath.cons _ _ _ _ _ ?_ hp⟩
    exact (N.Succ_iff_mem_succ _ _ _).mp hs
  | @sym q q' r a w hne hs _ ih =>
    obtain ⟨x', hx, hp⟩ := ih
    refine ⟨some a :: x', by rw [List.reduceOption_cons_of_some, hx], εNFA.IsPath.cons _ _ _ _ _ ?_ hp⟩
    exact ⟨hne, (N.Succ_iff_mem_succ _ _ _).mp hs⟩

/-- Mathlib path ⇒ spec run (no hypothesis, guarded translation) -/
theorem NFA.path_to_run (N : Gamba.NFA σ τ) {q r : σ} {x' : List (Option τ)}
    (h : N.toMathlibG.IsPath q r x') : N.Run q x'.reduceOption r := by
  induction h with
  | nil s => exact NFA.Run.nil s
  | cons t s u o x hstep _ ih =>
    cases o with
    | none =>
      rw [List.reduceOption_cons_of_none]
      exact NFA.Run.eps ((N.Succ_iff_mem_succ _ _ _).mpr hstep) ih
    | some a =>
      rw [List.reduceOption_cons_of_some]
      exact NFA.Run.sym hstep.1 ((N.Succ_iff_mem_succ _ _ _).mpr hstep.2) ih

/-- **Spec = Mathlib (ε-NFA), unconditional, guarded translation.** -/
theorem nfa_accepts_iff_mathlibG (N : Gamba.NFA σ τ) (w : List τ) :
    N.Accepts w ↔ w ∈ N.toMathlibG.accepts := by
  rw [εNFA.mem_accepts_iff_exists_path]
  constructor
  · rintro ⟨f, hf, hr⟩
    obtain ⟨x', hx, hp⟩ := N.run_to_path hr
    exact ⟨N.q0, f, x', rfl, hf, hx, hp⟩
  · rintro ⟨s₁, s₂, x', hs₁, hs₂, rfl, hp⟩
    have : s₁ = N.q0 := hs₁
    subst this
    exact ⟨s₂, hs₂, N.path_to_run hp⟩

/-- paths of the two translations agree as long as the letter `N.eps` is not read -/
theorem NFA.isPath_toMathlib_iff (N : Gamba.NFA σ τ) {q r : σ} {x' : List (Option τ)}
    (hx : N.eps ∉ x'.reduceOption) : N.toMathlib.IsPath q r x' ↔ N.toMathlibG.IsPath q r x' := by
  induction x' generalizing q with
  | nil => simp
  | cons o x ih =>
    cases o with
    | none =>
      rw [List.reduceOption_cons_of_none] at hx
      constructor
      · rintro (_ | ⟨t, _, _, _, _, hs, hp⟩)
        exact εNFA.IsPath.cons t _ _ _ _ hs ((ih hx).mp hp)
      · rintro (_ | ⟨t, _, _, _, _, hs, hp⟩)
        exact εNFA.IsPath.cons t _ _ _ _ hs ((ih hx).mpr hp)
    | some a =>
      rw [List.reduceOption_cons_of_some] at hx
      have hne : a ≠ N.eps := fun h => hx (by simp [h])
      have hx' : N.eps ∉ x.reduceOption := fun h => hx (by simp [h])
      constructor
      · rintro (_ | ⟨t, _, _, _, _, hs, hp⟩)
        exact εNFA.IsPath.cons t _ _ _ _ ⟨hne, hs⟩ ((ih hx').mp hp)
      · rintro (_ | ⟨t, _, _, _, _, hs, hp⟩)
        exact εNFA.IsPath.cons t _ _ _ _ hs.2 ((ih hx').mpr hp)

/-- **Spec = Mathlib (ε-NFA), requested translation; strongest form:** the only hypothesis is
    that the word does not contain the letter that the model uses to denote ε. -/
theorem nfa_accepts_iff_mathlib' (N : Gamba.NFA σ τ) (w : List τ) (heps : N.eps ∉ w) :
    N.Accepts w ↔ w ∈ N.toMathlib.accepts := by
  rw [nfa_accepts_iff_mathlibG, εNFA.mem_accepts_iff_exists_path, εNFA.mem_accepts_iff_exists_path]
  constructor
  · rintro ⟨s₁, s₂, x', hs₁, hs₂, rfl, hp⟩
    exact ⟨s₁, s₂, x', hs₁, hs₂, rfl, (N.isPath_toMathlib_iff heps).mpr hp⟩
  · rintro ⟨s₁, s₂, x', hs₁, hs₂, rfl, hp⟩
    exact ⟨s₁, s₂, x', hs₁, hs₂, rfl, (N.isPath_toMathlib_iff heps).mp hp⟩

theorem NFA.valid_eps_not_mem_Sigma {N : Gamba.NFA σ τ} (hv : N.valid = true) : N.eps ∉ N.Sigma := by
  simp only [NFA.valid, Bool.and_eq_true, decide_eq_true_eq] at hv
  exact hv.1.2

/-- The statement as requested.  `hv` is used only for `N.eps ∉ N.Sigma`. -/
theorem nfa_accepts_iff_mathlib (N : Gamba.NFA σ τ) (hv : N.valid = true) (w : List τ)
    (hw : ∀ a, a ∈ w → a ∈ N.Sigma) : N.Accepts w ↔ w ∈ N.toMathlib.accepts :=
  nfa_accepts_iff_mathlib' N w fun h => NFA.valid_eps_not_mem_Sigma hv (hw _ h)

/-- the spec's ε-reachability is Mathlib's `εClosure` (for either translation) -/
theorem nfa_epsReach_iff_mathlib (N : Gamba.NFA σ τ) (S : List σ) (q : σ) :
    N.EpsReach S q ↔ q ∈ N.toMathlib.εClosure {s | s ∈ S} := by
  constructor
  · intro h
    induction h with
    | base hq => exact εNFA.εClosure.base _ hq
    | step _ hs ih => exact εNFA.εClosure.step _ _ ((N.Succ_iff_mem_succ _ _ _).mp hs) ih
  · intro h
    induction h with
    | base s hs => exact NFA.EpsReach.base hs
    | step s t ht _ ih => exact NFA.EpsReach.step ih ((N.Succ_iff_mem_succ _ _ _).mpr ht)

/-! ### the hypothesis `N.eps ∉ w` cannot be dropped for `toMathlib` -/

/-- one ε-edge 0 → 1, accepting state 1; ε is denoted by the letter 9 -/
def cexNFA : Gamba.NFA Nat Nat :=
  { Q := [0, 1], Sigma := [5], delta := [((0, 9), [1])], q0 := 0, F := [1], eps := 9 }

/-- `cexNFA` is valid, the spec rejects the one-letter word `[ε]`, but the unguarded Mathlib
    translation accepts it by reading the letter along the ε-edge. -/
theorem nfa_bridge_counterexample :
    cexNFA.valid = true ∧ ¬ cexNFA.Accepts [9] ∧ [9] ∈ cexNFA.toMathlib.accepts := by
  refine ⟨by decide, ?_, ?_⟩
  · rw [nfa_accepts_iff_mathlibG, εNFA.mem_accepts_iff_exists_path]
    rintro ⟨s₁, s₂, x', _, _, hx, hp⟩
    -- some step of the path reads the letter 9, which the guarded automaton forbids
    have key : ∀ (x' : List (Option Nat)) (s₁ s₂ : Nat), (9 : Nat) ∈ x'.reduceOption →
        ¬ cexNFA.toMathlibG.IsPath s₁ s₂ x' := by
      intro x'
      induction x' with
      | nil => intro _ _ h; simp at h
      | cons o x ih =>
        intro s₁ s₂ hm hp
        rcases hp with _ | ⟨t, _, _, _, _, hs, hp⟩
        cases o with
        | none =>
          rw [List.reduceOption_cons_of_none] at hm
          exact ih _ _ hm hp
        | some a =>
          rw [List.reduceOption_cons_of_some] at hm
          rcases List.mem_cons.mp hm with rfl | hm
          · exact hs.1 rfl
          · exact ih _ _ hm hp
    exact key x' s₁ s₂ (by rw [hx]; simp) hp
  · rw [εNFA.mem_accepts_iff_exists_path]
    refine ⟨0, 1, [some 9], rfl, (by decide : 1 ∈ cexNFA.F), rfl, ?_⟩
    refine εNFA.IsPath.cons 1 0 1 (some 9) [] ?_ (εNFA.IsPath.nil 1)
    show 1 ∈ cexNFA.succ 0 9
    decide

/-! ### concrete instance -/

/-- `a* b` with an ε-move: 0 --a--> 0, 0 --ε--> 1, 1 --b--> 2; a = 0, b = 1, ε = 9 -/
def exNFA : Gamba.NFA Nat Nat :=
  { Q := [0, 1, 2], Sigma := [0, 1],
    delta := [((0, 0), [0]), ((0, 9), [1]), ((1, 1), [2])], q0 := 0, F := [2], eps := 9 }

example : exNFA.valid = true := by decide

example : [0, 1] ∈ exNFA.toMathlib.accepts :=
  (nfa_accepts_iff_mathlib exNFA (by decide) [0, 1] (by decide)).mp
    ⟨2, by decide,
      .sym (q' := 0) (by decide) ⟨[0], rfl, by decide⟩
        (.eps (q' := 1) ⟨[1], rfl, by decide⟩
          (.sym (q' := 2) (by decide) ⟨[2], rfl, by decide⟩ (.nil 2)))⟩

end Gamba

#print axioms Gamba.nfa_accepts_iff_mathlibG
#print axioms Gamba.nfa_accepts_iff_mathlib'
#print axioms Gamba.nfa_accepts_iff_mathlib
#print axioms Gamba.nfa_epsReach_iff_mathlib
#print axioms Gamba.nfa_bridge_counterexample
