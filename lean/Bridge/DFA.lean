/-
  Bridge.DFA — the acceptance specification `Gamba.DFA.Accepts` (Gamba/Spec/Automata.lean)
  coincides with Mathlib's `DFA.accepts` for the obvious translation of a (possibly partial)
  Gamba DFA into a total Mathlib DFA over `Option σ` (`none` = stuck / sink state).

  Finding: `Gamba.DFA.Accepts` never consults `D.Sigma` or `D.Q`; a run simply follows
  `D.delta.lookup` and is stuck on a missing entry.  Hence the equivalence needs NO hypothesis
  (neither validity of `D` nor `w` being a word over `D.Sigma`).  The hypothesis-carrying
  statement that was requested is given as a corollary.
-/
import Mathlib.Computability.DFA
import Gamba.Spec.Automata
import Gamba.Proofs.DFABasic  -- only for the bonus lemma `toMathlib_evalFrom_valid`

namespace Gamba
variable {σ τ : Type} [DecidableEq σ] [DecidableEq τ]

/-- Translation to Mathlib's `DFA τ (Option σ)`: `none` is the sink reached when δ has no entry. -/
def DFA.toMathlib (D : Gamba.DFA σ τ) : _root_.DFA τ (Option σ) where
  step s a := s.bind fun q => D.delta.lookup (q, a)
  start := some D.q0
  accept := {s | ∃ q, s = some q ∧ q ∈ D.F}

theorem DFA.toMathlib_evalFrom_none (D : Gamba.DFA σ τ) (w : List τ) :
    D.toMathlib.evalFrom none w = none := by
  induction w with
  | nil => rfl
  | cons a w ih => simpa [_root_.DFA.evalFrom_cons, DFA.toMathlib] using ih

/-- The relational run of the spec is the graph of Mathlib's `evalFrom` (on non-sink results). -/
theorem DFA.run_iff_evalFrom (D : Gamba.DFA σ τ) (q : σ) (w : List τ) (r : σ) :
    D.Run q w r ↔ D.toMathlib.evalFrom (some q) w = some r := by
  induction w generalizing q with
  | nil =>
    constructor
    · intro h; cases h; rfl
    · intro h
      have : q = r := by simpa using h
      subst this; exact DFA.Run.nil q
  | cons a w ih =>
    rw [_root_.DFA.evalFrom_cons]
    have hstep : D.toMathlib.step (some q) a = D.delta.lookup (q, a) := rfl
    rw [hstep]
    constructor
    · intro h
      cases h with
      | cons hl hr => rw [hl]; exact (ih _).mp hr
    · intro h
      cases hl : D.delta.lookup (q, a) with
      | none => rw [hl, DFA.toMathlib_evalFrom_none] at h; cases h
      | some q' => rw [hl] at h; exact DFA.Run.cons hl ((ih _).mpr h)

/-- **Spec = Mathlib (DFA), unconditional.** -/
theorem dfa_accepts_iff_mathlib' (D : Gamba.DFA σ τ) (w : List τ) :
    D.Accepts w ↔ w ∈ D.toMathlib.accepts := by
  rw [_root_.DFA.mem_accepts]
  unfold DFA.Accepts _root_.DFA.eval
  constructor
  · rintro ⟨f, hf, hr⟩
    exact ⟨f, (D.run_iff_evalFrom _ _ _).mp hr, hf⟩
  · rintro ⟨f, he, hf⟩
    exact ⟨f, hf, (D.run_iff_evalFrom _ _ _).mpr he⟩

/-- The statement as requested; the two hypotheses are not used (see the header comment). -/
theorem dfa_accepts_iff_mathlib (D : Gamba.DFA σ τ) (_hv : D.valid = true) (w : List τ)
    (_hw : ∀ a, a ∈ w → a ∈ D.Sigma) : D.Accepts w ↔ w ∈ D.toMathlib.accepts :=
  dfa_accepts_iff_mathlib' D w

/-- For a valid (total) DFA and a word over Σ the sink is never entered: Mathlib's evaluation
    stays inside `some '' Q`.  (On the intended domain the `Option` wrapper is inert.) -/
theorem DFA.toMathlib_evalFrom_valid (D : Gamba.DFA σ τ) (hv : D.valid = true) (w : List τ)
    (hw : ∀ a, a ∈ w → a ∈ D.Sigma) (q : σ) (hq : q ∈ D.Q) :
    ∃ r, r ∈ D.Q ∧ D.toMathlib.evalFrom (some q) w = some r := by
  induction w generalizing q with
  | nil => exact ⟨q, hq, rfl⟩
  | cons a w ih =>
    obtain ⟨q', hl, hq', _⟩ := DFA.valid_next hv hq (hw a (by simp))
    obtain ⟨r, hr, he⟩ := ih (fun b hb => hw b (by simp [hb])) q' hq'
    refine ⟨r, hr, ?_⟩
    rw [_root_.DFA.evalFrom_cons]
    have hstep : D.toMathlib.step (some q) a = D.delta.lookup (q, a) := rfl
    rw [hstep, hl]; exact he

/-! ### concrete instance -/

/-- even number of `1`s over {0,1} -/
def exDFA : Gamba.DFA Nat Nat :=
  { Q := [0, 1], Sigma := [0, 1],
    delta := [((0, 0), 0), ((0, 1), 1), ((1, 0), 1), ((1, 1), 0)], q0 := 0, F := [0] }

example : exDFA.valid = true := by decide
example : ∀ a, a ∈ [1, 0, 1] → a ∈ exDFA.Sigma := by decide

example : [1, 0, 1] ∈ exDFA.toMathlib.accepts :=
  (dfa_accepts_iff_mathlib exDFA (by decide) [1, 0, 1] (by decide)).mp
    ⟨0, by decide, .cons (q' := 1) rfl (.cons (q' := 1) rfl (.cons (q' := 0) rfl (.nil 0)))⟩

example : ¬ exDFA.Accepts [1, 0] := by
  rw [dfa_accepts_iff_mathlib', _root_.DFA.mem_accepts]
  rintro ⟨q, he, hq⟩
  have : (some 1 : Option Nat) = some q := he
  cases this
  revert hq; decide

/-- a symbol outside Σ / a missing δ entry: stuck in the spec, sink in Mathlib — still equivalent -/
example : ¬ exDFA.Accepts [7] := by
  rw [dfa_accepts_iff_mathlib', _root_.DFA.mem_accepts]
  rintro ⟨q, he, _⟩
  cases he

end Gamba

#print axioms Gamba.dfa_accepts_iff_mathlib'
#print axioms Gamba.dfa_accepts_iff_mathlib
#print axioms Gamba.DFA.toMathlib_evalFrom_valid
