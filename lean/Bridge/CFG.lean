/-
  Bridge.CFG — the specification `Gamba.CFG.Lang` (Gamba/Spec/CFG.lean) coincides with Mathlib's
  `ContextFreeGrammar.language`.

  The Gamba spec is *big-step* (`Gen form w`: a sentential form generates a terminal word, i.e.
  a parse forest), whereas Mathlib's definition is *small-step* (`Derives` = reflexive-transitive
  closure of `Produces`).  The bridge therefore also proves that the two styles agree.
  In addition the spec's one-step relation `Gamba.CFG.Step` is shown to be exactly Mathlib's
  `Produces`, hence `Step*` = `Derives`.

  No hypothesis is needed: terminals and variables are told apart by the `Sym` constructor on the
  Gamba side and by the `Symbol` constructor on the Mathlib side; `G.V`, `G.Sigma` and the `aid`
  field of rules play no role in either semantics; duplicate rules are irrelevant (Mathlib keeps
  the rules in a `Finset`, Gamba in a list, and `HasRule` is membership).
-/
import Mathlib.Computability.ContextFreeGrammar
import Gamba.Spec.CFG
import Gamba.Proofs.CFGBasic

namespace Gamba

def Sym.toMathlib : Sym → Symbol String String
  | .t a => .terminal a
  | .v A => .nonterminal A

def Sym.ofMathlib : Symbol String String → Sym
  | .terminal a => .t a
  | .nonterminal A => .v A

@[simp] theorem Sym.ofMathlib_toMathlib (x : Sym) : Sym.ofMathlib x.toMathlib = x := by
  cases x <;> rfl

@[simp] theorem Sym.toMathlib_ofMathlib (x : Symbol String String) : (Sym.ofMathlib x).toMathlib = x := by
  cases x <;> rfl

theorem Sym.map_of_map_to (f : List Sym) : (f.map Sym.toMathlib).map Sym.ofMathlib = f := by
  induction f with
  | nil => rfl
  | cons x f ih => simp [ih]

theorem Sym.map_to_map_of (f : List (Symbol String String)) :
    (f.map Sym.ofMathlib).map Sym.toMathlib = f := by
  induction f with
  | nil => rfl
  | cons x f ih => simp [ih]

namespace CFG

def ruleToMathlib (r : CRule) : ContextFreeRule String String :=
  ⟨r.lhs, r.rhs.map Sym.toMathlib⟩

/-- Translation to Mathlib: nonterminal type `String`, rules as a `Finset`. -/
@[reducible] def toMathlib (G : CFG) : ContextFreeGrammar String where
  NT := String
  initial := G.S
  rules := (G.R.map ruleToMathlib).toFinset

theorem mem_rules_iff (G : CFG) (r : ContextFreeRule String String) :
    r ∈ G.toMathlib.rules ↔ ∃ A rhs, G.HasRule A rhs ∧ r = ⟨A, rhs.map Sym.toMathlib⟩ := by
  unfold toMathlib HasRule
  simp only [List.mem_toFinset, List.mem_map]
  constructor
  · rintro ⟨cr, hcr, rfl⟩; exact ⟨cr.lhs, cr.rhs, ⟨cr, hcr, rfl, rfl⟩, rfl⟩
  · rintro ⟨A, rhs, ⟨cr, hcr, rfl, rfl⟩, rfl⟩; exact ⟨cr, hcr, rfl⟩

/-- a production of `G`, applied in any context, is one `Produces` step of the translation -/
theorem produces_of_hasRule (G : CFG) {A : String} {rhs : List Sym} (hr : G.HasRule A rhs)
    (p q : List (Symbol String String)) :
    G.toMathlib.Produces (p ++ [Symbol.nonterminal A] ++ q) (p ++ rhs.map Sym.toMathlib ++ q) :=
  ⟨⟨A, rhs.map Sym.toMathlib⟩, (G.mem_rules_iff _).mpr ⟨A, rhs, hr, rfl⟩,
    ContextFreeRule.rewrites_of_exists_parts _ p q⟩

theorem produces_iff (G : CFG) (x y : List (Symbol String String)) :
    G.toMathlib.Produces x y ↔ ∃ A rhs p q, G.HasRule A rhs ∧
      x = p ++ [Symbol.nonterminal A] ++ q ∧ y = p ++ rhs.map Sym.toMathlib ++ q := by
  constructor
  · rintro ⟨r, hr, hrw⟩
    obtain ⟨A, rhs, hh, rfl⟩ := (G.mem_rules_iff r).mp hr
    obtain ⟨p, q, hx, hy⟩ := ContextFreeRule.rewrites_iff.mp hrw
    exact ⟨A, rhs, p, q, hh, hx, hy⟩
  · rintro ⟨A, rhs, p, q, hh, rfl, rfl⟩
    exact G.produces_of_hasRule hh p q

/-- the spec's unrestricted one-step relation is Mathlib's `Produces` -/
theorem step_iff_produces (G : CFG) (f g : List Sym) :
    G.Step f g ↔ G.toMathlib.Produces (f.map Sym.toMathlib) (g.map Sym.toMathlib) := by
  rw [produces_iff]
  constructor
  · rintro ⟨hr⟩
    rename_i A rhs pre post
    exact ⟨A, rhs, pre.map Sym.toMathlib, post.map Sym.toMathlib, hr, by simp [Sym.toMathlib],
      by simp⟩
  · rintro ⟨A, rhs, p, q, hr, hx, hy⟩
    have hf : f = p.map Sym.ofMathlib ++ Sym.v A :: q.map Sym.ofMathlib := by
      have := congrArg (List.map Sym.ofMathlib) hx
      rw [Sym.map_of_map_to] at this
      simpa [Sym.ofMathlib] using this
    have hg : g = p.map Sym.ofMathlib ++ rhs ++ q.map Sym.ofMathlib := by
      have := congrArg (List.map Sym.ofMathlib) hy
      rw [Sym.map_of_map_to, List.map_append, List.map_append, Sym.map_of_map_to] at this
      exact this
    rw [hf, hg]
    exact Step.mk hr

/-- the reflexive-transitive closure of the spec's `Step` is Mathlib's `Derives` -/
theorem steps_iff_derives (G : CFG) (f g : List Sym) :
    Relation.ReflTransGen G.Step f g ↔
      G.toMathlib.Derives (f.map Sym.toMathlib) (g.map Sym.toMathlib) := by
  constructor
  · intro h
    induction h with
    | refl => exact ContextFreeGrammar.Derives.refl _
    | tail _ hs ih => exact ih.trans_produces ((G.step_iff_produces _ _).mp hs)
  · intro h
    have key : ∀ {x y : List (Symbol String String)}, G.toMathlib.Derives x y →
        Relation.ReflTransGen G.Step (x.map Sym.ofMathlib) (y.map Sym.ofMathlib) := by
      intro x y hxy
      induction hxy with
      | refl => exact Relation.ReflTransGen.refl
      | tail _ hp ih =>
        refine Relation.ReflTransGen.tail ih ((G.step_iff_produces _ _).mpr ?_)
        rw [Sym.map_to_map_of, Sym.map_to_map_of]; exact hp
    have := key h
    rwa [Sym.map_of_map_to, Sym.map_of_map_to] at this

/-- big-step generation ⇒ small-step derivation -/
theorem gen_to_derives (G : CFG) {f : List Sym} {w : List String} (h : G.Gen f w) :
    G.toMathlib.Derives (f.map Sym.toMathlib) (w.map Symbol.terminal) := by
  induction h with
  | nil => exact ContextFreeGrammar.Derives.refl _
  | @t a ss w _ ih =>
    exact ContextFreeGrammar.Derives.append_left ih [Symbol.terminal a]
  | @v A rhs ss u w hr _ _ ih1 ih2 =>
    have h0 : G.toMathlib.Produces ([] ++ [Symbol.nonterminal A] ++ ss.map Sym.toMathlib)
        ([] ++ rhs.map Sym.toMathlib ++ ss.map Sym.toMathlib) := G.produces_of_hasRule hr [] _
    have h1 := ContextFreeGrammar.Derives.append_right ih1 (ss.map Sym.toMathlib)
    have h2 := ContextFreeGrammar.Derives.append_left ih2 (u.map Symbol.terminal)
    have h3 := (ContextFreeGrammar.Produces.single h0).trans (h1.trans h2)
    simpa [Sym.toMathlib] using h3

/-- replacing a variable by the right-hand side of one of its rules preserves generation -/
theorem gen_of_gen_rewrite (G : CFG) {A : String} {rhs p q : List Sym} {w : List String}
    (hr : G.HasRule A rhs) (h : G.Gen (p ++ rhs ++ q) w) : G.Gen (p ++ Sym.v A :: q) w := by
  obtain ⟨w12, w3, rfl, h12, h3⟩ := gen_split h
  obtain ⟨w1, w2, rfl, h1, h2⟩ := gen_split h12
  rw [List.append_assoc]
  exact gen_append h1 (Gen.v hr h2 h3)

/-- small-step derivation ⇒ big-step generation -/
theorem derives_to_gen (G : CFG) {x : List (Symbol String String)} {w : List String}
    (h : G.toMathlib.Derives x (w.map Symbol.terminal)) : G.Gen (x.map Sym.ofMathlib) w := by
  induction h using Relation.ReflTransGen.head_induction_on with
  | refl =>
    rw [List.map_map]
    exact gen_map_t w
  | head hp _ ih =>
    obtain ⟨A, rhs, p, q, hr, rfl, rfl⟩ := (G.produces_iff _ _).mp hp
    simp only [List.map_append, Sym.map_of_map_to] at ih
    simp only [List.map_append, List.map_cons, Sym.ofMathlib, List.append_assoc,
      List.cons_append, List.nil_append]
    exact G.gen_of_gen_rewrite hr ih

/-- general form: for every sentential form -/
theorem gen_iff_derives (G : CFG) (f : List Sym) (w : List String) :
    G.Gen f w ↔ G.toMathlib.Derives (f.map Sym.toMathlib) (w.map Symbol.terminal) := by
  constructor
  · exact G.gen_to_derives
  · intro h
    have := G.derives_to_gen h
    rwa [Sym.map_of_map_to] at this

end CFG

/-- **Spec = Mathlib (context-free grammars).** -/
theorem cfg_lang_iff_mathlib (G : Gamba.CFG) (w : List String) :
    G.Lang w ↔ w ∈ G.toMathlib.language := by
  rw [ContextFreeGrammar.mem_language_iff]
  exact G.gen_iff_derives [.v G.S] w

/-! ### concrete instance: S → a S b | ε -/
def exCFG : Gamba.CFG :=
  { V := ["S"], Sigma := ["a", "b"], S := "S",
    R := [⟨"S", 0, [.t "a", .v "S", .t "b"]⟩, ⟨"S", 1, []⟩] }

example : ["a", "a", "b", "b"] ∈ exCFG.toMathlib.language := by
  rw [← cfg_lang_iff_mathlib]
  have r1 : exCFG.HasRule "S" [.t "a", .v "S", .t "b"] :=
    ⟨⟨"S", 0, [.t "a", .v "S", .t "b"]⟩, by decide, rfl, rfl⟩
  have r2 : exCFG.HasRule "S" [] := ⟨⟨"S", 1, []⟩, by decide, rfl, rfl⟩
  have g0 : exCFG.Gen [.v "S"] [] := .v (u := []) (w := []) r2 .nil .nil
  have g1 : exCFG.Gen [.v "S"] ["a", "b"] :=
    .v (u := ["a", "b"]) (w := []) r1 (.t (CFG.gen_append g0 (.t .nil))) .nil
  exact .v (u := ["a", "a", "b", "b"]) (w := []) r1 (.t (CFG.gen_append g1 (.t .nil))) .nil

end Gamba

#print axioms Gamba.cfg_lang_iff_mathlib
#print axioms Gamba.CFG.gen_iff_derives
#print axioms Gamba.CFG.step_iff_produces
#print axioms Gamba.CFG.steps_iff_derives
