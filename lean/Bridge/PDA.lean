/-
  Bridge.PDA — Mathlib has no pushdown automata, but it has context-free languages.  The proved PDA → CFG conversion
  (`pda_toCfg_lang`, Sipser Lemma 2.27 for the model) composed with `cfg_lang_iff_mathlib` ties our PDA acceptance spec to
  Mathlib's `ContextFreeGrammar.language`: the words a PDA accepts (spec `PDA.Accepts`) are exactly the Mathlib language of the
  grammar the library computes from it.  In particular every language accepted by such a PDA is context-free in Mathlib's sense.
-/
import Mathlib.Computability.ContextFreeGrammar
import Gamba.Props.C10c
import Bridge.CFG
namespace Gamba

theorem pda_accepts_iff_mathlib_cfg (P : SPDA) (hv : P.valid = true) (hk : (P.delta.map (·.1)).Nodup) (heq : P.epsG = P.eps)
    (hε : freshSymbol P.Gamma ≠ .ok P.epsG) (hd : P.epsG ≠ "∅") (hnames : ∀ q, q ∈ P.Q → '\'' ∉ q.toList)
    (G : CFG) (h : P.toCfg = .ok G) (w : List String) :
    P.Accepts w ↔ w ∈ G.toMathlib.language :=
  ((pda_toCfg_lang P hv hk heq hε hd hnames G h w).symm).trans (cfg_lang_iff_mathlib G w)

/-- the accepted language of such a PDA is context-free in Mathlib's sense -/
theorem pda_language_isContextFree (P : SPDA) (hv : P.valid = true) (hk : (P.delta.map (·.1)).Nodup) (heq : P.epsG = P.eps)
    (hε : freshSymbol P.Gamma ≠ .ok P.epsG) (hd : P.epsG ≠ "∅") (hnames : ∀ q, q ∈ P.Q → '\'' ∉ q.toList)
    (G : CFG) (h : P.toCfg = .ok G) :
    Language.IsContextFree ({w | P.Accepts w} : Language String) :=
  ⟨G.toMathlib, by
    ext w
    exact (pda_accepts_iff_mathlib_cfg P hv hk heq hε hd hnames G h w).symm⟩

#print axioms pda_accepts_iff_mathlib_cfg
#print axioms pda_language_isContextFree
end Gamba
