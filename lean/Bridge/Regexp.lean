/-
  Bridge.Regexp — the denotational specification `Gamba.Regexp.Lang` (Gamba/Spec/Regexp.lean)
  coincides with Mathlib's `RegularExpression.matches'` under the constructor-by-constructor
  translation.  No hypothesis, no discrepancy.
-/
import Mathlib.Computability.RegularExpressions
import Gamba.Spec.Regexp

namespace Gamba
open Computability
variable {τ : Type}

/-- zero ↦ 0, one ↦ 1, sym ↦ char, sum ↦ +, cat ↦ *, star ↦ star -/
def Regexp.toMathlib : Gamba.Regexp τ → RegularExpression τ
  | .zero => 0
  | .one => 1
  | .sym a => RegularExpression.char a
  | .sum r s => r.toMathlib + s.toMathlib
  | .cat r s => r.toMathlib * s.toMathlib
  | .star r => RegularExpression.star r.toMathlib

theorem Regexp.lang_to_mathlib {r : Gamba.Regexp τ} {w : List τ} (h : r.Lang w) :
    w ∈ r.toMathlib.matches' := by
  induction h with
  | one => exact Language.nil_mem_one
  | sym a => exact Set.mem_singleton _
  | sumL _ ih =>
    rw [Regexp.toMathlib, RegularExpression.matches'_add]; exact (Language.mem_add _ _ _).mpr (Or.inl ih)
  | sumR _ ih =>
    rw [Regexp.toMathlib, RegularExpression.matches'_add]; exact (Language.mem_add _ _ _).mpr (Or.inr ih)
  | cat _ _ ih1 ih2 =>
    rw [Regexp.toMathlib, RegularExpression.matches'_mul]; exact Language.append_mem_mul ih1 ih2
  | starNil => exact Language.nil_mem_kstar _
  | @starApp r u v _ _ ih1 ih2 =>
    rw [Regexp.toMathlib, RegularExpression.matches'_star] at ih2 ⊢
    obtain ⟨L, rfl, hL⟩ := Language.mem_kstar.mp ih2
    refine Language.mem_kstar.mpr ⟨u :: L, by simp, ?_⟩
    intro y hy
    rcases List.mem_cons.mp hy with rfl | hy
    · exact ih1
    · exact hL y hy

theorem Regexp.lang_of_mathlib (r : Gamba.Regexp τ) (w : List τ) (h : w ∈ r.toMathlib.matches') :
    r.Lang w := by
  induction r generalizing w with
  | zero => exact absurd h (Language.notMem_zero w)
  | one =>
    have : w = [] := (Language.mem_one w).mp h
    subst this; exact .one
  | sym a =>
    have : w = [a] := Set.mem_singleton_iff.mp h
    subst this; exact .sym a
  | sum r s ihr ihs =>
    rw [Regexp.toMathlib, RegularExpression.matches'_add] at h
    rcases (Language.mem_add _ _ _).mp h with h | h
    · exact .sumL (ihr w h)
    · exact .sumR (ihs w h)
  | cat r s ihr ihs =>
    rw [Regexp.toMathlib, RegularExpression.matches'_mul] at h
    obtain ⟨u, hu, v, hv, rfl⟩ := Language.mem_mul.mp h
    exact .cat (ihr u hu) (ihs v hv)
  | star r ih =>
    rw [Regexp.toMathlib, RegularExpression.matches'_star] at h
    obtain ⟨L, rfl, hL⟩ := Language.mem_kstar.mp h
    clear h
    induction L with
    | nil => exact .starNil
    | cons u L ihL =>
      rw [List.flatten_cons]
      exact .starApp (ih u (hL u (by simp))) (ihL fun y hy => hL y (by simp [hy]))

/-- **Spec = Mathlib (regular expressions).** -/
theorem regexp_lang_iff_mathlib (r : Gamba.Regexp τ) (w : List τ) :
    r.Lang w ↔ w ∈ r.toMathlib.matches' :=
  ⟨Regexp.lang_to_mathlib, Regexp.lang_of_mathlib r w⟩

/-- the same, as an equality of languages -/
theorem regexp_lang_eq_mathlib (r : Gamba.Regexp τ) :
    ({w | r.Lang w} : Language τ) = r.toMathlib.matches' :=
  Language.ext fun w => regexp_lang_iff_mathlib r w

/-! ### concrete instance: `(ab)*a`-/
def exRe : Gamba.Regexp Nat := .cat (.star (.cat (.sym 0) (.sym 1))) (.sym 0)

example : [0, 1, 0] ∈ exRe.toMathlib.matches' :=
  (regexp_lang_iff_mathlib exRe [0, 1, 0]).mp
    (.cat (u := [0, 1]) (v := [0])
      (.starApp (u := [0, 1]) (v := []) (.cat (u := [0]) (v := [1]) (.sym 0) (.sym 1)) .starNil)
      (.sym 0))

example : ¬ (Gamba.Regexp.sym 0 : Gamba.Regexp Nat).Lang [1] := by
  rw [regexp_lang_iff_mathlib]
  change ¬ ([1] ∈ ({[0]} : Set (List Nat)))
  simp

end Gamba

#print axioms Gamba.regexp_lang_iff_mathlib
