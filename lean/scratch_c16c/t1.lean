import Gamba.Proofs.C16a
open Gamba Parse Text
example (l : List Char) (h : Parse.labelOk .pda l = true) : ∃ a u v, l = [a, ',', u, v] ∧ isWordChar a = true ∧ isLabelSym false u = true ∧ isLabelSym false v = true := by
  simp only [labelOk] at h
  split at h
  · simp only [Bool.and_eq_true] at h
    exact ⟨_, _, _, rfl, h.1.1, h.1.2, h.2⟩
  · cases h
example (l : List Char) (h : Parse.labelOk .tm l = true) : ∃ a b d, l = [a, b, ',', d] ∧ isLabelSym true a = true ∧ isLabelSym true b = true ∧ (d = 'L' ∨ d = 'R') := by
  simp only [labelOk] at h
  split at h
  · simp only [Bool.and_eq_true, Bool.or_eq_true, beq_iff_eq] at h
    exact ⟨_, _, _, rfl, h.1.1, h.1.2, h.2⟩
  · cases h
