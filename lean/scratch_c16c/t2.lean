import Gamba.Proofs.C16c
open Gamba Parse
#eval match Parse.parsePda "initial p\nfinal q\np p a,εA a,εB\np q b,Aε ε,εε".toList with | .ok P => repr P | .error e => repr e
#eval match Parse.parseTm "initial p\ninput_symbols\np p aa,R\np q ab,L\np accept __,R".toList with | .ok P => repr P | .error e => repr e
