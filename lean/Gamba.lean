import Gamba.Model
import Gamba.Spec.Automata
import Gamba.Spec.Regexp
import Gamba.Spec.TM
