import Gamba.Model
import Gamba.Spec.Automata
import Gamba.Spec.Regexp
import Gamba.Spec.TM
import Gamba.Props.C05
import Gamba.Props.C11
import Gamba.Props.C14a
import Gamba.Props.C14c
