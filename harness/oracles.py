"""Independent reference semantics (DESIGN.md section 4.3).  Nothing here calls a gambatools
algorithm: only the fields of the objects are read."""
import itertools
from collections import deque


# ------------------------------------------------------------------ NFA / DFA
def nfa_succ(N, q, a):
    return set(N.delta.get((q, a), ())) if hasattr(N.delta, 'get') else set()


def eps_reach(N, S):
    seen = set(S)
    todo = list(S)
    while todo:
        q = todo.pop()
        for t in nfa_succ(N, q, N.epsilon):
            if t not in seen:
                seen.add(t)
                todo.append(t)
    return seen


def nfa_accepts(N, w):
    """(state, position) reachability."""
    start = (N.q0, 0)
    seen = {start}
    todo = [start]
    while todo:
        q, i = todo.pop()
        if i == len(w) and q in N.F:
            return True
        nxt = [(t, i) for t in nfa_succ(N, q, N.epsilon)]
        if i < len(w) and w[i] != N.epsilon:
            nxt += [(t, i + 1) for t in nfa_succ(N, q, w[i])]
        for c in nxt:
            if c not in seen:
                seen.add(c)
                todo.append(c)
    return False


def dfa_accepts(D, w):
    q = D.q0
    for a in w:
        q = D.delta[q, a]
    return q in D.F


class Det:
    """A deterministic view (start, step, final) of a DFA or, by on-the-fly powerset, of an NFA."""

    def __init__(self, A):
        self.A = A
        self.is_nfa = hasattr(A, 'epsilon')
        self.Sigma = set(A.Sigma)
        if self.is_nfa:
            self.start = frozenset(eps_reach(A, {A.q0}))
        else:
            self.start = A.q0

    def step(self, s, a):
        if self.is_nfa:
            T = set()
            for q in s:
                T |= nfa_succ(self.A, q, a)
            return frozenset(eps_reach(self.A, T))
        return self.A.delta[s, a]

    def final(self, s):
        if self.is_nfa:
            return any(q in self.A.F for q in s)
        return s in self.A.F


def distinguish(A, B, Sigma=None, combine=None):
    """Shortest word on which A and B (DFA or NFA) differ, or None if equivalent (exact, all lengths)."""
    a, b = Det(A), Det(B)
    Sigma = sorted(Sigma if Sigma is not None else (a.Sigma | b.Sigma))
    start = (a.start, b.start)
    seen = {start: ''}
    todo = deque([start])
    while todo:
        s = todo.popleft()
        if a.final(s[0]) != b.final(s[1]):
            return seen[s]
        for x in Sigma:
            try:
                t = (a.step(s[0], x), b.step(s[1], x))
            except KeyError:
                return seen[s] + x
            if t not in seen:
                seen[t] = seen[s] + x
                todo.append(t)
    return None


def distinguish_pred(dets, Sigma, pred):
    """Shortest word w with pred([accepts_i(w)]) false, or None.  dets: list of automata."""
    ds = [Det(A) for A in dets]
    Sigma = sorted(Sigma)
    start = tuple(d.start for d in ds)
    seen = {start: ''}
    todo = deque([start])
    while todo:
        s = todo.popleft()
        if not pred([d.final(x) for d, x in zip(ds, s)]):
            return seen[s]
        for a in Sigma:
            t = tuple(d.step(x, a) for d, x in zip(ds, s))
            if t not in seen:
                seen[t] = seen[s] + a
                todo.append(t)
    return None


def reachable(D, q=None):
    q = D.q0 if q is None else q
    seen = {q}
    todo = [q]
    while todo:
        p = todo.pop()
        for a in D.Sigma:
            t = D.delta[p, a]
            if t not in seen:
                seen.add(t)
                todo.append(t)
    return seen


def nerode_classes(D, states=None):
    """Partition of `states` (default all of Q) by indistinguishability (naive refinement)."""
    Q = sorted(D.Q)
    Sigma = sorted(D.Sigma)
    cls = {q: (q in D.F) for q in Q}
    while True:
        sig = {q: (cls[q],) + tuple(cls[D.delta[q, a]] for a in Sigma) for q in Q}
        ids = {}
        new = {}
        for q in Q:
            new[q] = ids.setdefault(sig[q], len(ids))
        if len(set(new.values())) == len(set(cls.values())):
            cls = new
            break
        cls = new
    if states is None:
        states = Q
    return len(set(cls[q] for q in states)), cls


def dfa_valid(D):
    try:
        if D.q0 not in D.Q or not set(D.F) <= set(D.Q):
            return False
        for (q, a), r in D.delta.items():
            if q not in D.Q or a not in D.Sigma or r not in D.Q:
                return False
        return all((q, a) in D.delta for q in D.Q for a in D.Sigma)
    except Exception:
        return False


def nfa_valid(N):
    try:
        if N.q0 not in N.Q or not set(N.F) <= set(N.Q) or N.epsilon in N.Sigma:
            return False
        for (q, a), R in N.delta.items():
            if q not in N.Q or (a not in N.Sigma and a != N.epsilon) or not set(R) <= set(N.Q):
                return False
        return True
    except Exception:
        return False


def iso_ref(D1, D2):
    m, inv, todo = {}, {}, [(D1.q0, D2.q0)]
    while todo:
        p, q = todo.pop()
        if p in m:
            if m[p] != q:
                return False
            continue
        if q in inv:
            return False
        if (p in D1.F) != (q in D2.F):
            return False
        m[p] = q
        inv[q] = p
        for a in D1.Sigma:
            todo.append((D1.delta[p, a], D2.delta[q, a]))
    return True


# ------------------------------------------------------------------ Regexp (Brzozowski derivatives on specs)
def rx_nullable(r):
    t = r[0]
    if t in ('one', 'star'):
        return True
    if t in ('zero', 'sym'):
        return False
    if t == 'sum':
        return rx_nullable(r[1]) or rx_nullable(r[2])
    return rx_nullable(r[1]) and rx_nullable(r[2])


def rx_deriv(r, a):
    t = r[0]
    if t in ('zero', 'one'):
        return ['zero']
    if t == 'sym':
        return ['one'] if r[1] == a else ['zero']
    if t == 'sum':
        return rx_mk_sum(rx_deriv(r[1], a), rx_deriv(r[2], a))
    if t == 'star':
        return rx_mk_cat(rx_deriv(r[1], a), r)
    d = rx_mk_cat(rx_deriv(r[1], a), r[2])
    if rx_nullable(r[1]):
        return rx_mk_sum(d, rx_deriv(r[2], a))
    return d


def rx_mk_sum(a, b):
    if a == ['zero']:
        return b
    if b == ['zero'] or a == b:
        return a
    return ['sum', a, b]


def rx_mk_cat(a, b):
    if a == ['zero'] or b == ['zero']:
        return ['zero']
    if a == ['one']:
        return b
    if b == ['one']:
        return a
    return ['cat', a, b]


def rx_matches(r, w):
    for a in w:
        r = rx_deriv(r, a)
    return rx_nullable(r)


def rx_symbols(r):
    t = r[0]
    if t == 'sym':
        return {r[1]}
    out = set()
    for x in r[1:]:
        if isinstance(x, list):
            out |= rx_symbols(x)
    return out


# ------------------------------------------------------------------ TM
def tm_run(T, w, k):
    """Returns (verdict, trace) by direct stepping per Sipser: verdict True/False/None."""
    tape = list(w) if w else [T.blank]
    q, head = T.q0, 0
    trace = [(q, list(tape), head)]
    if q == T.q_accept:
        return True, trace
    if q == T.q_reject:
        return False, trace
    for _ in range(k):
        a = tape[head]
        if (q, a) in T.delta:
            q, b, d = T.delta[q, a]
        else:
            q, b, d = T.q_reject, a, 'R'
        tape[head] = b
        head = max(head - 1, 0) if d == 'L' else head + 1
        if head == len(tape):
            tape.append(T.blank)
        trace.append((q, list(tape), head))
        if q == T.q_accept:
            return True, trace
        if q == T.q_reject:
            return False, trace
    return None, trace


# ------------------------------------------------------------------ CFG (span saturation on the original grammar)
def cfg_rules(G):
    """[(lhs, [(kind, name)...])] read from the object fields only."""
    from gambatools.cfg import Variable
    return [(str(r.variable), [('v' if isinstance(x, Variable) else 't', str(x)) for x in r.alternative.symbols]) for r in G.R]


def cfg_spans(rules, w):
    """T[(A, i, j)] = True iff A =>* w[i:j]; least fixed point (handles epsilon and unit rules, cycles)."""
    n = len(w)
    T = set()
    changed = True

    def form_spans(rhs, i):
        # set of end positions j such that rhs =>* w[i:j] under current T
        ends = {i}
        for kind, name in rhs:
            new = set()
            for e in ends:
                if kind == 't':
                    if e < n and w[e] == name:
                        new.add(e + 1)
                else:
                    for j in range(e, n + 1):
                        if (name, e, j) in T:
                            new.add(j)
            ends = new
            if not ends:
                break
        return ends

    while changed:
        changed = False
        for lhs, rhs in rules:
            for i in range(n + 1):
                for j in form_spans(rhs, i):
                    if (lhs, i, j) not in T:
                        T.add((lhs, i, j))
                        changed = True
    return T


def cfg_accepts(rules, S, w):
    return (S, 0, len(w)) in cfg_spans(rules, w)


def cfg_lang(rules, S, Sigma, n):
    import itertools
    out = set()
    for k in range(n + 1):
        for t in itertools.product(sorted(Sigma), repeat=k):
            w = ''.join(t)
            if cfg_accepts(rules, S, w):
                out.add(w)
    return out


# ------------------------------------------------------------------ PDA (exact, summary saturation)
def pda_transitions(P):
    return [(p, a, u, q, v) for (p, a, u), T in P.delta.items() for (q, v) in T]


def pda_accepts(P, w):
    """Exact acceptance by final state (any stack), via net-zero summaries Z and level summaries L on the PDA extended
    with a draining state.  Nodes are (state, position)."""
    eps = P.epsilon
    n = len(w)
    DR = ('__drain__',)
    trans = pda_transitions(P)
    trans += [(f, eps, eps, DR, eps) for f in P.F]
    gam = set(P.Gamma) | {v for (_, _, u, _, v) in trans if v != eps} | {u for (_, _, u, _, _) in trans if u != eps}
    trans += [(DR, eps, x, DR, eps) for x in gam]
    states = set(P.Q) | {DR} | {t[0] for t in trans} | {t[3] for t in trans}

    def steps(t):
        p, a, u, q, v = t
        if a == eps:
            return [((p, i), (q, i)) for i in range(n + 1)]
        return [((p, i), (q, i + 1)) for i in range(n) if w[i] == a]

    noop, push, pop, repl = [], [], [], []
    for t in trans:
        p, a, u, q, v = t
        for s, d in steps(t):
            if u == eps and v == eps:
                noop.append((s, d))
            elif u == eps:
                push.append((s, d, v))
            elif v == eps:
                pop.append((s, d, u))
            else:
                repl.append((s, d, u, v))
    pushes_into = {}
    for s, d, x in push:
        pushes_into.setdefault((d, x), []).append(s)
    pops_from = {}
    for s, d, y in pop:
        pops_from.setdefault((s, y), []).append(d)
    repl_from = {}
    for s, d, y, z in repl:
        repl_from.setdefault((s, y), []).append((d, z))
    Z, L = set(), set()
    Zf, Zb = {}, {}      # forward / backward index
    Lend = {}            # end node -> [(s, x, y)]
    Lstart = {}
    todo = []

    def addZ(s, t):
        if (s, t) not in Z:
            Z.add((s, t))
            Zf.setdefault(s, []).append(t)
            Zb.setdefault(t, []).append(s)
            todo.append(('Z', s, t))

    def addL(s, x, t, y):
        if (s, x, t, y) not in L:
            L.add((s, x, t, y))
            Lend.setdefault(t, []).append((s, x, y))
            todo.append(('L', s, x, t, y))

    nodes = [(q, i) for q in states for i in range(n + 1)]
    for s in nodes:
        addZ(s, s)
    for s, d in noop:
        addZ(s, d)
    for (d, x) in pushes_into:
        addL(d, x, d, x)
    while todo:
        f = todo.pop()
        if f[0] == 'Z':
            _, s, t = f
            for u in list(Zf.get(t, ())):
                addZ(s, u)
            for r in list(Zb.get(s, ())):
                addZ(r, t)
            for (r, x, y) in list(Lend.get(s, ())):
                addL(r, x, t, y)
        else:
            _, s, x, t, y = f
            for u in list(Zf.get(t, ())):
                addL(s, x, u, y)
            for (d, z) in repl_from.get((t, y), ()):
                addL(s, x, d, z)
            for d in pops_from.get((t, y), ()):
                for src in pushes_into.get((s, x), ()):
                    addZ(src, d)
    return ((P.q0, 0), (DR, n)) in Z


def pda_lang(P, n):
    import itertools
    out = set()
    for k in range(n + 1):
        for t in itertools.product(sorted(P.Sigma), repeat=k):
            w = ''.join(t)
            if pda_accepts(P, w):
                out.add(w)
    return out


def pda_eps_closure(P, R, cap):
    """exact epsilon closure of a set of configurations (state, tuple stack); stops once more than `cap` configurations
    are known.  Returns (set, complete?)."""
    eps = P.epsilon
    trans = [t for t in pda_transitions(P) if t[1] == eps]
    seen = set(R)
    todo = list(R)
    while todo:
        if len(seen) > cap:
            return seen, False
        q, st = todo.pop()
        for (p, a, u, r, v) in trans:
            if p != q:
                continue
            if u != eps and (not st or st[-1] != u):
                continue
            st1 = st if u == eps else st[:-1]
            if v != eps:
                st1 = st1 + (v,)
            c = (r, st1)
            if c not in seen:
                seen.add(c)
                todo.append(c)
    return seen, len(seen) <= cap


def pda_step(P, a, R):
    eps = P.epsilon
    out = set()
    for q, st in R:
        for (p, b, u, r, v) in pda_transitions(P):
            if p != q or b != a:
                continue
            if u != eps and (not st or st[-1] != u):
                continue
            st1 = st if u == eps else st[:-1]
            if v != eps:
                st1 = st1 + (v,)
            out.add((r, st1))
    return out


def subset_name_collision(N):
    """two DISTINCT reachable subsets of the subset construction whose sorted set notation {a,b,...} is the same text
    (only possible when a state name is empty or contains ',' '{' '}'), or None"""
    start = frozenset(eps_reach(N, {N.q0}))
    seen, todo, names = {start}, [start], {}
    while todo:
        S = todo.pop()
        nm = '{' + ','.join(sorted(S)) + '}'
        if nm in names and names[nm] != S:
            return sorted(map(sorted, (names[nm], S)))
        names[nm] = S
        for a in N.Sigma:
            T = set()
            for q in S:
                T |= set(nfa_succ(N, q, a))
            T = frozenset(eps_reach(N, T))
            if T not in seen:
                seen.add(T)
                todo.append(T)
    return None
