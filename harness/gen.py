"""Seeded, hash-order independent generators of structured inputs (DESIGN.md section 4.2).
All generators return JSON-able specs (see enc.py)."""
import itertools

NAME_SCHEMES = [
    lambda i: 'q%d' % i,
    lambda i: 'q%d' % i,
    lambda i: 's%d' % (i + 1),
    lambda i: 'ABCDEFGH'[i],
    lambda i: ['start', 'accept', 'trap1', 'q1', 'P1', 'M1', 'x', 'reject'][i],
    lambda i: ['q1', 'q10', 'q2', 'Q', 'q', 'q0', 'q_accept1', 'q_initial1'][i],
    lambda i: ['0', '1', '10', '11', '01', '00', '100', '2'][i],
]
ODD_NAMES = lambda i: ['', 'q', ' ', '{}', '{q,p}', '(a,b)', 'None', '0'][i]      # legal str names that no parser produces
ALPHABETS = [['a', 'b'], ['a', 'b'], ['a'], ['0', '1'], ['a', 'b', 'c'], ['x', 'y'], []]


def all_words(Sigma, n):
    out = []
    for k in range(n + 1):
        for t in itertools.product(sorted(Sigma), repeat=k):
            out.append(''.join(t))
    return out


def subsets(xs):
    xs = list(xs)
    for r in range(len(xs) + 1):
        for c in itertools.combinations(xs, r):
            yield list(c)


# ------------------------------------------------------------------ DFA
def exhaustive_dfas(n, Sigma):
    Q = ['q%d' % i for i in range(n)]
    keys = [(q, a) for q in Q for a in Sigma]
    for targets in itertools.product(Q, repeat=len(keys)):
        delta = [[q, a, t] for (q, a), t in zip(keys, targets)]
        for F in subsets(Q):
            yield {'Q': Q, 'Sigma': list(Sigma), 'delta': delta, 'q0': Q[0], 'F': F}


def random_dfa(rng, nmax=6, Sigma=None, names=None, total=True):
    n = rng.randint(1, nmax)
    scheme = names or rng.choice(NAME_SCHEMES)
    Q = [scheme(i) for i in range(n)]
    if Sigma is None:
        Sigma = rng.choice(ALPHABETS)
    mode = rng.random()
    delta = []
    for q in Q:
        for a in Sigma:
            if total or rng.random() < 0.7:
                if mode < 0.25:      # chain-like: many distinct reachable states
                    t = Q[min(Q.index(q) + rng.randint(0, 1), n - 1)] if rng.random() < 0.7 else rng.choice(Q)
                else:
                    t = rng.choice(Q)
                delta.append([q, a, t])
    r = rng.random()
    if r < 0.1:
        F = []
    elif r < 0.2:
        F = list(Q)
    else:
        F = [q for q in Q if rng.random() < 0.45]
    q0 = Q[0] if rng.random() < 0.7 else rng.choice(Q)
    rng.shuffle(Q)
    return {'Q': Q, 'Sigma': list(Sigma), 'delta': delta, 'q0': q0, 'F': F}


# ------------------------------------------------------------------ NFA
EPSILONS = ['', '_', 'ε', '_', 'e']


def exhaustive_nfas(n, Sigma, eps='_'):
    Q = ['q%d' % i for i in range(n)]
    keys = [(q, a) for q in Q for a in list(Sigma) + [eps]]
    subs = list(subsets(Q))
    for targets in itertools.product(subs, repeat=len(keys)):
        delta = [[q, a, t] for (q, a), t in zip(keys, targets) if t]
        for F in subs:
            yield {'Q': Q, 'Sigma': list(Sigma), 'delta': delta, 'q0': Q[0], 'F': F, 'eps': eps, 'dd': True}


def random_nfa(rng, nmax=6, Sigma=None, eps=None, names=None, prefix=None, live=False):
    n = rng.randint(1, nmax)
    scheme = names or rng.choice(NAME_SCHEMES)
    Q = [scheme(i) for i in range(n)]
    if prefix:
        Q = [prefix + q for q in Q]
    if Sigma is None:
        Sigma = rng.choice(ALPHABETS)
    if eps is None:
        eps = rng.choice(EPSILONS)
    if eps in Sigma:
        eps = '_'
    p_eps = rng.choice([0.0, 0.2, 0.4, 0.7])
    p_sym = rng.choice([0.2, 0.5, 0.8])
    delta = []
    for q in Q:
        for a in list(Sigma) + [eps]:
            p = p_eps if a == eps else p_sym
            if rng.random() < p:
                k = rng.choice([1, 1, 1, 2, 3])
                T = sorted(set(rng.choice(Q) for _ in range(k)))
                delta.append([q, a, T])
            elif rng.random() < 0.1:
                delta.append([q, a, []])       # explicit empty entry
    if n >= 2 and rng.random() < 0.3:          # force an epsilon cycle
        a, b = rng.sample(Q, 2)
        delta = [e for e in delta if not (e[1] == eps and e[0] in (a, b))]
        delta.append([a, eps, sorted({b} | ({rng.choice(Q)} if rng.random() < 0.5 else set()))])
        delta.append([b, eps, [a]])
    if rng.random() < 0.15:                    # epsilon self loop
        q = rng.choice(Q)
        delta = [e for e in delta if not (e[0] == q and e[1] == eps)]
        delta.append([q, eps, [q]])
    r = rng.random()
    F = [] if r < 0.1 else list(Q) if r < 0.2 else [q for q in Q if rng.random() < 0.4]
    q0 = Q[0] if rng.random() < 0.7 else rng.choice(Q)
    if live and Sigma:       # make sure some non-empty word is accepted
        f = rng.choice(Q)
        a = rng.choice(list(Sigma))
        if f not in F:
            F = F + [f]
        hit = [e for e in delta if e[0] == q0 and e[1] == a]
        if hit:
            hit[0][2] = sorted(set(hit[0][2]) | {f})
        else:
            delta.append([q0, a, [f]])
    rng.shuffle(delta)
    return {'Q': Q, 'Sigma': list(Sigma), 'delta': delta, 'q0': q0, 'F': F, 'eps': eps,
            'dd': rng.random() < 0.6}


def nfa_features(s):
    eps = s['eps']
    eps_edges = [(q, t) for q, a, T in s['delta'] if a == eps for t in T]
    return {'eps_edges': len(eps_edges), 'partial': len(s['delta']) < len(s['Q']) * (len(s['Sigma']) + 1),
            'F_empty': not s['F'], 'n': len(s['Q'])}


# ------------------------------------------------------------------ Regexp
def regexps_of_size(k, Sigma, _cache={}):
    """all trees with exactly k operator nodes... measured in number of nodes minus leaves"""
    key = (k, tuple(Sigma))
    if key in _cache:
        return _cache[key]
    if k == 0:
        out = [['zero'], ['one']] + [['sym', a] for a in Sigma]
    else:
        out = [['star', r] for r in regexps_of_size(k - 1, Sigma)]
        for i in range(k):
            for l in regexps_of_size(i, Sigma):
                for r in regexps_of_size(k - 1 - i, Sigma):
                    out.append(['sum', l, r])
                    out.append(['cat', l, r])
    _cache[key] = out
    return out


def random_regexp(rng, size, Sigma):
    if size <= 0:
        p = rng.random()
        if p < 0.12:
            return ['zero']
        if p < 0.3:
            return ['one']
        return ['sym', rng.choice(Sigma)]
    p = rng.random()
    if p < 0.3:
        return ['star', random_regexp(rng, size - 1, Sigma)]
    k = rng.randint(0, size - 1)
    return ['sum' if p < 0.6 else 'cat', random_regexp(rng, k, Sigma), random_regexp(rng, size - 1 - k, Sigma)]


# ------------------------------------------------------------------ TM
def scanner_tm(rng):
    """moves right over the input and decides at the first blank: the number of steps grows with the word length"""
    Sigma = rng.choice([['a'], ['a', 'b']])
    blank = '_'
    delta = [['q0', a, 'q0' if rng.random() < 0.8 else 'q1', a, 'R'] for a in Sigma]
    delta += [['q1', a, 'q0', a, 'R'] for a in Sigma]
    delta.append(['q0', blank, 'qA', blank, rng.choice(['L', 'R'])])
    if rng.random() < 0.5:
        delta.append(['q1', blank, 'qA' if rng.random() < 0.5 else 'qR', blank, 'R'])
    return {'Q': ['q0', 'q1', 'qA', 'qR'], 'Sigma': Sigma, 'Gamma': Sigma + [blank], 'delta': delta, 'q0': 'q0', 'qa': 'qA', 'qr': 'qR', 'blank': blank}


def random_tm(rng, nmax=4, halting_start=0.1):
    if rng.random() < 0.25:
        return scanner_tm(rng)
    n = rng.randint(1, nmax)
    work = ['q%d' % i for i in range(n)]
    qa, qr = 'qA', 'qR'
    Q = work + [qa, qr]
    Sigma = rng.choice([['a'], ['a', 'b'], ['0', '1'], []])
    blank = rng.choice(['_', '□', 'B'])
    Gamma = list(Sigma) + [blank] + rng.choice([[], ['x'], ['x', 'y'], ['%'], ['#', '%'], ['$', '&']])
    delta = []
    dens = rng.choice([0.4, 0.7, 0.95])
    for p in work:
        for a in Gamma:
            if rng.random() < dens:
                q = rng.choice(Q) if rng.random() < 0.85 else rng.choice([qa, qr])
                delta.append([p, a, q, rng.choice(Gamma), rng.choice(['L', 'R', 'R'])])
    q0 = work[0]
    if rng.random() < halting_start:
        q0 = rng.choice([qa, qr])
    if rng.random() < 0.1:   # transitions out of halting states (never used by a correct simulator)
        delta.append([qa, rng.choice(Gamma), rng.choice(Q), rng.choice(Gamma), 'R'])
    return {'Q': Q, 'Sigma': Sigma, 'Gamma': Gamma, 'delta': delta, 'q0': q0, 'qa': qa, 'qr': qr, 'blank': blank}


# ------------------------------------------------------------------ CFG
UPPER = 'SABCDEFGHIJKLMNOPQRTUVWXYZ'


MULTI = ['S', 'A', 'BC', 'AB', 'C', 'B', 'AA', 'ABC', "p'q", 'S0']


def random_cfg(rng, nvars=None, Sigma=None, maxlen=3, cnf=False, simple=True, multichar=False):
    """Simple-format grammar: single upper-case variables, lower-case terminals (multichar: names whose concatenations are ambiguous)."""
    nv = nvars or rng.randint(1, 4)
    V = list(UPPER[:nv])
    if rng.random() < 0.2:
        V = rng.sample(list(UPPER), nv)
    if multichar:
        nv = max(nv, 3)
        V = ['S'] + rng.sample(MULTI[1:], nv - 1)
    Sigma = Sigma or rng.choice([['a', 'b'], ['a'], ['a', 'b', 'c']])
    R = []
    aid = 0
    for A in V:
        k = rng.randint(1, 3)
        for _ in range(k):
            if cnf:
                p = rng.random()
                if p < 0.45:
                    rhs = [['t', rng.choice(Sigma)]]
                else:
                    body = [v for v in V if v != V[0]] or None
                    if body is None:
                        rhs = [['t', rng.choice(Sigma)]]
                    else:
                        rhs = [['v', rng.choice(body)], ['v', rng.choice(body)]]
            else:
                p = rng.random()
                if p < 0.15:
                    rhs = []
                elif p < 0.3:
                    rhs = [['v', rng.choice(V)]]
                else:
                    n = rng.randint(1, maxlen)
                    rhs = [(['v', rng.choice(V)] if rng.random() < 0.45 else ['t', rng.choice(Sigma)]) for _ in range(n)]
            if [A, rhs] not in [[r[0], r[2]] for r in R] or rng.random() < 0.1:
                R.append([A, aid, rhs])
                aid += 1
    if cnf and rng.random() < 0.3:
        R.append([V[0], aid, []])
    used = sorted({n for _, _, rhs in R for k, n in rhs if k == 't'})
    return {'V': V, 'Sigma': used if rng.random() < 0.8 else sorted(set(used) | set(Sigma)), 'R': R, 'S': V[0]}


# ------------------------------------------------------------------ PDA
def random_pda(rng, nmax=3, tmax=6, markers=False):
    n = rng.randint(1, nmax)
    scheme = rng.choice([lambda i: 'q%d' % i, lambda i: 's%d' % i, lambda i: ['q_accept1', 'q_initial1', 'M1', 'q_drain1'][i],
                         lambda i: ['p', 'p_p', 'p_p_p', 'q'][i]])
    Q = [scheme(i) for i in range(n)]
    Sigma = rng.choice([['a', 'b'], ['a'], ['a', 'b'], ['0', '1']])
    Gamma = rng.choice([['x'], ['x', 'y'], ['x', 'y'], ['A', 'B']])
    if markers and rng.random() < 0.5:
        Gamma = Gamma + rng.choice([['$'], ['$', '@'], ['∅'], ['#'], ['%'], ['%', '&'], ['!', '~'], ['^', '*']])
    eps = rng.choice(['_', '_', 'ε', ''])
    delta = {}
    style = rng.random()
    if style > 0.85 and len(Gamma) >= 2 and n >= 2:      # two replace moves popping the same symbol into the same state, pushing different symbols
        p, q = rng.choice(Q), rng.choice(Q)
        u = Gamma[0]
        delta[(Q[0], Sigma[0], eps)] = {(p, u)}
        delta[(p, Sigma[0], u)] = {(q, Gamma[0])}
        delta[(p, Sigma[-1], u)] = {(q, Gamma[1])}
        r = rng.choice(Q)
        delta.setdefault((q, Sigma[0], Gamma[0]), set()).add((r, eps))
        delta.setdefault((q, Sigma[-1], Gamma[1]), set()).add((Q[-1], eps))
    for _ in range(rng.randint(1, tmax)):
        p, q = rng.choice(Q), rng.choice(Q)
        a = rng.choice(Sigma + [eps]) if rng.random() < 0.75 else eps
        if style < 0.3:      # push/pop only
            if rng.random() < 0.5:
                u, v = eps, rng.choice(Gamma)
            else:
                u, v = rng.choice(Gamma), eps
        else:
            u = rng.choice(Gamma + [eps, eps])
            v = rng.choice(Gamma + [eps, eps])
        delta.setdefault((p, a, u), set()).add((q, v))
    if rng.random() < 0.35:   # fan-out: one (state, input, pop) key with several targets, another key hitting only one of them
        for key in list(delta)[:2]:
            delta[key].add((rng.choice(Q), rng.choice(Gamma + [eps, eps])))
    r = rng.random()
    F = [] if r < 0.08 else list(Q) if r < 0.2 else [q for q in Q if rng.random() < 0.5]
    if rng.random() < 0.5:   # a guaranteed accepting computation on a non-empty word that leaves a symbol on the stack
        delta.setdefault((Q[0], Sigma[0], eps), set()).add((Q[-1], Gamma[0]))
        if Q[-1] not in F:
            F = F + [Q[-1]]
    d = [[p, a, u, sorted([list(t) for t in T])] for (p, a, u), T in delta.items()]
    return {'Q': Q, 'Sigma': Sigma, 'Gamma': Gamma, 'delta': d, 'q0': Q[0], 'F': F, 'eps': eps, 'dd': True}


def ambiguous_cfg(rng):
    """CNF grammar over multi-character variable names whose concatenations coincide: S -> X1 Y1 | X2 Y2 with X1+Y1 == X2+Y2"""
    base = rng.choice(['ABC', 'ABCD', 'AAB', 'XYZ'])
    cuts = rng.sample(range(1, len(base)), 2)
    names = []
    R = [['S', 0, [['v', base[:cuts[0]]], ['v', base[cuts[0]:]]]], ['S', 1, [['v', base[:cuts[1]]], ['v', base[cuts[1]:]]]]]
    for c in cuts:
        names += [base[:c], base[c:]]
    names = sorted(set(names))
    Sigma = ['a', 'b', 'c', 'd']
    aid = 2
    for i, n in enumerate(names):
        R.append([n, aid, [['t', Sigma[i % 4]]]])
        aid += 1
        if rng.random() < 0.3:
            R.append([n, aid, [['t', rng.choice(Sigma)]]])
            aid += 1
    return {'V': ['S'] + names, 'Sigma': Sigma, 'R': R, 'S': 'S'}


def ambiguous_cfg2(rng):
    """CNF grammar S -> X1 Y1 where X2, Y2 with X1+Y1 == X2+Y2 are also variables (with their own terminals): a table keyed on
    concatenated names confuses the two"""
    base = rng.choice(['ABC', 'ABCD', 'AAB', 'AAA', 'XYZ'])
    c1, c2 = rng.sample(range(1, len(base)), 2)
    names = []
    for n in (base[:c1], base[c1:], base[:c2], base[c2:]):
        if n not in names:
            names.append(n)
    Sigma = ['a', 'b', 'c', 'd']
    R = [['S', 0, [['v', base[:c1]], ['v', base[c1:]]]]]
    for i, n in enumerate(names):
        R.append([n, i + 1, [['t', Sigma[i % 4]]]])
    if rng.random() < 0.5:
        R.append([names[0], len(R), [['v', names[-1]], ['v', names[0]]]])
    return {'V': ['S'] + names, 'Sigma': Sigma[:len(names)], 'R': R, 'S': 'S'}


def unit_chain_cfg(rng):
    """a chain of unit rules S -> A -> B -> C ... with terminal rules at the end, the rules listed in random order"""
    n = rng.randint(3, 5)
    V = ['S'] + list('ABCDE')[:n - 1]
    R = []
    for i in range(n - 1):
        R.append([V[i], 0, [['v', V[i + 1]]]])
        if rng.random() < 0.4:
            R.append([V[i], 0, [['t', rng.choice('ab')]]])
    R.append([V[-1], 0, [['t', 'c']]])
    R.append([V[-1], 0, [['t', 'a'], ['v', V[-1]]]])
    if rng.random() < 0.3:
        R.append([V[-1], 0, [['v', V[0]]]])      # unit cycle
    rng.shuffle(R)
    for i, r in enumerate(R):
        r[1] = i
    return {'V': V, 'Sigma': sorted({n for _, _, rhs in R for k, n in rhs if k == 't'}), 'R': R, 'S': 'S'}


def ambiguous_stack_pda(rng):
    """stack symbols s1, s2 and s1+s2: the stacks [s1+s2] and [s1, s2] print alike but are different configurations;
    both are epsilon-reachable in the same state and only one of them leads to acceptance"""
    s1, s2 = rng.choice([('a', 'b'), ('x', 'y'), ('A', 'AA'), ('0', '1')])
    Gamma = [s1, s2, s1 + s2] if s1 + s2 not in (s1, s2) else [s1, s2]
    eps = rng.choice(['_', 'ε', ''])
    Q = ['q0', 'q1', 'q2', 'qf']
    a = 'x' if 'x' not in Gamma else 'c'
    delta = {('q0', eps, eps): {('q1', s1 + s2), ('q2', s1)}, ('q2', eps, eps): {('q1', s2)}}
    pop = rng.choice([s1 + s2, s2])
    delta[('q1', a, pop)] = {('qf', eps)}
    if rng.random() < 0.5:
        delta[('qf', a, s1)] = {('qf', eps)}
    d = [[p, b, u, sorted([list(t) for t in T])] for (p, b, u), T in delta.items()]
    rng.shuffle(d)
    return {'Q': Q, 'Sigma': [a], 'Gamma': sorted(set(Gamma)), 'delta': d, 'q0': 'q0', 'F': ['qf'], 'eps': eps, 'dd': True}


def push_loop_pda(rng):
    """an epsilon loop that grows the stack next to an epsilon branch of length k >= 1 towards the state that reads a letter:
    the epsilon-reachable configurations are infinite, yet every accepted word has a short accepting run"""
    k = rng.randint(1, 3)
    names = rng.choice([['push', 'mid', 'next', 'ready', 'done'], ['a0', 'b1', 'c2', 'd3', 'e4'], ['z', 'y', 'x', 'w', 'v'],
                        ['q0', 'q1', 'q2', 'q3', 'q4']])
    eps = rng.choice(['_', 'ε', ''])
    chain = names[:k + 1]
    done = names[-1]
    loop_at = rng.choice(chain[:-1])
    delta = {}
    for p, q in zip(chain, chain[1:]):
        delta.setdefault((p, eps, eps), set()).add((q, eps))
    delta.setdefault((loop_at, eps, eps), set()).add((loop_at, 'x'))
    delta[(chain[-1], 'a', eps)] = {(done, eps)}
    if rng.random() < 0.5:
        delta[(done, 'a', 'x')] = {(done, eps)}
    d = [[p, b, u, sorted([list(t) for t in T])] for (p, b, u), T in delta.items()]
    rng.shuffle(d)
    return {'Q': chain + [done], 'Sigma': ['a'], 'Gamma': ['x'], 'delta': d, 'q0': chain[0], 'F': [done], 'eps': eps, 'dd': True}


def chain_dfa(rng):
    """a line q0 -> q1 -> ... -> qk of `a`-moves with few accepting states far apart, other letters to a trap: fixpoint
    computations over it need several passes in most iteration orders"""
    k = rng.randint(4, 8)
    names = ['q%d' % i for i in range(k + 1)]
    rng.shuffle(names)
    Sigma = rng.choice([['a'], ['a', 'b']])
    trap = 't'
    Q = names + [trap]
    delta = []
    for i, q in enumerate(names):
        delta.append([q, 'a', names[i + 1] if i < k else trap])
        for b in Sigma[1:]:
            delta.append([q, b, trap])
    for b in Sigma:
        delta.append([trap, b, trap])
    F = sorted({names[rng.randint(0, 1)], names[k]} | ({names[rng.randint(0, k)]} if rng.random() < 0.3 else set()))
    rng.shuffle(delta)
    return {'Q': Q, 'Sigma': Sigma, 'delta': delta, 'q0': names[0], 'F': F}


def fanout_pda(rng):
    """no stack: q0 -a-> {p, q}, q0 -b-> {p, r}, q -c-> f, r -d-> f (language {ac, bd}); one step reaches two NEW configurations and
    another step of the same level reaches only one of them"""
    eps = rng.choice(['_', 'ε', ''])
    names = rng.choice([['q0', 'p', 'q', 'r', 'f'], ['s0', 's1', 's2', 's3', 's4'], ['A', 'B', 'C', 'D', 'E']])
    q0, p, q, r, f = names
    a, b, c, d = rng.choice([('a', 'b', 'c', 'd'), ('a', 'b', 'a', 'b'), ('0', '1', '0', '1')])
    delta = {(q0, a, eps): {(p, eps), (q, eps)}, (q0, b, eps): {(p, eps), (r, eps)}}
    delta.setdefault((q, c, eps), set()).add((f, eps))
    delta.setdefault((r, d, eps), set()).add((f, eps))
    dl = [[x, y, u, sorted([list(t) for t in T])] for (x, y, u), T in delta.items()]
    rng.shuffle(dl)
    return {'Q': names, 'Sigma': sorted({a, b, c, d}), 'Gamma': ['x'], 'delta': dl, 'q0': q0, 'F': [f], 'eps': eps, 'dd': True}


def big_subset_nfa(rng):
    """two reachable subsets with 13 states each that share their 12 smallest names"""
    k = rng.randint(12, 14)
    pre = rng.choice(['a', 'n', 'q'])
    common = ['%s%02d' % (pre, i) for i in range(k)]
    z1, z2 = rng.choice([('z1', 'z2'), ('zz', 'zy'), ('y', 'z')])
    q0 = 'start0' if pre != 's' else 'init'
    eps = rng.choice(['_', 'ε'])
    delta = [[q0, 'a', sorted(common + [z1])], [q0, 'b', sorted(common + [z2])]]
    if rng.random() < 0.5:
        delta.append([z1, 'a', [z1]])
    if rng.random() < 0.5:
        delta.append([common[0], eps, [common[1]]])
    F = [rng.choice([z1, z2])]
    return {'Q': [q0] + common + [z1, z2], 'Sigma': ['a', 'b'], 'delta': delta, 'q0': q0, 'F': F, 'eps': eps, 'dd': True}


def counter_dfa(rng):
    """a modulo-n counter with few accepting states: telling all states apart needs about n/2 refinement rounds"""
    n = rng.randint(4, 9)
    names = rng.choice([['q%d' % i for i in range(n)], ['s%d' % (i * 7 % 10 + i) for i in range(n)], list('ABCDEFGHIJ')[:n],
                        ['q%d' % (i + 5) for i in range(n)]])
    if rng.random() < 0.6:     # random names: a different iteration order of the state set in (nearly) every case
        names = ['%s%s%d' % (rng.choice('pqrstuvw'), rng.choice('abcdefgh'), rng.randint(0, 99)) for _ in range(n)]
    names = list(dict.fromkeys(names))
    if len(names) < n:
        names = ['q%d' % i for i in range(n)]
    order = list(range(n))
    rng.shuffle(order)
    Sigma = rng.choice([['a'], ['a', 'b']])
    delta = []
    for i in range(n):
        delta.append([names[i], 'a', names[(i + 1) % n]])
        if len(Sigma) > 1:
            delta.append([names[i], 'b', names[i] if rng.random() < 0.7 else names[(i + 2) % n]])
    rng.shuffle(delta)
    F = [names[rng.randrange(n)]] + ([names[rng.randrange(n)]] if rng.random() < 0.2 else [])
    return {'Q': [names[i] for i in order], 'Sigma': Sigma, 'delta': delta, 'q0': names[0], 'F': sorted(set(F))}


def pop_loop_pda(rng):
    """an epsilon self-loop that POPS (the shape of the drain state of pda_to_accept_on_empty_stack): push a marker, push one x per a,
    pop the x's in an epsilon self-loop, pop the marker into the accepting state; language a* (or a*b when `tail`)"""
    eps = rng.choice(['_', 'ε', ''])
    names = rng.choice([['q0', 'q1', 'qf'], ['s', 'loop', 'done'], ['q_initial1', 'q_drain1', 'q_accept1']])
    q0, q1, qf = names
    m = rng.choice(['$', '#', 'Z'])
    delta = {(q0, eps, eps): {(q1, m)}, (q1, 'a', eps): {(q1, 'x')}, (q1, eps, 'x'): {(q1, eps)}, (q1, eps, m): {(qf, eps)}}
    Sigma = ['a']
    if rng.random() < 0.5:
        delta = {(q0, eps, eps): {(q1, m)}, (q1, 'a', eps): {(q1, 'x')}, (q1, 'b', eps): {(qf, eps)}, (qf, eps, 'x'): {(qf, eps)},
                 (qf, eps, m): {(q0 + 'z', eps)}}
        names = names + [q0 + 'z']
        Sigma = ['a', 'b']
        F = [q0 + 'z']
    else:
        F = [qf]
    d = [[p, b, u, sorted([list(t) for t in T])] for (p, b, u), T in delta.items()]
    rng.shuffle(d)
    return {'Q': names, 'Sigma': Sigma, 'Gamma': sorted({'x', m}), 'delta': d, 'q0': q0, 'F': F, 'eps': eps, 'dd': True}


def near_cnf_cfg(rng):
    """every RULE has a Chomsky shape (A -> BC, A -> a, A -> epsilon) but the GRAMMAR is not in Chomsky normal form: an epsilon rule of a
    non-start variable and / or the start variable on a right-hand side"""
    V = ['S', 'A', 'B', 'C'][:rng.randint(2, 4)]
    Sigma = rng.choice([['a', 'b'], ['a']])
    R = []
    for A in V:
        for _ in range(rng.randint(1, 3)):
            p = rng.random()
            if p < 0.4:
                rhs = [['t', rng.choice(Sigma)]]
            elif p < 0.55:
                rhs = []
            else:
                rhs = [['v', rng.choice(V)], ['v', rng.choice(V)]]
            if [A, rhs] not in [[r[0], r[2]] for r in R]:
                R.append([A, len(R), rhs])
    if not any(r[0] != 'S' and not r[2] for r in R) and rng.random() < 0.7:
        R.append([rng.choice(V[1:]), len(R), []])
    used = sorted({n for _, _, rhs in R for k, n in rhs if k == 't'}) or [Sigma[0]]
    return {'V': V, 'Sigma': used, 'R': R, 'S': 'S'}


def cnf_with_unproductive(rng):
    """a grammar ALREADY in Chomsky normal form (no conversion, hence no copy, inside the library) with a variable that derives no word"""
    G = random_cfg(rng, cnf=True, nvars=rng.randint(2, 3))
    U = [c for c in 'UVWXYZ' if c not in G['V']][0]
    body = [v for v in G['V'] if v != G['S']] or [U]
    k = max([r[1] for r in G['R']] + [0]) + 1
    G['V'] = G['V'] + [U]
    G['R'] += [[U, k, [['v', U], ['v', U]]], [U, k + 1, [['v', rng.choice(body)], ['v', U]]]]
    if rng.random() < 0.6:
        G['R'].append([G['S'], k + 2, [['v', U], ['v', rng.choice(body)]]])
    return G
