"""Seeded, hash-order independent generators of structured inputs (DESIGN.md section 4.2).
All generators return JSON-able specs (see enc.py)."""
import itertools

NAME_SCHEMES = [
    lambda i: 'q%d' % i,
    lambda i: 'q%d' % i,
    lambda i: 's%d' % (i + 1),
    lambda i: 'ABCDEFGH'[i],
    lambda i: ['start', 'accept', 'trap1', 'q1', 'P1', 'M1', 'x', 'reject'][i],
    lambda i: ['q1', 'q10', 'q2', 'Q', 'q', 'q0', 'q_accept1', 'q_initial1'][i],
    lambda i: ['0', '1', '10', '11', '01', '00', '100', '2'][i],
]
ODD_NAMES = lambda i: ['', 'q', ' ', '{}', '{q,p}', '(a,b)', 'None', '0'][i]      # legal str names that no parser produces
ALPHABETS = [['a', 'b'], ['a', 'b'], ['a'], ['0', '1'], ['a', 'b', 'c'], ['x', 'y'], []]


def all_words(Sigma, n):
    out = []
    for k in range(n + 1):
        for t in itertools.product(sorted(Sigma), repeat=k):
            out.append(''.join(t))
    return out


def subsets(xs):
    xs = list(xs)
    for r in range(len(xs) + 1):
        for c in itertools.combinations(xs, r):
            yield list(c)


# ------------------------------------------------------------------ DFA
def exhaustive_dfas(n, Sigma):
    Q = ['q%d' % i for i in range(n)]
    keys = [(q, a) for q in Q for a in Sigma]
    for targets in itertools.product(Q, repeat=len(keys)):
        delta = [[q, a, t] for (q, a), t in zip(keys, targets)]
        for F in subsets(Q):
            yield {'Q': Q, 'Sigma': list(Sigma), 'delta': delta, 'q0': Q[0], 'F': F}


def random_dfa(rng, nmax=6, Sigma=None, names=None, total=True):
    n = rng.randint(1, nmax)
    scheme = names or rng.choice(NAME_SCHEMES)
    Q = [scheme(i) for i in range(n)]
    if Sigma is None:
        Sigma = rng.choice(ALPHABETS)
    mode = rng.random()
    delta = []
    for q in Q:
        for a in Sigma:
            if total or rng.random() < 0.7:
                if mode < 0.25:      # chain-like: many distinct reachable states
                    t = Q[min(Q.index(q) + rng.randint(0, 1), n - 1)] if rng.random() < 0.7 else rng.choice(Q)
                else:
                    t = rng.choice(Q)
                delta.append([q, a, t])
    r = rng.random()
    if r < 0.1:
        F = []
    elif r < 0.2:
        F = list(Q)
    else:
        F = [q for q in Q if rng.random() < 0.45]
    q0 = Q[0] if rng.random() < 0.7 else rng.choice(Q)
    rng.shuffle(Q)
    return {'Q': Q, 'Sigma': list(Sigma), 'delta': delta, 'q0': q0, 'F': F}


# ------------------------------------------------------------------ NFA
EPSILONS = ['', '_', 'ε', '_', 'e']


def exhaustive_nfas(n, Sigma, eps='_'):
    Q = ['q%d' % i for i in range(n)]
    keys = [(q, a) for q in Q for a in list(Sigma) + [eps]]
    subs = list(subsets(Q))
    for targets in itertools.product(subs, repeat=len(keys)):
        delta = [[q, a, t] for (q, a), t in zip(keys, targets) if t]
        for F in subs:
            yield {'Q': Q, 'Sigma': list(Sigma), 'delta': delta, 'q0': Q[0], 'F': F, 'eps': eps, 'dd': True}


def random_nfa(rng, nmax=6, Sigma=None, eps=None, names=None, prefix=None, live=False):
    n = rng.randint(1, nmax)
    scheme = names or rng.choice(NAME_SCHEMES)
    Q = [scheme(i) for i in range(n)]
    if prefix:
        Q = [prefix + q for q in Q]
    if Sigma is None:
        Sigma = rng.choice(ALPHABETS)
    if eps is None:
        eps = rng.choice(EPSILONS)
    if eps in Sigma:
        eps = '_'
    p_eps = rng.choice([0.0, 0.2, 0.4, 0.7])
    p_sym = rng.choice([0.2, 0.5, 0.8])
    delta = []
    for q in Q:
        for a in list(Sigma) + [eps]:
            p = p_eps if a == eps else p_sym
            if rng.random() < p:
                k = rng.choice([1, 1, 1, 2, 3])
                T = sorted(set(rng.choice(Q) for _ in range(k)))
                delta.append([q, a, T])
            elif rng.random() < 0.1:
                delta.append([q, a, []])       # explicit empty entry
    if n >= 2 and rng.random() < 0.3:          # force an epsilon cycle
        a, b = rng.sample(Q, 2)
        delta = [e for e in delta if not (e[1] == eps and e[0] in (a, b))]
        delta.append([a, eps, sorted({b} | ({rng.choice(Q)} if rng.random() < 0.5 else set()))])
        delta.append([b, eps, [a]])
    if rng.random() < 0.15:                    # epsilon self loop
        q = rng.choice(Q)
        delta = [e for e in delta if not (e[0] == q and e[1] == eps)]
        delta.append([q, eps, [q]])
    r = rng.random()
    F = [] if r < 0.1 else list(Q) if r < 0.2 else [q for q in Q if rng.random() < 0.4]
    q0 = Q[0] if rng.random() < 0.7 else rng.choice(Q)
    if live and Sigma:       # make sure some non-empty word is accepted
        f = rng.choice(Q)
        a = rng.choice(list(Sigma))
        if f not in F:
            F = F + [f]
        hit = [e for e in delta if e[0] == q0 and e[1] == a]
        if hit:
            hit[0][2] = sorted(set(hit[0][2]) | {f})
        else:
            delta.append([q0, a, [f]])
    rng.shuffle(delta)
    return {'Q': Q, 'Sigma': list(Sigma), 'delta': delta, 'q0': q0, 'F': F, 'eps': eps,
            'dd': rng.random() < 0.6}


def nfa_features(s):
    eps = s['eps']
    eps_edges = [(q, t) for q, a, T in s['delta'] if a == eps for t in T]
    return {'eps_edges': len(eps_edges), 'partial': len(s['delta']) < len(s['Q']) * (len(s['Sigma']) + 1),
            'F_empty': not s['F'], 'n': len(s['Q'])}


# ------------------------------------------------------------------ Regexp
def regexps_of_size(k, Sigma, _cache={}):
    """all trees with exactly k operator nodes... measured in number of nodes minus leaves"""
    key = (k, tuple(Sigma))
    if key in _cache:
        return _cache[key]
    if k == 0:
        out = [['zero'], ['one']] + [['sym', a] for a in Sigma]
    else:
        out = [['star', r] for r in regexps_of_size(k - 1, Sigma)]
        for i in range(k):
            for l in regexps_of_size(i, Sigma):
                for r in regexps_of_size(k - 1 - i, Sigma):
                    out.append(['sum', l, r])
                    out.append(['cat', l, r])
    _cache[key] = out
    return out


def random_regexp(rng, size, Sigma):
    if size <= 0:
        p = rng.random()
        if p < 0.12:
            return ['zero']
        if p < 0.3:
            return ['one']
        return ['sym', rng.choice(Sigma)]
    p = rng.random()
    if p < 0.3:
        return ['star', random_regexp(rng, size - 1, Sigma)]
    k = rng.randint(0, size - 1)
    return ['sum' if p < 0.6 else 'cat', random_regexp(rng, k, Sigma), random_regexp(rng, size - 1 - k, Sigma)]


# ------------------------------------------------------------------ TM
def scanner_tm(rng):
    """moves right over the input and decides at the first blank: the number of steps grows with the word length"""
    Sigma = rng.choice([['a'], ['a', 'b']])
    blank = '_'
    delta = [['q0', a, 'q0' if rng.random() < 0.8 else 'q1', a, 'R'] for a in Sigma]
    delta += [['q1', a, 'q0', a, 'R'] for a in Sigma]
    delta.append(['q0', blank, 'qA', blank, rng.choice(['L', 'R'])])
    if rng.random() < 0.5:
        delta.append(['q1', blank, 'qA' if rng.random() < 0.5 else 'qR', blank, 'R'])
    return {'Q': ['q0', 'q1', 'qA', 'qR'], 'Sigma': Sigma, 'Gamma': Sigma + [blank], 'delta': delta, 'q0': 'q0', 'qa': 'qA', 'qr': 'qR', 'blank': blank}


def random_tm(rng, nmax=4, halting_start=0.1):
    if rng.random() < 0.25:
        return scanner_tm(rng)
    n = rng.randint(1, nmax)
    work = ['q%d' % i for i in range(n)]
    qa, qr = 'qA', 'qR'
    Q = work + [qa, qr]
    Sigma = rng.choice([['a'], ['a', 'b'], ['0', '1'], []])
    blank = rng.choice(['_', '□', 'B'])
    Gamma = list(Sigma) + [blank] + rng.choice([[], ['x'], ['x', 'y'], ['%'], ['#', '%'], ['$', '&']])
    delta = []
    dens = rng.choice([0.4, 0.7, 0.95])
    for p in work:
        for a in Gamma:
            if rng.random() < dens:
                q = rng.choice(Q) if rng.random() < 0.85 else rng.choice([qa, qr])
                delta.append([p, a, q, rng.choice(Gamma), rng.choice(['L', 'R', 'R'])])
    q0 = work[0]
    if rng.random() < halting_start:
        q0 = rng.choice([qa, qr])
    if rng.random() < 0.1:   # transitions out of halting states (never used by a correct simulator)
        delta.append([qa, rng.choice(Gamma), rng.choice(Q), rng.choice(Gamma), 'R'])
    return {'Q': Q, 'Sigma': Sigma, 'Gamma': Gamma, 'delta': delta, 'q0': q0, 'qa': qa, 'qr': qr, 'blank': blank}


# ------------------------------------------------------------------ CFG
UPPER = 'SABCDEFGHIJKLMNOPQRTUVWXYZ'


MULTI = ['S', 'A', 'BC', 'AB', 'C', 'B', 'AA', 'ABC', "p'q", 'S0']


def random_cfg(rng, nvars=None, Sigma=None, maxlen=3, cnf=False, simple=True, multichar=False):
    """Simple-format grammar: single upper-case variables, lower-case terminals (multichar: names whose concatenations are ambiguous)."""
    nv = nvars or rng.randint(1, 4)
    V = list(UPPER[:nv])
    if rng.random() < 0.2:
        V = rng.sample(list(UPPER), nv)
    if multichar:
        nv = max(nv, 3)
        V = ['S'] + rng.sample(MULTI[1:], nv - 1)
    Sigma = Sigma or rng.choice([['a', 'b'], ['a'], ['a', 'b', 'c']])
    R = []
    aid = 0
    for A in V:
        k = rng.randint(1, 3)
        for _ in range(k):
            if cnf:
                p = rng.random()
                if p < 0.45:
                    rhs = [['t', rng.choice(Sigma)]]
                else:
                    body = [v for v in V if v != V[0]] or None
                    if body is None:
                        rhs = [['t', rng.choice(Sigma)]]
                    else:
                        rhs = [['v', rng.choice(body)], ['v', rng.choice(body)]]
            else:
                p = rng.random()
                if p < 0.15:
                    rhs = []
                elif p < 0.3:
                    rhs = [['v', rng.choice(V)]]
                else:
                    n = rng.randint(1, maxlen)
                    rhs = [(['v', rng.choice(V)] if rng.random() < 0.45 else ['t', rng.choice(Sigma)]) for _ in range(n)]
            if [A, rhs] not in [[r[0], r[2]] for r in R] or rng.random() < 0.1:
                R.append([A, aid, rhs])
                aid += 1
    if cnf and rng.random() < 0.3:
        R.append([V[0], aid, []])
    used = sorted({n for _, _, rhs in R for k, n in rhs if k == 't'})
    return {'V': V, 'Sigma': used if rng.random() < 0.8 else sorted(set(used) | set(Sigma)), 'R': R, 'S': V[0]}


# ------------------------------------------------------------------ PDA
def random_pda(rng, nmax=3, tmax=6, markers=False):
    n = rng.randint(1, nmax)
    scheme = rng.choice([lambda i: 'q%d' % i, lambda i: 's%d' % i, lambda i: ['q_accept1', 'q_initial1', 'M1', 'q_drain1'][i],
                         lambda i: ['p', 'p_p', 'p_p_p', 'q'][i]])
    Q = [scheme(i) for i in range(n)]
    Sigma = rng.choice([['a', 'b'], ['a'], ['a', 'b'], ['0', '1']])
    Gamma = rng.choice([['x'], ['x', 'y'], ['x', 'y'], ['A', 'B']])
    if markers and rng.random() < 0.5:
        Gamma = Gamma + rng.choice([['$'], ['$', '@'], ['∅'], ['#'], ['%'], ['%', '&'], ['!', '~'], ['^', '*']])
    eps = rng.choice(['_', '_', 'ε', ''])
    delta = {}
    style = rng.random()
    if style > 0.85 and len(Gamma) >= 2 and n >= 2:      # two replace moves popping the same symbol into the same state, pushing different symbols
        p, q = rng.choice(Q), rng.choice(Q)
        u = Gamma[0]
        delta[(Q[0], Sigma[0], eps)] = {(p, u)}
        delta[(p, Sigma[0], u)] = {(q, Gamma[0])}
        delta[(p, Sigma[-1], u)] = {(q, Gamma[1])}
        r = rng.choice(Q)
        delta.setdefault((q, Sigma[0], Gamma[0]), set()).add((r, eps))
        delta.setdefault((q, Sigma[-1], Gamma[1]), set()).add((Q[-1], eps))
    for _ in range(rng.randint(1, tmax)):
        p, q = rng.choice(Q), rng.choice(Q)
        a = rng.choice(Sigma + [eps]) if rng.random() < 0.75 else eps
        if style < 0.3:      # push/pop only
            if rng.random() < 0.5:
                u, v = eps, rng.choice(Gamma)
            else:
                u, v = rng.choice(Gamma), eps
        else:
            u = rng.choice(Gamma + [eps, eps])
            v = rng.choice(Gamma + [eps, eps])
        delta.setdefault((p, a, u), set()).add((q, v))
    if rng.random() < 0.35:   # fan-out: one (state, input, pop) key with several targets, another key hitting only one of them
        for key in list(delta)[:2]:
            delta[key].add((rng.choice(Q), rng.choice(Gamma + [eps, eps])))
    r = rng.random()
    F = [] if r < 0.08 else list(Q) if r < 0.2 else [q for q in Q if rng.random() < 0.5]
    if rng.random() < 0.5:   # a guaranteed accepting computation on a non-empty word that leaves a symbol on the stack
        delta.setdefault((Q[0], Sigma[0], eps), set()).add((Q[-1], Gamma[0]))
        if Q[-1] not in F:
            F = F + [Q[-1]]
    d = [[p, a, u, sorted([list(t) for t in T])] for (p, a, u), T in delta.items()]
    return {'Q': Q, 'Sigma': Sigma, 'Gamma': Gamma, 'delta': d, 'q0': Q[0], 'F': F, 'eps': eps, 'dd': True}


def ambiguous_cfg(rng):
    """CNF grammar over multi-character variable names whose concatenations coincide: S -> X1 Y1 | X2 Y2 with X1+Y1 == X2+Y2"""
    base = rng.choice(['ABC', 'ABCD', 'AAB', 'XYZ'])
    cuts = rng.sample(range(1, len(base)), 2)
    names = []
    R = [['S', 0, [['v', base[:cuts[0]]], ['v', base[cuts[0]:]]]], ['S', 1, [['v', base[:cuts[1]]], ['v', base[cuts[1]:]]]]]
    for c in cuts:
        names += [base[:c], base[c:]]
    names = sorted(set(names))
    Sigma = ['a', 'b', 'c', 'd']
    aid = 2
    for i, n in enumerate(names):
        R.append([n, aid, [['t', Sigma[i % 4]]]])
        aid += 1
        if rng.random() < 0.3:
            R.append([n, aid, [['t', rng.choice(Sigma)]]])
            aid += 1
    return {'V': ['S'] + names, 'Sigma': Sigma, 'R': R, 'S': 'S'}


def ambiguous_cfg2(rng):
    """CNF grammar S -> X1 Y1 where X2, Y2 with X1+Y1 == X2+Y2 are also variables (with their own terminals): a table keyed on
    concatenated names confuses the two"""
    base = rng.choice(['ABC', 'ABCD', 'AAB', 'AAA', 'XYZ'])
    c1, c2 = rng.sample(range(1, len(base)), 2)
    names = []
    for n in (base[:c1], base[c1:], base[:c2], base[c2:]):
        if n not in names:
            names.append(n)
    Sigma = ['a', 'b', 'c', 'd']
    R = [['S', 0, [['v', base[:c1]], ['v', base[c1:]]]]]
    for i, n in enumerate(names):
        R.append([n, i + 1, [['t', Sigma[i % 4]]]])
    if rng.random() < 0.5:
        R.append([names[0], len(R), [['v', names[-1]], ['v', names[0]]]])
    return {'V': ['S'] + names, 'Sigma': Sigma[:len(names)], 'R': R, 'S': 'S'}


def unit_chain_cfg(rng):
    """a chain of unit rules S -> A -> B -> C ... with terminal rules at the end, the rules listed in random order"""
    n = rng.randint(3, 5)
    V = ['S'] + list('ABCDE')[:n - 1]
    R = []
    for i in range(n - 1):
        R.append([V[i], 0, [['v', V[i + 1]]]])
        if rng.random() < 0.4:
            R.append([V[i], 0, [['t', rng.choice('ab')]]])
    R.append([V[-1], 0, [['t', 'c']]])
    R.append([V[-1], 0, [['t', 'a'], ['v', V[-1]]]])
    if rng.random() < 0.3:
        R.append([V[-1], 0, [['v', V[0]]]])      # unit cycle
    rng.shuffle(R)
    for i, r in enumerate(R):
        r[1] = i
    return {'V': V, 'Sigma': sorted({n for _, _, rhs in R for k, n in rhs if k == 't'}), 'R': R, 'S': 'S'}


def ambiguous_stack_pda(rng):
    """stack symbols s1, s2 and s1+s2: the stacks [s1+s2] and [s1, s2] print alike but are different configurations;
    both are epsilon-reachable in the same state and only one of them leads to acceptance"""
    s1, s2 = rng.choice([('a', 'b'), ('x', 'y'), ('A', 'AA'), ('0', '1')])
    Gamma = [s1, s2, s1 + s2] if s1 + s2 not in (s1, s2) else [s1, s2]
    eps = rng.choice(['_', 'ε', ''])
    Q = ['q0', 'q1', 'q2', 'qf']
    a = 'x' if 'x' not in Gamma else 'c'
    delta = {('q0', eps, eps): {('q1', s1 + s2), ('q2', s1)}, ('q2', eps, eps): {('q1', s2)}}
    pop = rng.choice([s1 + s2, s2])
    delta[('q1', a, pop)] = {('qf', eps)}
    if rng.random() < 0.5:
        delta[('qf', a, s1)] = {('qf', eps)}
    d = [[p, b, u, sorted([list(t) for t in T])] for (p, b, u), T in delta.items()]
    rng.shuffle(d)
    return {'Q': Q, 'Sigma': [a], 'Gamma': sorted(set(Gamma)), 'delta': d, 'q0': 'q0', 'F': ['qf'], 'eps': eps, 'dd': True}


def push_loop_pda(rng):
    """an epsilon loop that grows the stack next to an epsilon branch of length k >= 1 towards the state that reads a letter:
    the epsilon-reachable configurations are infinite, yet every accepted word has a short accepting run"""
    k = rng.randint(1, 3)
    names = rng.choice([['push', 'mid', 'next', 'ready', 'done'], ['a0', 'b1', 'c2', 'd3', 'e4'], ['z', 'y', 'x', 'w', 'v'],
                        ['q0', 'q1', 'q2', 'q3', 'q4']])
    eps = rng.choice(['_', 'ε', ''])
    chain = names[:k + 1]
    done = names[-1]
    loop_at = rng.choice(chain[:-1])
    delta = {}
    for p, q in zip(chain, chain[1:]):
        delta.setdefault((p, eps, eps), set()).add((q, eps))
    delta.setdefault((loop_at, eps, eps), set()).add((loop_at, 'x'))
    delta[(chain[-1], 'a', eps)] = {(done, eps)}
    if rng.random() < 0.5:
        delta[(done, 'a', 'x')] = {(done, eps)}
    d = [[p, b, u, sorted([list(t) for t in T])] for (p, b, u), T in delta.items()]
    rng.shuffle(d)
    return {'Q': chain + [done], 'Sigma': ['a'], 'Gamma': ['x'], 'delta': d, 'q0': chain[0], 'F': [done], 'eps': eps, 'dd': True}


def chain_dfa(rng):
    """a line q0 -> q1 -> ... -> qk of `a`-moves with few accepting states far apart, other letters to a trap: fixpoint
    computations over it need several passes in most iteration orders"""
    k = rng.randint(4, 8)
    names = ['q%d' % i for i in range(k + 1)]
    rng.shuffle(names)
    Sigma = rng.choice([['a'], ['a', 'b']])
    trap = 't'
    Q = names + [trap]
    delta = []
    for i, q in enumerate(names):
        delta.append([q, 'a', names[i + 1] if i < k else trap])
        for b in Sigma[1:]:
            delta.append([q, b, trap])
    for b in Sigma:
        delta.append([trap, b, trap])
    F = sorted({names[rng.randint(0, 1)], names[k]} | ({names[rng.randint(0, k)]} if rng.random() < 0.3 else set()))
    rng.shuffle(delta)
    return {'Q': Q, 'Sigma': Sigma, 'delta': delta, 'q0': names[0], 'F': F}


def fanout_pda(rng):
    """no stack: q0 -a-> {p, q}, q0 -b-> {p, r}, q -c-> f, r -d-> f (language {ac, bd}); one step reaches two NEW configurations and
    another step of the same level reaches only one of them"""
    eps = rng.choice(['_', 'ε', ''])
    names = rng.choice([['q0', 'p', 'q', 'r', 'f'], ['s0', 's1', 's2', 's3', 's4'], ['A', 'B', 'C', 'D', 'E']])
    q0, p, q, r, f = names
    a, b, c, d = rng.choice([('a', 'b', 'c', 'd'), ('a', 'b', 'a', 'b'), ('0', '1', '0', '1')])
    delta = {(q0, a, eps): {(p, eps), (q, eps)}, (q0, b, eps): {(p, eps), (r, eps)}}
    delta.setdefault((q, c, eps), set()).add((f, eps))
    delta.setdefault((r, d, eps), set()).add((f, eps))
    dl = [[x, y, u, sorted([list(t) for t in T])] for (x, y, u), T in delta.items()]
    rng.shuffle(dl)
    return {'Q': names, 'Sigma': sorted({a, b, c, d}), 'Gamma': ['x'], 'delta': dl, 'q0': q0, 'F': [f], 'eps': eps, 'dd': True}


def big_subset_nfa(rng):
    """two reachable subsets with 13 states each that share their 12 smallest names"""
    k = rng.randint(12, 14)
    pre = rng.choice(['a', 'n', 'q'])
    common = ['%s%02d' % (pre, i) for i in range(k)]
    z1, z2 = rng.choice([('z1', 'z2'), ('zz', 'zy'), ('y', 'z')])
    q0 = 'start0' if pre != 's' else 'init'
    eps = rng.choice(['_', 'ε'])
    delta = [[q0, 'a', sorted(common + [z1])], [q0, 'b', sorted(common + [z2])]]
    if rng.random() < 0.5:
        delta.append([z1, 'a', [z1]])
    if rng.random() < 0.5:
        delta.append([common[0], eps, [common[1]]])
    F = [rng.choice([z1, z2])]
    return {'Q': [q0] + common + [z1, z2], 'Sigma': ['a', 'b'], 'delta': delta, 'q0': q0, 'F': F, 'eps': eps, 'dd': True}


def counter_dfa(rng):
    """a modulo-n counter with few accepting states: telling all states apart needs about n/2 refinement rounds"""
    n = rng.randint(4, 9)
    names = rng.choice([['q%d' % i for i in range(n)], ['s%d' % (i * 7 % 10 + i) for i in range(n)], list('ABCDEFGHIJ')[:n],
                        ['q%d' % (i + 5) for i in range(n)]])
    if rng.random() < 0.6:     # random names: a different iteration order of the state set in (nearly) every case
        names = ['%s%s%d' % (rng.choice('pqrstuvw'), rng.choice('abcdefgh'), rng.randint(0, 99)) for _ in range(n)]
    names = list(dict.fromkeys(names))
    if len(names) < n:
        names = ['q%d' % i for i in range(n)]
    order = list(range(n))
    rng.shuffle(order)
    Sigma = rng.choice([['a'], ['a', 'b']])
    delta = []
    for i in range(n):
        delta.append([names[i], 'a', names[(i + 1) % n]])
        if len(Sigma) > 1:
            delta.append([names[i], 'b', names[i] if rng.random() < 0.7 else names[(i + 2) % n]])
    rng.shuffle(delta)
    F = [names[rng.randrange(n)]] + ([names[rng.randrange(n)]] if rng.random() < 0.2 else [])
    return {'Q': [names[i] for i in order], 'Sigma': Sigma, 'delta': delta, 'q0': names[0], 'F': sorted(set(F))}


def pop_loop_pda(rng):
    """an epsilon self-loop that POPS (the shape of the drain state of pda_to_accept_on_empty_stack): push a marker, push one x per a,
    pop the x's in an epsilon self-loop, pop the marker into the accepting state; language a* (or a*b when `tail`)"""
    eps = rng.choice(['_', 'ε', ''])
    names = rng.choice([['q0', 'q1', 'qf'], ['s', 'loop', 'done'], ['q_initial1', 'q_drain1', 'q_accept1']])
    q0, q1, qf = names
    m = rng.choice(['$', '#', 'Z'])
    delta = {(q0, eps, eps): {(q1, m)}, (q1, 'a', eps): {(q1, 'x')}, (q1, eps, 'x'): {(q1, eps)}, (q1, eps, m): {(qf, eps)}}
    Sigma = ['a']
    if rng.random() < 0.5:
        delta = {(q0, eps, eps): {(q1, m)}, (q1, 'a', eps): {(q1, 'x')}, (q1, 'b', eps): {(qf, eps)}, (qf, eps, 'x'): {(qf, eps)},
                 (qf, eps, m): {(q0 + 'z', eps)}}
        names = names + [q0 + 'z']
        Sigma = ['a', 'b']
        F = [q0 + 'z']
    else:
        F = [qf]
    d = [[p, b, u, sorted([list(t) for t in T])] for (p, b, u), T in delta.items()]
    rng.shuffle(d)
    return {'Q': names, 'Sigma': Sigma, 'Gamma': sorted({'x', m}), 'delta': d, 'q0': q0, 'F': F, 'eps': eps, 'dd': True}


def near_cnf_cfg(rng):
    """every RULE has a Chomsky shape (A -> BC, A -> a, A -> epsilon) but the GRAMMAR is not in Chomsky normal form: an epsilon rule of a
    non-start variable and / or the start variable on a right-hand side"""
    V = ['S', 'A', 'B', 'C'][:rng.randint(2, 4)]
    Sigma = rng.choice([['a', 'b'], ['a']])
    R = []
    for A in V:
        for _ in range(rng.randint(1, 3)):
            p = rng.random()
            if p < 0.4:
                rhs = [['t', rng.choice(Sigma)]]
            elif p < 0.55:
                rhs = []
            else:
                rhs = [['v', rng.choice(V)], ['v', rng.choice(V)]]
            if [A, rhs] not in [[r[0], r[2]] for r in R]:
                R.append([A, len(R), rhs])
    if not any(r[0] != 'S' and not r[2] for r in R) and rng.random() < 0.7:
        R.append([rng.choice(V[1:]), len(R), []])
    used = sorted({n for _, _, rhs in R for k, n in rhs if k == 't'}) or [Sigma[0]]
    return {'V': V, 'Sigma': used, 'R': R, 'S': 'S'}


def cnf_with_unproductive(rng):
    """a grammar ALREADY in Chomsky normal form (no conversion, hence no copy, inside the library) with a variable that derives no word"""
    G = random_cfg(rng, cnf=True, nvars=rng.randint(2, 3))
    U = [c for c in 'UVWXYZ' if c not in G['V']][0]
    body = [v for v in G['V'] if v != G['S']] or [U]
    k = max([r[1] for r in G['R']] + [0]) + 1
    G['V'] = G['V'] + [U]
    G['R'] += [[U, k, [['v', U], ['v', U]]], [U, k + 1, [['v', rng.choice(body)], ['v', U]]]]
    if rng.random() < 0.6:
        G['R'].append([G['S'], k + 2, [['v', U], ['v', rng.choice(body)]]])
    return G


def eps_chain_nfa(rng, n=None, eps=None):
    """n numbered states q0..q<n-1>; an epsilon chain WITHOUT shortcuts visits all of them in a random order starting at the initial
    state, and only its last state can reach acceptance (directly, or by reading one more symbol).  Closures need |Q|-1 steps; the
    numbered names include q1 / q10, q9 / q10 (one a substring of the other, string order different from numeric order)."""
    n = n or rng.choice([6, 7, 7, 10, 11, 12, 13])
    eps = eps if eps is not None else rng.choice(['_', 'ε'])
    Q = ['q%d' % i for i in range(n)]
    order = Q[1:]
    rng.shuffle(order)
    order = [Q[0]] + order
    rows = {}
    for x, y in zip(order, order[1:]):
        rows[(x, eps)] = [y]
    Sig = rng.choice([['a'], ['a', 'b']])
    last = order[-1]
    if rng.random() < 0.5:
        F = [last]
    else:
        F = [order[rng.randrange(n)]] if rng.random() < 0.3 else []
        tgt = rng.choice(Q)
        rows[(last, 'a')] = [tgt]
        F = sorted(set(F) | {tgt}) if tgt != last else [last]
    for _ in range(rng.randint(0, 3)):           # a few more labelled transitions (never epsilon: the chain stays shortcut-free)
        rows.setdefault((rng.choice(Q), rng.choice(Sig)), [rng.choice(Q)])
    delta = [[p, a, T] for (p, a), T in rows.items()]
    rng.shuffle(delta)
    return {'Q': Q, 'Sigma': Sig, 'delta': delta, 'q0': Q[0], 'F': F, 'eps': eps, 'dd': True}


def long_eps_chain_nfa(n):
    """q0 -eps-> q1 -eps-> ... -eps-> q<n-1> -a-> f (accepting): closures larger than any plausible fixed iteration cap"""
    Q = ['c%d' % i for i in range(n)] + ['f']
    delta = [['c%d' % i, '_', ['c%d' % (i + 1)]] for i in range(n - 1)] + [['c%d' % (n - 1), 'a', ['f']]]
    return {'Q': Q, 'Sigma': ['a'], 'delta': delta, 'q0': 'c0', 'F': ['f'], 'eps': '_', 'dd': True}


def signature_complete_dfa(rng, M=None):
    """M accepting states s_i that become singleton classes early, and for EVERY ordered pair (i, j) a state t_i_j with a -> s_i, b -> s_j:
    all pairs of class positions occur as successor signatures inside one block, so a refinement step that identifies two different
    signatures (ambiguous keys, truncated keys, hashing) merges inequivalent states for good.  A spine makes every state reachable; all
    states are pairwise distinguishable (the DFA is minimal).  About 2 M^2 states."""
    M = M or rng.choice([11, 12])
    s = ['s%d' % i for i in range(M)]
    t = [(i, j, 't_%d_%d' % (i, j)) for i in range(M) for j in range(M)]
    r = ['r%d' % k for k in range(len(t))]
    delta = []
    for x in 'abc':
        delta.append(['d', x, 'd'])
    delta += [['u', 'a', s[0]], ['u', 'b', 'd'], ['u', 'c', 'v'], ['v', 'a', 'd'], ['v', 'b', s[0]], ['v', 'c', 'd']]
    markers = ['d', 'u', 'v']
    for i in range(M):
        n = i + 1
        delta += [[s[i], 'a', markers[n % 3]], [s[i], 'b', markers[(n // 3) % 3]], [s[i], 'c', markers[(n // 9) % 3]]]
    for i, j, x in t:
        delta += [[x, 'a', s[i]], [x, 'b', s[j]], [x, 'c', 'd']]
    for k in range(len(r)):
        delta += [[r[k], 'a', t[k][2]], [r[k], 'b', 'd'], [r[k], 'c', r[k + 1] if k + 1 < len(r) else 'u']]
    Q = s + [x for _, _, x in t] + r + ['d', 'u', 'v']
    rng.shuffle(Q)
    return {'Q': Q, 'Sigma': ['a', 'b', 'c'], 'delta': delta, 'q0': r[0], 'F': list(s)}


def long_rhs_cfg(rng):
    """one variable with several LONG right-hand sides (10-16 symbols each): the conversion to Chomsky normal form needs more helper
    variables than there are unused capital letters, and splits several rules of the SAME left-hand side.  Returns (grammar, probe words):
    the generated words and mixtures of two right-hand sides of the same total length."""
    letters = rng.sample(['a', 'b', 'c', 'd'], rng.randint(2, 3))
    lens = [rng.randint(13, 16) for _ in letters]
    R = [['S', i, [['t', x]] * k] for i, (x, k) in enumerate(zip(letters, lens))]
    V = ['S']
    if rng.random() < 0.5:
        V.append('T')
        R.append(['S', len(R), [['v', 'T']]])
        R.append(['T', len(R), [['t', letters[0]], ['t', letters[1]]]])
        R.append(['T', len(R), [['t', letters[0]], ['v', 'T'], ['t', letters[1]]]])
    words = [x * k for x, k in zip(letters, lens)]
    probes = list(words)
    for _ in range(12):
        (x, k), (y, m) = rng.sample(list(zip(letters, lens)), 2)
        i = rng.randint(1, k - 1)
        probes.append(x * i + y * (k - i))
        probes.append(y * rng.randint(1, 4) + x * rng.randint(1, 4))
        probes.append(x * i + y * (m - i) if m > i else x * i)
    probes += ['', letters[0], letters[0] + letters[1], letters[0] * 2 + letters[1] * 2]
    import itertools
    for x, y in itertools.permutations(letters, 2):       # x^i y^j: a prefix of one long rule glued to a suffix of another
        for i in (1, 2, 3):
            for j in range(1, max(lens) + 1):
                probes.append(x * i + y * j)
    return {'V': V, 'Sigma': sorted(letters), 'R': R, 'S': 'S'}, sorted(set(probes), key=lambda w: (len(w), w))


def doubling_cfg(rng):
    """a variable with a SHALLOW but long-yield alternative (A -> BB, B -> CC, C -> dd: height 4, 8 letters) next to a DEEP but
    short-yield one (A -> ddddd: a chain of height 5 after the conversion): the shortest word of a variable does not come from its
    lowest derivation tree.  Finite language; enumerate up to n = 6..9."""
    d, c = rng.sample(['a', 'b', 'c', 'd'], 2)
    k = rng.randint(4, 6)
    V = ['S', 'A', 'B', 'C']
    R = [['S', 0, [['t', c], ['v', 'A']]] if rng.random() < 0.6 else ['S', 0, [['v', 'A'], ['t', c]]],
         ['A', 1, [['v', 'B'], ['v', 'B']]], ['A', 2, [['t', d]] * k],
         ['B', 3, [['v', 'C'], ['v', 'C']]],
         ['C', 4, [['t', d], ['t', d]]]]
    if rng.random() < 0.4:
        R.append(['C', 5, [['t', d]]])
    if rng.random() < 0.3:
        R.append(['B', len(R), [['t', c]]])
    return {'V': V, 'Sigma': sorted([c, d]), 'R': R, 'S': 'S'}


# ------------------------------------------------------------------ purposeful Turing machines (long runs on longer words)
def tm_zoo(rng):
    """A machine that does real work for many steps, with words that make it work: returns (spec, words).
    Families: erase-and-walk-back (a^n b), cell counter (many consecutive bumps at the left end that rewrite cell 0), a^n b^n
    (zig-zag marking), palindromes, binary increment, unary doubling sweep."""
    k = rng.randrange(6)
    B = rng.choice(['_', '□'])
    if k == 0:
        # a^n b: go right to the b, come back erasing the a's, bounce off the left end, walk right over the blanks to the b, accept
        d = [['s', 'a', 's', 'a', 'R'], ['s', 'b', 'l', 'b', 'L'], ['l', 'a', 'l', B, 'L'], ['l', B, 'r', B, 'R'],
             ['r', B, 'r', B, 'R'], ['r', 'b', 'e', 'b', 'R'], ['e', B, 'qA', B, 'R']]
        T = {'Q': ['s', 'l', 'r', 'e', 'qA', 'qR'], 'Sigma': ['a', 'b'], 'Gamma': ['a', 'b', B], 'delta': d, 'q0': 's', 'qa': 'qA', 'qr': 'qR', 'blank': B}
        ws = ['a' * n + 'b' for n in (0, 1, 2, 5, 6, 7, 9, 12, 130)] + ['aab' + 'a', 'b' + 'b', 'aaaa', '']
        return T, ws
    if k == 1:
        # counter in cell 0: 0 -> 1 -> ... -> m by left moves at the left end (the head stays put), then accept / reject
        m = rng.randint(5, 9)
        digs = [str(i) for i in range(m + 1)]
        two = rng.random() < 0.5
        d = []
        for i in range(m):
            p, q = ('c', 'c') if not two else (('c', 'e') if i % 2 == 0 else ('e', 'c'))
            d.append([p, digs[i], q, digs[i + 1], 'L'])
        last = 'c' if not two or m % 2 == 0 else 'e'
        d.append([last, digs[m], rng.choice(['qA', 'qR']), digs[m], 'R'])
        Q = ['c'] + (['e'] if two else []) + ['qA', 'qR']
        T = {'Q': Q, 'Sigma': ['0'], 'Gamma': digs + [B], 'delta': d, 'q0': 'c', 'qa': 'qA', 'qr': 'qR', 'blank': B}
        return T, ['0', '00', '', '000']
    if k == 2:
        # a^n b^n by zig-zag marking
        d = [['0', 'a', '1', 'x', 'R'], ['0', 'y', '3', 'y', 'R'], ['0', B, 'qA', B, 'R'],
             ['1', 'a', '1', 'a', 'R'], ['1', 'y', '1', 'y', 'R'], ['1', 'b', '2', 'y', 'L'],
             ['2', 'a', '2', 'a', 'L'], ['2', 'y', '2', 'y', 'L'], ['2', 'x', '0', 'x', 'R'],
             ['3', 'y', '3', 'y', 'R'], ['3', B, 'qA', B, 'R']]
        T = {'Q': ['0', '1', '2', '3', 'qA', 'qR'], 'Sigma': ['a', 'b'], 'Gamma': ['a', 'b', 'x', 'y', B], 'delta': d, 'q0': '0', 'qa': 'qA', 'qr': 'qR', 'blank': B}
        return T, ['', 'ab', 'aabb', 'aaabbb', 'aaaabbbb', 'aaaaabbbbb', 'aab', 'abb', 'aabbb', 'ba', 'aaaabbb',
                   'a' * 12 + 'b' * 12, 'a' * 15 + 'b' * 15, 'a' * 13 + 'b' * 12]     # runs of 300-500 steps that revisit (state, head) pairs
    if k == 3:
        # palindromes over {a,b}
        d = [['s', 'a', 'ra', B, 'R'], ['s', 'b', 'rb', B, 'R'], ['s', B, 'qA', B, 'R'],
             ['ra', 'a', 'ra', 'a', 'R'], ['ra', 'b', 'ra', 'b', 'R'], ['ra', B, 'ca', B, 'L'],
             ['rb', 'a', 'rb', 'a', 'R'], ['rb', 'b', 'rb', 'b', 'R'], ['rb', B, 'cb', B, 'L'],
             ['ca', 'a', 'back', B, 'L'], ['ca', B, 'qA', B, 'R'], ['ca', 'b', 'qR', 'b', 'R'],
             ['cb', 'b', 'back', B, 'L'], ['cb', B, 'qA', B, 'R'], ['cb', 'a', 'qR', 'a', 'R'],
             ['back', 'a', 'back', 'a', 'L'], ['back', 'b', 'back', 'b', 'L'], ['back', B, 's', B, 'R']]
        T = {'Q': ['s', 'ra', 'rb', 'ca', 'cb', 'back', 'qA', 'qR'], 'Sigma': ['a', 'b'], 'Gamma': ['a', 'b', B], 'delta': d, 'q0': 's', 'qa': 'qA', 'qr': 'qR', 'blank': B}
        return T, ['', 'a', 'aba', 'abba', 'abab', 'aabaa', 'abaaba', 'abbabba', 'aabbaab', 'babbab', 'abbbbbba', 'ab' * 6 + 'a' + 'ba' * 6, 'ab' * 7 + 'ba' * 7, 'a' * 13 + 'b' + 'a' * 12]
    if k == 4:
        # binary increment, most significant bit first: run to the right end, carry leftwards, accept
        d = [['r', '0', 'r', '0', 'R'], ['r', '1', 'r', '1', 'R'], ['r', B, 'c', B, 'L'],
             ['c', '1', 'c', '0', 'L'], ['c', '0', 'qA', '1', 'L'], ['c', B, 'qR', B, 'R']]
        T = {'Q': ['r', 'c', 'qA', 'qR'], 'Sigma': ['0', '1'], 'Gamma': ['0', '1', B], 'delta': d, 'q0': 'r', 'qa': 'qA', 'qr': 'qR', 'blank': B}
        return T, ['', '0', '1', '111', '1011', '1111111', '01111111', '10101010', '0' + '1' * 280, '1' * 300]
    # sweeps: replace every a by x one per round trip (quadratic number of steps), accept at the end
    d = [['f', 'x', 'f', 'x', 'R'], ['f', 'a', 'b', 'x', 'L'], ['f', B, 'qA', B, 'R'],
         ['b', 'x', 'b', 'x', 'L'], ['b', B, 'f', B, 'R'], ['b', 'a', 'b', 'a', 'L']]
    # cell 0 has no left neighbour: 'b' bumps at the left end reading x forever unless it sees a blank -- use a marker cell instead
    d = [['i', 'a', 'f', '#', 'R'], ['i', B, 'qA', B, 'R'],
         ['f', 'x', 'f', 'x', 'R'], ['f', 'a', 'b', 'x', 'L'], ['f', B, 'qA', B, 'R'],
         ['b', 'x', 'b', 'x', 'L'], ['b', '#', 'f', '#', 'R']]
    T = {'Q': ['i', 'f', 'b', 'qA', 'qR'], 'Sigma': ['a'], 'Gamma': ['a', 'x', '#', B], 'delta': d, 'q0': 'i', 'qa': 'qA', 'qr': 'qR', 'blank': B}
    return T, ['', 'a', 'aa', 'aaaa', 'aaaaaaa', 'aaaaaaaaaa', 'a' * 20, 'a' * 26]


def deep_drain_pda(rng):
    """pushes one of two stack symbols per input letter above a bottom marker, then drains the whole stack by epsilon moves and accepts:
    words of length 10-20 need epsilon paths much longer than |Q| * (|Gamma| + 1) although every closure is small (n + 3 configurations)"""
    eps = rng.choice(['_', 'ε'])
    a = 'a'
    two = rng.random() < 0.6          # 'a' pushes x, 'b' pushes y (deterministic pushes: the number of configurations stays linear)
    delta = [['i', eps, eps, [['p', '$']]],
             ['p', a, eps, [['p', 'x']]],
             ['p', eps, eps, [['d', eps]]],
             ['d', eps, 'x', [['d', eps]]]]
    Sig = [a]
    if two:
        Sig = ['a', 'b']
        delta.append(['p', 'b', eps, [['p', 'y']]])
        delta.append(['d', eps, 'y', [['d', eps]]])
    delta.append(['d', eps, '$', [['f', eps]]])
    rng.shuffle(delta)
    P = {'Q': ['i', 'p', 'd', 'f', 'g'], 'Sigma': Sig, 'Gamma': ['x', 'y', '$'], 'delta': delta, 'q0': 'i', 'F': ['f'], 'eps': eps, 'dd': True}
    ns = rng.sample([10, 12, 14, 15, 17, 20], 3)
    words = ['a' * n for n in ns] + ([('ab' * 10)[:n] for n in ns[:1]] if len(Sig) == 2 else [])
    return P, words


def noop_heavy_pda(rng):
    """a finite-state recogniser (value of the binary / unary input modulo k, k = 6..9) written as a PDA: 12-18 moves that neither push
    nor pop, with different targets, plus a pair of push / pop moves.  Returns (spec, probe words of length 4-7)."""
    k = rng.randint(6, 9)
    eps = rng.choice(['_', 'ε'])
    Q = ['m%d' % i for i in range(k)]
    Sig = ['0', '1']
    delta = []
    for i in range(k):
        delta.append([Q[i], '0', eps, [[Q[(2 * i) % k], eps]]])
        delta.append([Q[i], '1', eps, [[Q[(2 * i + 1) % k], eps]]])
    rng.shuffle(delta)
    F = [Q[0]] + ([Q[rng.randrange(1, k)]] if rng.random() < 0.4 else [])
    import itertools
    probes = [''.join(w) for n in (4, 5, 6) for w in itertools.product('01', repeat=n)]
    probes = rng.sample(probes, 40) + ['10011', '1110', '111', '0000', '10101', '110001']
    return {'Q': Q, 'Sigma': Sig, 'Gamma': ['x'], 'delta': delta, 'q0': Q[0], 'F': sorted(set(F)), 'eps': eps, 'dd': True}, sorted(set(probes))


def numbered_dfa(rng, n=None, Sigma=None):
    """a total DFA with exactly n = 11..13 states called q0 .. q<n-1> (q1 / q10 and q9 / q10: substring and string-order traps), every
    state reachable through a spine"""
    n = n or rng.randint(11, 13)
    Sigma = Sigma or rng.choice([['a', 'b'], ['a']])
    Q = ['q%d' % i for i in range(n)]
    delta = []
    for i, q in enumerate(Q):
        for j, a in enumerate(Sigma):
            delta.append([q, a, Q[(i + 1) % n] if j == 0 else rng.choice(Q)])
    F = [q for q in Q if rng.random() < 0.3] or [Q[1]]
    return {'Q': Q, 'Sigma': Sigma, 'delta': delta, 'q0': Q[0], 'F': F}


def numbered_nfa(rng, n=None):
    """an NFA with n = 11..12 states q0 .. q<n-1>, few transitions per state (small subset automaton), q1 accepting and q10 not"""
    n = n or rng.randint(11, 12)
    eps = rng.choice(['_', 'ε'])
    Sig = ['a', 'b']
    Q = ['q%d' % i for i in range(n)]
    rows = {}
    for i, q in enumerate(Q):
        rows[(q, 'a')] = [Q[(i + 1) % n]]
        if rng.random() < 0.3:
            rows[(q, 'b')] = sorted({rng.choice(Q), rng.choice(Q)})
        if rng.random() < 0.1:
            rows[(q, eps)] = [rng.choice(Q)]
    rows[(Q[0], 'b')] = [Q[10]]          # the subset {q10} is reachable: no accepting state in it, but the NAME q1 is part of the name q10
    rows.pop((Q[0], eps), None)
    delta = [[p, a, T] for (p, a), T in rows.items()]
    F = sorted({Q[1]} | {q for q in Q[2:10] if rng.random() < 0.1})
    return {'Q': Q, 'Sigma': Sig, 'delta': delta, 'q0': Q[0], 'F': F, 'eps': eps, 'dd': True}


def ring_dfa(rng, n=None):
    """5-8 states on one big cycle (first symbol = next state on the ring), the other symbols mostly lead to one or two hub states, few
    accepting states: whether an accepting state is reachable from a state is decided through back edges of any depth-first search"""
    n = n or rng.randint(5, 8)
    Sig = rng.choice([['a', 'b'], ['a', 'b'], ['a', 'b', 'c']])
    Q = ['r%d' % i for i in range(n)]
    rng.shuffle(Q)
    hubs = rng.sample(Q, 2)
    delta = []
    for i, q in enumerate(Q):
        delta.append([q, Sig[0], Q[(i + 1) % n] if rng.random() < 0.85 else rng.choice(Q)])
        for a in Sig[1:]:
            delta.append([q, a, rng.choice(hubs) if rng.random() < 0.7 else rng.choice(Q)])
    F = rng.sample(Q, rng.choice([1, 2, 2, 3]))
    if rng.random() < 0.5:       # an accepting state all of whose transitions lead to one non-accepting state
        f2 = rng.choice(F)
        v = rng.choice([q for q in Q if q not in F] or Q)
        for e in delta:
            if e[0] == f2:
                e[2] = v
    return {'Q': sorted(Q), 'Sigma': Sig, 'delta': delta, 'q0': Q[0], 'F': F}


def wide_dfa(rng, n=None):
    """a counter-like total DFA with 130-150 states over two symbols: more than 256 transitions"""
    n = n or rng.randint(130, 150)
    Q = ['w%d' % i for i in range(n)]
    delta = []
    for i in range(n):
        delta.append([Q[i], 'a', Q[(i + 1) % n]])
        delta.append([Q[i], 'b', Q[(i * 7 + 3) % n]])
    return {'Q': Q, 'Sigma': ['a', 'b'], 'delta': delta, 'q0': Q[0], 'F': [Q[i] for i in range(n) if i % 5 == 2]}


def wide_cfg(rng):
    """one variable with 18-30 alternatives: its printed rule is far longer than a terminal line"""
    letters = ['a', 'b', 'c', 'd', 'e', 'f', 'g', 'h'][:rng.randint(4, 8)]
    V = ['S'] + (['T'] if rng.random() < 0.6 else [])
    alts = []
    for x in letters:
        alts.append([['t', x]])
        alts.append([['t', x], ['v', 'S'], ['t', x]])
    while len(alts) < rng.randint(18, 30):
        n = rng.randint(2, 4)
        alt = [(['v', rng.choice(V)] if rng.random() < 0.3 else ['t', rng.choice(letters)]) for _ in range(n)]
        if alt not in alts:
            alts.append(alt)
    rng.shuffle(alts)
    R = [['S', i, alt] for i, alt in enumerate(alts)]
    if 'T' in V:
        R.append(['T', len(R), [['t', letters[0]], ['v', 'T']]])
        R.append(['T', len(R), [['t', letters[1]]]])
    return {'V': V, 'Sigma': sorted(letters), 'R': R, 'S': 'S'}


def late_long_chain_nfa(n):
    """q0 -a-> c0 -eps-> c1 ... -eps-> c<n-1> -b-> f: an accepting run with n-1 consecutive epsilon steps"""
    Q = ['q0'] + ['c%d' % i for i in range(n)] + ['f']
    delta = [['q0', 'a', ['c0']]] + [['c%d' % i, '_', ['c%d' % (i + 1)]] for i in range(n - 1)] + [['c%d' % (n - 1), 'b', ['f']]]
    return {'Q': Q, 'Sigma': ['a', 'b'], 'delta': delta, 'q0': 'q0', 'F': ['f'], 'eps': '_', 'dd': True}
