#!/usr/bin/env python
"""Entry point: check.py --property Cxx --tier quick|thorough   (exit 0 held / 1 violation / 2 could not run)."""
import argparse, importlib, json, os, subprocess, sys, time, tempfile, shutil

HERE = os.path.dirname(os.path.abspath(__file__))
sys.path.insert(0, HERE)


def worker_main(args):
    import core
    mod = importlib.import_module('props.' + args.property.lower())
    ctx = core.Ctx(args.property, args.tier, core.SEED, os.environ.get('PYTHONHASHSEED', ''), args.index, args.workers)
    t0 = time.time()
    fatal = None
    try:
        if args.replay and not args.prefix:
            detail = json.load(open(args.replay))['detail']
            ctx.replaying = True
            core.run_cases(ctx, mod, [detail['case']])
        elif args.replay:
            # the isolated case did not fail again: the failure depends on the cases judged before it in the same process
            # (a cache, a counter, ...). Re-run the deterministic prefix of the original run and keep what the last case reports.
            rec = json.load(open(args.replay))
            ctx.stop_after = rec['ordinal']
            mod.run(ctx)
            ctx.violations = [v for v in ctx.violations if v['ordinal'] == rec['ordinal']]
        else:
            mod.run(ctx)
    except Exception:
        import traceback
        fatal = traceback.format_exc()[-3000:]
    out = {'violations': ctx.violations, 'known_hits': ctx.known_hits, 'counts': ctx.counts,
           'samples': ctx.samples[:6], 'nontrivial': sorted(ctx.nontrivial), 'evaluations': ctx.evaluations,
           'digests': ctx.digests, 'case_of': ctx.case_of, 'exhaustive': ctx.exhaustive, 'notes': ctx.notes, 'fatal': fatal,
           'harness_errors': getattr(ctx, 'harness_errors', [])[:5], 'lean_lines': ctx.lean.lines,
           'wall_s': round(time.time() - t0, 2), 'hashseed': ctx.hashseed}
    json.dump(out, open(args.out, 'w'))


def main():
    ap = argparse.ArgumentParser()
    ap.add_argument('--property', required=True)
    ap.add_argument('--tier', default=os.environ.get('VERIF_TIER', 'quick'))
    ap.add_argument('--worker', action='store_true')
    ap.add_argument('--index', type=int, default=0)
    ap.add_argument('--workers', type=int, default=1)
    ap.add_argument('--out')
    ap.add_argument('--replay')
    ap.add_argument('--prefix', action='store_true')
    args = ap.parse_args()
    if args.tier not in ('quick', 'thorough'):
        args.tier = 'quick'
    if args.worker:
        return worker_main(args)

    import core, leangate
    t0 = time.time()
    prop = args.property
    mod = importlib.import_module('props.' + prop.lower())
    meta = mod.META
    thorough = args.tier == 'thorough'

    gate = leangate.gate(prop, thorough)

    nw = meta.get('workers', {}).get(args.tier, 2 if not thorough else 8)
    rec = json.load(open(args.replay)) if args.replay else None

    def run_workers(specs):
        """specs: list of (index, workers, hashseed, extra args, extra env)"""
        scratch = tempfile.mkdtemp(prefix='gamba-verif-')
        procs = []
        try:
            for (i, n, hs, extra, eenv) in specs:
                env = dict(os.environ)
                env.update(eenv)
                env['PYTHONHASHSEED'] = str(hs)
                env['PYTHONPATH'] = os.path.join(core.REPO, 'src')
                out = os.path.join(scratch, 'w%d.json' % len(procs))
                cmd = [sys.executable, os.path.abspath(__file__), '--property', prop, '--tier', eenv.get('VERIF_TIER', args.tier), '--worker',
                       '--index', str(i), '--workers', str(n), '--out', out] + extra
                procs.append((subprocess.Popen(cmd, env=env, cwd=core.VERIF), out))
            res = []
            for p, out in procs:
                p.wait()
                if p.returncode != 0 or not os.path.exists(out):
                    print('harness worker failed (rc=%s)' % p.returncode)
                    sys.exit(2)
                res.append(json.load(open(out)))
            return res
        finally:
            shutil.rmtree(scratch, ignore_errors=True)

    def default_hs(i):
        return (core.SEED * 7919 + i * 104729 + 1) % 4294967295

    if rec is None:
        results = run_workers([(i, nw, default_hs(i), [], {}) for i in range(nw)])
    else:
        # replay under the hash seed the violation was seen with: first the case alone, then (if that is silent and the record says
        # where in the run it happened) the deterministic prefix of the original run up to that case
        hs = rec.get('hashseed') if rec.get('hashseed') not in (None, '') else default_hs(0)
        if rec.get('kind') == 'hash-seed-dependence' and rec['detail'].get('case') is not None:
            # run the case under both hash seeds; the comparison below reports the disagreement again
            results = run_workers([(0, 1, h, ['--replay', args.replay], {}) for h in rec['detail']['hashseeds']])
        else:
            results = run_workers([(0, 1, hs, ['--replay', args.replay], {})])
        if not results[0]['violations'] and not results[0]['known_hits'] and rec.get('ordinal') and not os.environ.get('VERIF_REPLAY_ISOLATED_ONLY'):
            print('the case alone does not fail; replaying the first %d cases of the original run (seed %s, tier %s)'
                  % (rec['ordinal'], rec.get('seed'), rec.get('tier')))
            results = run_workers([(rec.get('worker_index', 0), rec.get('n_workers', 1), hs, ['--replay', args.replay, '--prefix'],
                                    {'VERIF_SEED': str(rec.get('seed', 0)), 'VERIF_TIER': rec.get('tier', 'quick')})])

    fatals = [r['fatal'] for r in results if r['fatal']]
    herrs = [e for r in results for e in r['harness_errors']]
    if fatals or herrs:
        print('harness error (not a verdict):')
        for f in fatals[:2]:
            print(f)
        for e in herrs[:2]:
            print(json.dumps(e)[:3000])
        sys.exit(2)

    violations = []
    seen = set()
    for r in results:
        for v in r['violations']:
            k = core.digest([v['kind'], v['detail'].get('case')])
            if k not in seen:
                seen.add(k)
                v['hashseed'] = r['hashseed']
                violations.append(v)
    # C19-style cross-process comparison: the canonical result of every shared case must not depend on the hash seed
    base = results[0]['digests']
    for r in results[1:]:
        for cid, d in r['digests'].items():
            if cid in base and base[cid] != d:
                case = results[0].get('case_of', {}).get(cid) or r.get('case_of', {}).get(cid)
                violations.append({'kind': 'hash-seed-dependence', 'no_input': False,
                                   'detail': {'case_id': cid, 'hashseeds': [results[0]['hashseed'], r['hashseed']], 'case': case,
                                              'what': 'the canonical result of this case differs between two processes that differ only in PYTHONHASHSEED'},
                                   'hashseed': r['hashseed']})
                break
    violations.sort(key=lambda v: v['no_input'])      # concrete failing inputs first
    if not gate['ok']:
        violations.append({'kind': 'lean-gate', 'no_input': True, 'detail': {'problems': gate['problems']}, 'hashseed': ''})

    known = {}
    for r in results:
        for k, what in r['known_hits']:
            known[k] = what
    for k, what in sorted(known.items()):
        print('KNOWN-FINDING: property=%s %s' % (prop, what))

    rdir = os.environ.get('VERIF_REPLAY_DIR', 'replays')
    os.makedirs(os.path.join(core.VERIF, rdir), exist_ok=True)
    for i, v in enumerate(violations[:10]):
        path = os.path.join(rdir, '%s-%s-%d.json' % (prop, core.SEED, i))
        json.dump({'property': prop, 'kind': v['kind'], 'seed': core.SEED, 'hashseed': v.get('hashseed'),
                   'tier': args.tier, 'ordinal': v.get('ordinal'), 'worker_index': v.get('worker_index'),
                   'n_workers': v.get('n_workers'), 'no_failing_input_found': bool(v['no_input']), 'detail': v['detail']}, open(os.path.join(core.VERIF, path), 'w'), indent=1,
                  ensure_ascii=False)
        tail = ' no-failing-input-found' if v['no_input'] else ''
        print('VIOLATION property=%s replay=%s kind=%s%s' % (prop, path, v['kind'], tail))

    counts = {}
    for r in results:
        for k, n in r['counts'].items():
            counts[k] = counts.get(k, 0) + n
    nontrivial = set()
    for r in results:
        nontrivial |= set(r['nontrivial'])
    # prefer small, readable samples (a 1100-state chain is a poor illustration)
    samples = sorted(results[0]['samples'], key=lambda x: len(json.dumps(x)))[:4]
    samples = [x if len(json.dumps(x)) < 4000 else {'truncated': json.dumps(x)[:1500] + ' …'} for x in samples]
    ev = {
        'property_id': prop, 'tier': args.tier, 'seed': core.SEED, 'level': meta.get('level', 'proof') if gate['obligations'] > 0 else 'exploration',
        'coverage': {
            'obligations': gate['obligations'], 'discharged': gate['discharged'],
            'checker_cmd': 'cd lean && lake build && lake env lean .lake/Audit_%s.lean  (#print axioms per theorem)%s' % (
                prop, ' && lake env leanchecker Gamba' if thorough else ''),
            'trusted_base': meta.get('trusted_base', []) + ['Lean 4.33.0 kernel', 'axioms: propext, Classical.choice, Quot.sound only',
                                                             'correspondence harness harness/*.py + lean/Driver (differential test, not a proof)'],
            'theorems': gate['theorems'], 'lean_source_hash': gate['source_hash'],
            'evaluations': sum(r['evaluations'] for r in results),
            'distinct_nontrivial': len(nontrivial),
            'rule': meta.get('rule', '') + '; the minimised failing inputs of corpus/%s.jsonl run first' % prop, 'samples': samples,
            'exhaustive': all(r['exhaustive'] for r in results),
            'branch_counts': counts, 'hash_seeds': [r['hashseed'] for r in results],
            'lean_model_lines': sum(r['lean_lines'] for r in results),
            'notes': sorted(set(n for r in results for n in r['notes'])),
            'known_findings_hit': sorted(known),
        },
        'assumptions': meta.get('assumptions', []),
        'wall_s': round(time.time() - t0, 2), 'violations': len(violations),
    }
    try:        # fingerprints of the anchored source files this run was tied to (informational: the tie is re-established on every run)
        import hashlib
        for l in open(os.path.join(core.VERIF, 'properties.jsonl')):
            pr = json.loads(l)
            if pr['id'] == prop:
                ev['coverage']['anchored_sources'] = {
                    f: (hashlib.sha256(open(os.path.join(core.REPO, f), 'rb').read()).hexdigest()[:16] if os.path.exists(os.path.join(core.REPO, f)) else None)
                    for f in pr['anchors']['files']}
    except Exception:
        pass
    if 'leanchecker' in gate:
        ev['coverage']['leanchecker'] = gate['leanchecker']
    if not args.replay and not os.environ.get('VERIF_NO_EVIDENCE'):
        os.makedirs(os.path.join(core.VERIF, 'evidence'), exist_ok=True)
        json.dump(ev, open(os.path.join(core.VERIF, 'evidence', prop + '.json'), 'w'), indent=1, ensure_ascii=False)
    print('%s %s: %d cases (%d distinct non-trivial), %d/%d theorems, %d violation(s), %.1fs' % (
        prop, args.tier, ev['coverage']['evaluations'], len(nontrivial), gate['discharged'], gate['obligations'],
        len(violations), ev['wall_s']))
    sys.exit(1 if violations else 0)


if __name__ == '__main__':
    main()
