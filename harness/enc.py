"""Specs (JSON-able, identical to the Lean driver's encodings) <-> gambatools objects, and canonical forms."""
from collections import defaultdict
import core  # noqa: F401  (sets sys.path)
from gambatools.dfa import DFA
from gambatools.nfa import NFA
from gambatools.tm import TM
from gambatools.pda import PDA
from gambatools import regexp as RX


# ---------------------------------------------------------------- DFA
def build_dfa(s, check=True):
    return DFA(set(s['Q']), set(s['Sigma']), {(q, a): r for q, a, r in s['delta']}, s['q0'], set(s['F']),
               check_validity=check)


def canon_dfa(D):
    return {'Q': sorted(D.Q), 'Sigma': sorted(D.Sigma), 'delta': sorted([q, a, r] for (q, a), r in D.delta.items()),
            'q0': D.q0, 'F': sorted(D.F)}


def canon_dfa_spec(s):
    d = {}
    for q, a, r in s['delta']:
        d.setdefault((q, a), r)       # Lean `lookup` = first binding
    return {'Q': sorted(set(s['Q'])), 'Sigma': sorted(set(s['Sigma'])),
            'delta': sorted([q, a, r] for (q, a), r in d.items()), 'q0': s['q0'], 'F': sorted(set(s['F']))}


# ---------------------------------------------------------------- NFA
def build_nfa(s, check=True):
    if s.get('dd', True):
        delta = defaultdict(set)
    else:
        delta = {}
    fz = s.get('frozen')          # 'delta': transition targets are frozensets; 'all': Q, Sigma, F too (legal values of the NFA fields)
    for q, a, R in s['delta']:
        delta[q, a] = frozenset(R) if fz else set(R)
    mk = frozenset if fz == 'all' else set
    return NFA(mk(s['Q']), mk(s['Sigma']), delta, s['q0'], mk(s['F']), s['eps'], check_validity=check)


def canon_nfa(N, drop_empty=True):
    delta = sorted([q, a, sorted(R)] for (q, a), R in N.delta.items() if R or not drop_empty)
    return {'Q': sorted(N.Q), 'Sigma': sorted(N.Sigma), 'delta': delta, 'q0': N.q0, 'F': sorted(N.F),
            'eps': N.epsilon}


def canon_nfa_spec(s, drop_empty=True):
    d = {}
    for q, a, R in s['delta']:
        d.setdefault((q, a), R)
    delta = sorted([q, a, sorted(set(R))] for (q, a), R in d.items() if R or not drop_empty)
    return {'Q': sorted(set(s['Q'])), 'Sigma': sorted(set(s['Sigma'])), 'delta': delta, 'q0': s['q0'],
            'F': sorted(set(s['F'])), 'eps': s['eps']}


def nfa_to_spec(N):
    s = canon_nfa(N, drop_empty=False)
    s['dd'] = isinstance(N.delta, defaultdict)
    return s


def dfa_to_spec(D):
    return canon_dfa(D)


# ---------------------------------------------------------------- TM
def build_tm(s, check=True):
    delta = {(p, a): (q, b, d) for p, a, q, b, d in s['delta']}
    return TM(set(s['Q']), set(s['Sigma']), set(s['Gamma']), delta, s['q0'], s['qa'], s['qr'], s['blank'],
              check_validity=check)


def canon_tm(T):
    return {'Q': sorted(T.Q), 'Sigma': sorted(T.Sigma), 'Gamma': sorted(T.Gamma),
            'delta': sorted([p, a, q, b, d] for (p, a), (q, b, d) in T.delta.items()),
            'q0': T.q0, 'qa': T.q_accept, 'qr': T.q_reject, 'blank': T.blank}


# ---------------------------------------------------------------- PDA
def build_pda(s, check=True):
    delta = defaultdict(set) if s.get('dd', True) else {}
    shared = {}
    for p, a, u, targets in s['delta']:
        T = set((q, v) for q, v in targets)
        if s.get('share'):          # equal target sets under different keys are ONE set object (as after `d[k1] = d[k2] = {...}`)
            T = shared.setdefault(frozenset(T), T)
        delta[p, a, u] = T
    return PDA(set(s['Q']), set(s['Sigma']), set(s['Gamma']), delta, s['q0'], set(s['F']), s['eps'],
               check_validity=check)


def canon_pda(P, drop_empty=True):
    return {'Q': sorted(P.Q), 'Sigma': sorted(P.Sigma), 'Gamma': sorted(P.Gamma),
            'delta': sorted([p, a, u, sorted([q, v] for q, v in T)] for (p, a, u), T in P.delta.items()
                            if T or not drop_empty),
            'q0': P.q0, 'F': sorted(P.F), 'eps': P.epsilon}


def canon_pda_spec(s, drop_empty=True):
    d = {}
    for p, a, u, T in s['delta']:
        d.setdefault((p, a, u), T)
    return {'Q': sorted(set(s['Q'])), 'Sigma': sorted(set(s['Sigma'])), 'Gamma': sorted(set(s['Gamma'])),
            'delta': sorted([p, a, u, sorted([list(t) for t in set(map(tuple, T))])] for (p, a, u), T in d.items()
                            if T or not drop_empty),
            'q0': s['q0'], 'F': sorted(set(s['F'])), 'eps': s['eps']}


# ---------------------------------------------------------------- Regexp
def build_regexp(s):
    t = s[0]
    if t == 'zero':
        return RX.Zero()
    if t == 'one':
        return RX.One()
    if t == 'sym':
        return RX.Symbol(s[1])
    if t == 'star':
        return RX.Iteration(build_regexp(s[1]))
    if t == 'sum':
        return RX.Sum(build_regexp(s[1]), build_regexp(s[2]))
    if t == 'cat':
        return RX.Concat(build_regexp(s[1]), build_regexp(s[2]))
    raise ValueError(s)


def regexp_to_spec(r):
    if isinstance(r, RX.Zero):
        return ['zero']
    if isinstance(r, RX.One):
        return ['one']
    if isinstance(r, RX.Symbol):
        return ['sym', r.symbol]
    if isinstance(r, RX.Iteration):
        return ['star', regexp_to_spec(r.operand)]
    if isinstance(r, RX.Sum):
        return ['sum', regexp_to_spec(r.left), regexp_to_spec(r.right)]
    if isinstance(r, RX.Concat):
        return ['cat', regexp_to_spec(r.left), regexp_to_spec(r.right)]
    raise ValueError(r)


def words(ws):
    return sorted(set(ws), key=lambda w: (len(w), w))


# ---------------------------------------------------------------- CFG
from gambatools.cfg import CFG, Rule, Alternative, Terminal, Variable


def _sym(x):
    return ['v', str(x)] if isinstance(x, Variable) else ['t', str(x)]


def build_cfg(s, check=True):
    alts = {}
    R = []
    for lhs, aid, rhs in s['R']:
        if aid not in alts:
            alts[aid] = Alternative([Variable(n) if k == 'v' else Terminal(n) for k, n in rhs])
        R.append(Rule(Variable(lhs), alts[aid]))
    if s.get('eps'):
        return CFG(set(Variable(v) for v in s['V']), set(Terminal(a) for a in s['Sigma']), R, Variable(s['S']),
                   epsilon=Terminal(s['eps']), check_validity=check)
    return CFG(set(Variable(v) for v in s['V']), set(Terminal(a) for a in s['Sigma']), R, Variable(s['S']),
               check_validity=check)


def cfg_to_spec(G):
    ids = {}
    R = []
    for r in G.R:
        k = ids.setdefault(id(r.alternative), len(ids))
        R.append([str(r.variable), k, [_sym(x) for x in r.alternative.symbols]])
    out = {'V': sorted(map(str, G.V)), 'Sigma': sorted(map(str, G.Sigma)), 'R': R, 'S': str(G.S)}
    if not all(isinstance(x, str) for x in list(G.V) + list(G.Sigma) + [G.S] + [r.variable for r in G.R] +
               [y for r in G.R for y in r.alternative.symbols]):
        out['non_string_symbol'] = True
    return out


def canon_cfg_spec(s, keep_order=False, keep_alias=False):
    """(V, Sigma, S, rules) with alias classes renumbered by first occurrence."""
    ids = {}
    R = []
    for lhs, aid, rhs in s['R']:
        k = ids.setdefault(aid, len(ids))
        R.append([lhs, k if keep_alias else 0, [list(x) for x in rhs]])
    if not keep_order:
        R = sorted(R)
    return {'V': sorted(set(s['V'])), 'Sigma': sorted(set(s['Sigma'])), 'S': s['S'], 'R': R}
