"""Lean gate: build the project, scan for forbidden tokens, audit the axioms of the property theorems.
The result is cached on a hash of the Lean sources so that 20 checks do not repeat it."""
import os, re, json, subprocess, hashlib, fcntl, time, glob
from core import LEAN_DIR, VERIF

ALLOWED_AXIOMS = {'propext', 'Classical.choice', 'Quot.sound'}
FORBIDDEN = re.compile(r'\b(sorry|admit|native_decide|bv_decide|implemented_by|unsafe)\b|^\s*axiom\s|maxHeartbeats\s+0\b', re.M)


def strip_comments(src):
    # remove block comments (nested not handled beyond one level) and line comments
    out, depth, i = [], 0, 0
    while i < len(src):
        if src.startswith('/-', i):
            depth += 1
            i += 2
        elif src.startswith('-/', i) and depth > 0:
            depth -= 1
            i += 2
        elif depth > 0:
            i += 1
        elif src.startswith('--', i):
            j = src.find('\n', i)
            i = len(src) if j < 0 else j
        else:
            out.append(src[i])
            i += 1
    return ''.join(out)


def sources():
    files = sorted(glob.glob(os.path.join(LEAN_DIR, 'Gamba', '**', '*.lean'), recursive=True))
    files += [os.path.join(LEAN_DIR, 'Gamba.lean'), os.path.join(LEAN_DIR, 'lakefile.toml'),
              os.path.join(LEAN_DIR, 'theorems.json')]
    files += sorted(glob.glob(os.path.join(LEAN_DIR, 'Driver', '*.lean')))
    files += sorted(glob.glob(os.path.join(LEAN_DIR, 'Bridge', '*.lean')))
    return [f for f in files if os.path.exists(f)]


def source_hash():
    h = hashlib.sha256()
    for f in sources():
        h.update(f.encode())
        h.update(open(f, 'rb').read())
    return h.hexdigest()


def theorems():
    return json.load(open(os.path.join(LEAN_DIR, 'theorems.json')))


def gate(prop, thorough=False):
    """Returns dict(ok, obligations, discharged, theorems=[{name, axioms, status}], problems=[...])."""
    os.makedirs(os.path.join(LEAN_DIR, '.lake'), exist_ok=True)
    lock = open(os.path.join(LEAN_DIR, '.lake', 'gate.lock'), 'w')
    fcntl.flock(lock, fcntl.LOCK_EX)
    try:
        cache_path = os.path.join(LEAN_DIR, '.lake', 'gate-cache.json')
        sh = source_hash()
        cache = {}
        if os.path.exists(cache_path):
            try:
                cache = json.load(open(cache_path))
            except Exception:
                cache = {}
        if cache.get('hash') != sh:
            cache = {'hash': sh, 'props': {}}
            t0 = time.time()
            p = subprocess.run(['lake', 'build'], cwd=LEAN_DIR, stdout=subprocess.PIPE, stderr=subprocess.STDOUT)
            if p.returncode != 0:
                # a compiler process killed under memory pressure is not a verdict about the proofs: build once more, alone
                time.sleep(5)
                p = subprocess.run(['lake', 'build'], cwd=LEAN_DIR, stdout=subprocess.PIPE, stderr=subprocess.STDOUT)
            cache['build_ok'] = p.returncode == 0
            cache['build_s'] = round(time.time() - t0, 1)
            cache['build_tail'] = p.stdout.decode('utf-8', 'replace')[-3000:]
            bad = []
            for f in sources():
                if f.endswith('.lean'):
                    for m in FORBIDDEN.finditer(strip_comments(open(f).read())):
                        bad.append('%s: %s' % (os.path.relpath(f, LEAN_DIR), m.group(0).strip()))
            cache['forbidden'] = bad
            json.dump(cache, open(cache_path, 'w'))
        if prop not in cache['props']:
            th = theorems().get(prop, {})
            names = [(n, 'full') for n in th.get('full', [])] + [(n, 'partial') for n in th.get('partial', [])]
            # 'bridge': theorems of lean/Bridge/*.lean (Spec = Mathlib definition); audited with the Bridge modules imported
            names += [(n, 'bridge') for n in th.get('bridge', [])]
            res = []
            if cache['build_ok'] and names:
                imports = 'import Gamba\n' + ('import Bridge.DFA\nimport Bridge.NFA\nimport Bridge.Regexp\nimport Bridge.CFG\nimport Bridge.PDA\n'
                                              if th.get('bridge') else '')
                src = imports + ''.join('#print axioms %s\n' % n for n, _ in names)
                tmp = os.path.join(LEAN_DIR, '.lake', 'Audit_%s.lean' % prop)
                open(tmp, 'w').write(src)
                p = subprocess.run(['lake', 'env', 'lean', tmp], cwd=LEAN_DIR, stdout=subprocess.PIPE,
                                   stderr=subprocess.STDOUT)
                out = p.stdout.decode('utf-8', 'replace')
                for n, status in names:
                    m = re.search(r"'%s' depends on axioms: \[([^\]]*)\]" % re.escape(n), out, re.S)
                    if m:
                        ax = [a.strip() for a in m.group(1).replace('\n', ' ').split(',') if a.strip()]
                        res.append({'name': n, 'status': status, 'axioms': ax,
                                    'ok': set(ax) <= ALLOWED_AXIOMS})
                    elif re.search(r"'%s' does not depend on any axioms" % re.escape(n), out):
                        res.append({'name': n, 'status': status, 'axioms': [], 'ok': True})
                    else:
                        res.append({'name': n, 'status': status, 'axioms': None, 'ok': False,
                                    'error': out[-400:]})
            cache['props'][prop] = res
            json.dump(cache, open(cache_path, 'w'))
        res = cache['props'][prop]
        problems = []
        if not cache['build_ok']:
            problems.append('lake build failed: ' + cache['build_tail'][-600:])
        problems += ['forbidden token ' + b for b in cache['forbidden']]
        problems += ['theorem %s: %s' % (r['name'], r.get('error', 'axioms %s' % r['axioms'])) for r in res if not r['ok']]
        out = {'ok': not problems, 'obligations': len(res), 'discharged': sum(1 for r in res if r['ok']),
               'theorems': res, 'problems': problems, 'source_hash': sh[:16]}
        if thorough and not problems:
            out['leanchecker'] = leanchecker(prop, cache, cache_path)
            if out['leanchecker'].get('rc') not in (0, None):
                out['ok'] = False
                out['problems'].append('leanchecker failed: ' + out['leanchecker'].get('tail', ''))
        return out
    finally:
        fcntl.flock(lock, fcntl.LOCK_UN)
        lock.close()


def leanchecker(prop, cache, cache_path):
    key = 'leanchecker'
    if key in cache:
        return cache[key]
    mods = ['Gamba']
    t0 = time.time()
    try:
        p = subprocess.run(['lake', 'env', 'leanchecker'] + mods, cwd=LEAN_DIR, stdout=subprocess.PIPE,
                           stderr=subprocess.STDOUT, timeout=1500)
        r = {'rc': p.returncode, 'wall_s': round(time.time() - t0, 1), 'tail': p.stdout.decode('utf-8', 'replace')[-300:]}
    except Exception as e:
        r = {'rc': None, 'error': str(e)[:200]}
    cache[key] = r
    json.dump(cache, open(cache_path, 'w'))
    return r
