"""Core of the correspondence harness (DESIGN.md section 4).

Everything random derives from VERIF_SEED.  The implementation under test is imported from
$GAMBA_REPO/src (default /repo/src), i.e. the current working tree.
"""
import json, os, sys, time, random, hashlib, signal, subprocess, tempfile, shutil, fcntl, io, contextlib, traceback

VERIF = os.path.dirname(os.path.dirname(os.path.abspath(__file__)))
REPO = os.environ.get('GAMBA_REPO', '/repo')
LEAN_DIR = os.path.join(VERIF, 'lean')
sys.path.insert(0, os.path.join(REPO, 'src'))
sys.path.insert(0, os.path.join(VERIF, 'harness'))

SEED = int(os.environ.get('VERIF_SEED', '0') or 0)


class Timeout(Exception):
    pass


@contextlib.contextmanager
def time_limit(seconds):
    """a limit on the CPU time of this process (ITIMER_PROF), not on wall-clock time: the library is pure computation, and a wall-clock
    limit turns into false alarms when many checks share the machine (seen once: a 1100-state NFA under a load of 40 processes)"""
    def handler(signum, frame):
        raise Timeout()
    old = signal.signal(signal.SIGPROF, handler)
    signal.setitimer(signal.ITIMER_PROF, seconds)
    try:
        yield
    finally:
        signal.setitimer(signal.ITIMER_PROF, 0)
        signal.signal(signal.SIGPROF, old)


ERR_CLASS = {
    'KeyError': 'keyError', 'AssertionError': 'assertion', 'RuntimeError': 'runtimeError',
    'ValueError': 'valueError', 'StopIteration': 'stopIteration', 'Timeout': 'fuel',
    'RecursionError': 'recursion', 'IndexError': 'indexError', 'TypeError': 'typeError',
    'AttributeError': 'attributeError',
}


def call(f, *args, limit=10.0, **kw):
    """Run an implementation function; map the outcome to {'ok': v} / {'err': class}."""
    try:
        with time_limit(limit):
            return {'ok': f(*args, **kw)}
    except Timeout:
        return {'err': 'fuel'}
    except BaseException as e:  # noqa
        if isinstance(e, (KeyboardInterrupt, SystemExit)):
            raise
        return {'err': ERR_CLASS.get(type(e).__name__, type(e).__name__), 'msg': str(e)[:200]}


def capture_stdout(f, *args, **kw):
    buf = io.StringIO()
    with contextlib.redirect_stdout(buf):
        r = f(*args, **kw)
    return r, buf.getvalue()


class LeanDriver:
    """Pipes batches of JSON lines through the Lean model driver."""

    def __init__(self):
        self.exe = os.path.join(LEAN_DIR, '.lake', 'build', 'bin', 'gamba-driver')
        self.lines = 0
        self.wall = 0.0

    def batch(self, requests):
        if not requests:
            return []
        t0 = time.time()
        data = '\n'.join(json.dumps(r, ensure_ascii=False) for r in requests) + '\n'
        if os.path.exists(self.exe):
            cmd = [self.exe]
        else:
            cmd = ['lake', 'env', 'lean', '--run', 'Driver/Main.lean']
        p = subprocess.run(cmd, input=data.encode('utf-8'), stdout=subprocess.PIPE, stderr=subprocess.PIPE,
                           cwd=LEAN_DIR, timeout=900)
        out = p.stdout.decode('utf-8').split('\n')
        if out and out[-1] == '':
            out.pop()
        if p.returncode != 0 or len(out) != len(requests):
            raise RuntimeError('lean driver failed: rc=%s, %d answers for %d requests; stderr=%s' % (
                p.returncode, len(out), len(requests), p.stderr.decode('utf-8')[-2000:]))
        self.lines += len(requests)
        self.wall += time.time() - t0
        return [json.loads(l) for l in out]


def digest(obj):
    return hashlib.sha256(json.dumps(obj, sort_keys=True, ensure_ascii=False).encode('utf-8')).hexdigest()[:16]


class Ctx:
    """Per-run context handed to a property module."""

    def __init__(self, prop, tier, seed, hashseed, worker_index=0, n_workers=1):
        self.prop = prop
        self.tier = tier
        self.seed = seed
        self.hashseed = hashseed
        self.worker_index = worker_index
        self.n_workers = n_workers
        self.rng = random.Random('%s/%s' % (prop, seed))
        self.lean = LeanDriver()
        self.violations = []      # dicts
        self.known_hits = []      # (key, text)
        self.counts = {}
        self.samples = []
        self.nontrivial = set()
        self.evaluations = 0
        self.digests = {}         # case id -> digest of canonical impl result (cross-hash-seed comparison)
        self.case_of = {}         # case id -> the case (public keys only)
        self.exhaustive = False
        self.notes = []
        self.known = load_known_findings().get(prop, [])

    # -- bookkeeping ------------------------------------------------------------------------
    def count(self, key, n=1):
        self.counts[key] = self.counts.get(key, 0) + n

    def case(self, obj, nontrivial):
        """Record one explored case; `obj` must be JSON-serialisable."""
        self.evaluations += 1
        if nontrivial:
            self.nontrivial.add(digest(obj))
        if len(self.samples) < 3 or (nontrivial and len(self.samples) < 6 and self.rng.random() < 0.01):
            self.samples.append(obj)

    def record(self, case_id, value):
        self.digests[case_id] = digest(value)
        # remember which case produced the value (for the replay file of a cross-hash-seed disagreement)
        cur = getattr(self, 'current_case', None)
        if cur is not None and len(self.case_of) < 30000:
            try:
                json.dumps(cur)
                self.case_of[case_id] = cur
            except TypeError:
                pass

    def mine(self, i):
        """Case slicing between workers (only used when workers do not all run everything)."""
        return i % self.n_workers == self.worker_index

    # -- outcomes ---------------------------------------------------------------------------
    def violation(self, kind, detail, no_input=False, finding_key=None):
        """kind: short label; detail: JSON-serialisable replay content."""
        if finding_key is not None:
            for k in self.known:
                if k.get('status') == 'open' and k['key'] == finding_key:
                    self.known_hits.append((finding_key, k['what']))
                    return
        n_same = sum(1 for v in self.violations if v['no_input'] == bool(no_input))
        if n_same < (10 if no_input else 25):
            self.violations.append({'kind': kind, 'detail': detail, 'no_input': bool(no_input),
                                    'ordinal': getattr(self, 'ordinal', 0), 'worker_index': self.worker_index, 'n_workers': self.n_workers})
        self.count('violations:' + kind)


def load_known_findings():
    p = os.path.join(VERIF, 'KNOWN_FINDINGS.json')
    if not os.path.exists(p):
        return {}
    data = json.load(open(p))
    out = {}
    for f in data.get('findings', []):
        out.setdefault(f['property'], []).append(f)
    return out


def run_cases(ctx, mod, cases, chunk=400):
    """Two-phase runner: batch the Lean requests of a chunk of cases, then judge each case."""
    buf = []

    def flush():
        reqs, spans = [], []
        for c in buf:
            r = mod.lean_requests(c)
            spans.append((len(reqs), len(reqs) + len(r)))
            reqs.extend(r)
        answers = ctx.lean.batch(reqs)
        for c, (a, b) in zip(buf, spans):
            ctx.ordinal = getattr(ctx, 'ordinal', 0) + 1
            ctx.current_case = {k: v for k, v in c.items() if not k.startswith('_')}
            try:
                mod.judge(ctx, c, answers[a:b])
            except Exception as e:  # a harness bug must not masquerade as a verdict
                ctx.harness_errors = getattr(ctx, 'harness_errors', [])
                ctx.harness_errors.append({'case': c, 'error': traceback.format_exc()[-1500:]})
        buf.clear()

    stop = getattr(ctx, 'stop_after', None)      # prefix replay: judge only the first `stop` cases of the run
    n = 0
    for c in corpus_cases(ctx):
        if stop is not None and n >= stop:
            break
        n += 1
        buf.append(c)
    flush()
    for c in cases:
        if stop is not None and n >= stop:
            break
        n += 1
        buf.append(c)
        if len(buf) >= chunk:
            flush()
    flush()


def corpus_cases(ctx):
    """minimised past failures (inputs on which a seeded change was caught) run first on every run: corpus/<property>.jsonl"""
    if getattr(ctx, 'replaying', False) or os.environ.get('VERIF_NO_CORPUS'):
        return
    path = os.path.join(VERIF, 'corpus', '%s.jsonl' % ctx.prop)
    if not os.path.exists(path):
        return
    for line in open(path, encoding='utf8'):
        line = line.strip()
        if line:
            ctx.count('corpus')
            yield json.loads(line)['case']
