"""Executes the code cells of a shipped notebook (plain JSON, no Jupyter needed) in one namespace, capturing what each
cell that calls a check_* / cfg_check_* function prints."""
import io, json, os, re, contextlib
import core


def run_notebook(path):
    nb = json.load(open(path, encoding='utf8'))
    ns = {}
    out = []
    cwd = os.getcwd()
    os.chdir(os.path.dirname(path))
    try:
        for i, cell in enumerate(nb.get('cells', [])):
            if cell.get('cell_type') != 'code':
                continue
            src = ''.join(cell.get('source', []))
            src = '\n'.join(l for l in src.split('\n') if not l.strip().startswith(('%', '!')))
            is_check = re.search(r'\b(check_\w+|cfg_check_chomsky|check_answer)\s*\(', src) and 'lambda' not in src.split('(')[0]
            buf = io.StringIO()
            try:
                with contextlib.redirect_stdout(buf), contextlib.redirect_stderr(io.StringIO()), core.time_limit(60):
                    exec(compile(src, '%s[cell %d]' % (os.path.basename(path), i), 'exec'), ns)
            except BaseException as e:  # noqa
                if is_check:
                    out.append((i, 'RAISED', '%s: %s' % (type(e).__name__, e)))
                continue
            if is_check and re.search(r'^\s*(check_\w+|cfg_check_chomsky|check_answer)\s*\(', src, re.M):
                text = buf.getvalue().strip()
                first = text.split('\n')[0] if text else ''
                if 'show' in src and not text:
                    continue
                out.append((i, 'OK' if first == 'OK' else 'NOT-OK', text))
    finally:
        os.chdir(cwd)
    return out
