"""Exercise instances for C12 (a checker never prints OK for a wrong answer) and C13 (the library's own answers pass).

For every exercise type: how the reference objects are generated, how the notebook generator produces the answer key
(notebooks/make_notebook.py:apply_command, reading the reference from scratch files exactly as the notebook does), how
nearly-correct answers are derived from it, how the checker is run (stdout captured), the independent criterion that `OK`
must imply, and the Lean request for the object-level model of the checker."""
import copy, importlib.util, io, os, re, contextlib, tempfile, shutil
import core, enc, gen, oracles
from gambatools import dfa_algorithms as DA, nfa_algorithms as NA, cfg_algorithms as CA, regexp_algorithms as RA
from gambatools import notebook as NB, notebook_dfa as NBD, notebook_nfa2dfa as NBN, notebook_cfg as NBC, notebook_chomsky as NBK
from gambatools.regexp import print_regexp_simple
from gambatools.regexp_simple_parser import parse_simple_regexp
from gambatools.cfg import Variable

_spec = importlib.util.spec_from_file_location('make_notebook', os.path.join(core.REPO, 'notebooks', 'make_notebook.py'))
make_notebook = importlib.util.module_from_spec(_spec)
_spec.loader.exec_module(make_notebook)


def run_checker(f, *args, **kw):
    """returns ('OK' | 'NOT-OK' | 'RAISED', stdout)"""
    buf = io.StringIO()
    try:
        with contextlib.redirect_stdout(buf), contextlib.redirect_stderr(io.StringIO()), core.time_limit(30):
            f(*args, **kw)
    except core.Timeout:
        return 'RAISED', 'timeout'
    except BaseException as e:  # noqa
        return 'RAISED', '%s: %s' % (type(e).__name__, e)
    out = buf.getvalue()
    # the verdict OK is "printed" when a line of the output is OK, wherever it stands (feedback lines may precede it)
    lines = [l.strip() for l in out.strip().split('\n')] if out.strip() else []
    return ('OK' if 'OK' in lines else 'NOT-OK'), out[:4000]


class Scratch:
    def __init__(self):
        self.dir = tempfile.mkdtemp(prefix='gamba-ex-')
        self.n = 0

    def file(self, text, ext):
        self.n += 1
        p = os.path.join(self.dir, 'f%d.%s' % (self.n, ext))
        with open(p, 'w', encoding='utf8') as f:
            f.write(text)
        return p

    def close(self):
        shutil.rmtree(self.dir, ignore_errors=True)


# ---------------------------------------------------------------------------------------------- helpers
def dfa_text(spec):
    return DA.print_dfa(enc.build_dfa(spec))


def nfa_text(spec):
    return NA.print_nfa(enc.build_nfa(spec))


def simple_cfg_text(spec):
    """render a simple-format grammar spec (single upper-case variables, lower-case terminals)"""
    order, alts = [], {}
    for lhs, _, rhs in spec['R']:
        if lhs not in alts:
            order.append(lhs)
            alts[lhs] = []
        alts[lhs].append(''.join(n for _, n in rhs) or spec.get('eps') or 'ε')
    if spec['S'] in order:
        order.remove(spec['S'])
        order.insert(0, spec['S'])
    head = ['epsilon = %s' % spec['eps']] if spec.get('eps') else []
    return '\n'.join(head + ['%s -> %s' % (A, ' | '.join(alts[A])) for A in order])


def mutate_dfa_spec(rng, s):
    """single-edit mutations of a DFA spec (still a valid total DFA)"""
    s = copy.deepcopy(s)
    k = rng.randint(0, 3)
    if k == 0 and s['Q']:
        q = rng.choice(s['Q'])
        s['F'] = [x for x in s['F'] if x != q] if q in s['F'] else s['F'] + [q]
    elif k == 1 and s['delta']:
        e = rng.choice(s['delta'])
        e[2] = rng.choice(s['Q'])
    elif k == 2:
        s['q0'] = rng.choice(s['Q'])
    else:
        q = 'zz9'
        if q not in s['Q']:
            s['Q'] = s['Q'] + [q]
            s['delta'] = s['delta'] + [[q, a, rng.choice(s['Q'])] for a in s['Sigma']]
    return s


def lang_of(obj, n):
    """independent bounded language of a parsed DFA / NFA"""
    if hasattr(obj, 'epsilon'):
        return {w for w in gen.all_words(obj.Sigma, n) if oracles.nfa_accepts(obj, w)}
    return {w for w in gen.all_words(obj.Sigma, n) if oracles.dfa_accepts(obj, w)}


def try_parse(f, text, **kw):
    try:
        with contextlib.redirect_stderr(io.StringIO()), contextlib.redirect_stdout(io.StringIO()):
            return f(text, **kw)
    except Exception:
        return None


# ---------------------------------------------------------------------------------------------- exercises
class Product:
    def __init__(self, t):
        self.t = t
        self.name = 'dfa_' + t
        self.checker = {'union': NBD.check_dfa_union, 'intersection': NBD.check_dfa_intersection,
                        'symmetric_difference': NBD.check_dfa_symmetric_difference}[t]

    def instance(self, rng):
        Sig = rng.choice([['a', 'b'], ['a'], ['0', '1']])
        names = rng.choice([lambda i: 'q%d' % i, lambda i: 's%d' % (i + 1), lambda i: 'ABCDEFGH'[i]])
        return {'D1': gen.random_dfa(rng, 3, Sig, names), 'D2': gen.random_dfa(rng, 3, Sig, names), 'len': rng.choice([2, 3, 4])}

    def own(self, inst, sc):
        return make_notebook.apply_command(self.name, [sc.file(dfa_text(inst['D1']), 'dfa'), sc.file(dfa_text(inst['D2']), 'dfa')])

    def parse(self, text):
        return try_parse(DA.parse_dfa, text, state_regex=r'\(\w+,\w+\)')

    def mutants(self, rng, inst, own):
        A = self.parse(own)
        out = []
        if A is not None:
            for _ in range(3):
                out.append(DA.print_dfa(enc.build_dfa(mutate_dfa_spec(rng, enc.dfa_to_spec(A)), check=False)))
        out.append(dfa_text(inst['D1']))
        return out

    def check(self, inst, ans):
        return run_checker(self.checker, ans, dfa_text(inst['D1']), dfa_text(inst['D2']), inst['len'])

    def text_lean(self, inst, ans):
        return {'op': 'chk_text', 'name': 'product_' + self.t, 'answer': ans, 'ref': dfa_text(inst['D1']), 'ref2': dfa_text(inst['D2']), 'len': inst['len']}

    def langs(self, inst, ans):
        """(language of the answer, language the exercise expects) up to the bound, by the independent oracles"""
        A = self.parse(ans)
        if A is None:
            return None
        D1, D2 = enc.build_dfa(inst['D1']), enc.build_dfa(inst['D2'])
        op = {'union': lambda x, y: x or y, 'intersection': lambda x, y: x and y, 'symmetric_difference': lambda x, y: x != y}[self.t]
        n = inst['len']
        L1, L2 = lang_of(D1, n), lang_of(D2, n)
        return lang_of(A, n), {w for w in gen.all_words(D1.Sigma, n) if op(w in L1, w in L2)}

    def criterion(self, inst, ans):
        A = self.parse(ans)
        if A is None:
            return False
        D1, D2 = enc.build_dfa(inst['D1']), enc.build_dfa(inst['D2'])
        op = {'union': lambda x, y: x or y, 'intersection': lambda x, y: x and y, 'symmetric_difference': lambda x, y: x != y}[self.t]
        for q in A.Q:
            m = re.fullmatch(r'\((\w+),(\w+)\)', q)
            if not m or m.group(1) not in D1.Q or m.group(2) not in D2.Q:
                return False
        if set(A.Sigma) != set(D1.Sigma) or A.q0 != '(%s,%s)' % (D1.q0, D2.q0):
            return False
        for (q, a), r in A.delta.items():
            m = re.fullmatch(r'\((\w+),(\w+)\)', q)
            if r != '(%s,%s)' % (D1.delta[m.group(1), a], D2.delta[m.group(2), a]):
                return False
        expF = {'(%s,%s)' % (p, q) for p in D1.Q for q in D2.Q if op(p in D1.F, q in D2.F)}
        if set(A.F) != expF:
            return False
        n = inst['len']
        L1, L2 = lang_of(D1, n), lang_of(D2, n)
        exp = {w for w in gen.all_words(D1.Sigma, n) if op(w in L1, w in L2)}
        return lang_of(A, n) == exp

    def lean(self, inst, ans):
        A = self.parse(ans)
        if A is None:
            return None
        return {'op': 'chk_product', 'type': self.t, 'D1': inst['D1'], 'D2': inst['D2'], 'A': enc.dfa_to_spec(A), 'len': inst['len']}


class Complement:
    name = 'dfa_complement'

    def instance(self, rng):
        return {'D': gen.random_dfa(rng, 4), 'len': 3}

    def own(self, inst, sc):
        return make_notebook.apply_command('dfa_complement', [sc.file(dfa_text(inst['D']), 'dfa')])

    def parse(self, text):
        return try_parse(DA.parse_dfa, text)

    def mutants(self, rng, inst, own):
        A = self.parse(own)
        out = [dfa_text(inst['D'])]
        if A is not None:
            for _ in range(3):
                out.append(DA.print_dfa(enc.build_dfa(mutate_dfa_spec(rng, enc.dfa_to_spec(A)), check=False)))
        return out

    def check(self, inst, ans):
        return run_checker(NBD.check_dfa_complement, ans, dfa_text(inst['D']), inst['len'])

    def text_lean(self, inst, ans):
        return {'op': 'chk_text', 'name': 'complement', 'answer': ans, 'ref': dfa_text(inst['D'])}

    def criterion(self, inst, ans):
        A = self.parse(ans)
        if A is None:
            return False
        D = enc.build_dfa(inst['D'])
        return (set(A.Sigma) == set(D.Sigma) and set(A.Q) == set(D.Q) and A.q0 == D.q0 and dict(A.delta) == dict(D.delta)
                and set(A.F) == set(D.Q) - set(D.F))

    def lean(self, inst, ans):
        A = self.parse(ans)
        return None if A is None else {'op': 'chk_complement', 'D1': inst['D'], 'A': enc.dfa_to_spec(A)}


class Reverse:
    name = 'dfa_reverse'

    def instance(self, rng):
        if rng.random() < 0.15:      # 11-13 numbered states: the new initial state must be fresh among q0 .. q12
            return {'D': gen.numbered_dfa(rng), 'len': rng.choice([2, 3])}
        return {'D': gen.random_dfa(rng, 4, rng.choice([['a', 'b'], ['a']])), 'len': rng.choice([2, 3, 4])}

    def own(self, inst, sc):
        return make_notebook.apply_command('dfa_reverse', [sc.file(dfa_text(inst['D']), 'dfa')])

    def parse(self, text):
        return try_parse(NA.parse_nfa, text)

    def mutants(self, rng, inst, own):
        A = self.parse(own)
        out = [nfa_text(dict(inst['D'], delta=[[q, a, [r]] for q, a, r in inst['D']['delta']], eps='ε', dd=True))]
        if A is not None:
            s = enc.nfa_to_spec(A)
            for _ in range(3):
                m = copy.deepcopy(s)
                k = rng.randint(0, 2)
                if k == 0 and m['delta']:
                    m['delta'].pop(rng.randrange(len(m['delta'])))
                elif k == 1:
                    m['F'] = [rng.choice(m['Q'])]
                else:
                    m['q0'] = rng.choice(m['Q'])
                try:
                    out.append(NA.print_nfa(enc.build_nfa(m, check=False)))
                except Exception:
                    pass
        return out

    def check(self, inst, ans):
        return run_checker(NBD.check_dfa_reverse, dfa_text(inst['D']), ans, inst['len'])

    def text_lean(self, inst, ans):
        return {'op': 'chk_text', 'name': 'reverse', 'answer': ans, 'ref': dfa_text(inst['D']), 'len': inst['len']}

    def langs(self, inst, ans):
        A = self.parse(ans)
        if A is None:
            return None
        n = inst['len']
        return lang_of(A, n), {w[::-1] for w in lang_of(enc.build_dfa(inst['D']), n)}

    def criterion(self, inst, ans):
        A = self.parse(ans)
        if A is None:
            return False
        D = enc.build_dfa(inst['D'])
        if set(A.Sigma) != set(D.Sigma) or not set(D.Q) <= set(A.Q) or A.q0 in D.Q or set(A.F) != {D.q0}:
            return False
        for (q, a), r in D.delta.items():
            if q not in A.delta.get((r, a), ()):
                return False
        n = inst['len']
        return lang_of(A, n) == {w[::-1] for w in lang_of(D, n)}

    def lean(self, inst, ans):
        A = self.parse(ans)
        return None if A is None else {'op': 'chk_reverse', 'D': inst['D'], 'A': enc.nfa_to_spec(A), 'len': inst['len']}


class Minimal:
    def __init__(self, cmd):
        self.cmd = cmd
        self.name = cmd

    def instance(self, rng):
        if rng.random() < 0.2:      # more pairwise distinguishable states than the length bound can tell apart
            return {'D': gen.counter_dfa(rng), 'len': rng.choice([3, 4])}
        return {'D': gen.random_dfa(rng, 5, rng.choice([['a', 'b'], ['a']])), 'len': rng.choice([3, 4])}

    def own(self, inst, sc):
        return make_notebook.apply_command(self.cmd, [sc.file(dfa_text(inst['D']), 'dfa')])

    def parse(self, text):
        return try_parse(DA.parse_dfa, text, state_regex=r'(\w+)|(\{[\w,]*\})')

    def mutants(self, rng, inst, own):
        A = self.parse(own)
        out = [dfa_text(inst['D'])]
        if A is not None:
            for _ in range(3):
                out.append(DA.print_dfa(enc.build_dfa(mutate_dfa_spec(rng, enc.dfa_to_spec(A)), check=False)))
            # too FEW states, same words up to the length bound: one state of the minimal automaton folded into another one
            sp = enc.dfa_to_spec(A)
            n, ref, found = inst['len'], lang_of(A, inst['len']), 0
            pairs = [(p, q) for p in sp['Q'] for q in sp['Q'] if p != q and q != sp['q0']]
            rng.shuffle(pairs)
            for p, q in pairs[:30]:
                m = {'Q': [x for x in sp['Q'] if x != q], 'Sigma': sp['Sigma'], 'q0': sp['q0'], 'F': [x for x in sp['F'] if x != q],
                     'delta': [[x, a, p if y == q else y] for x, a, y in sp['delta'] if x != q]}
                try:
                    B = enc.build_dfa(m, check=False)
                    if lang_of(B, n) == ref:
                        out.append(DA.print_dfa(B))
                        found += 1
                except Exception:
                    pass
                if found >= 2:
                    break
        return out

    def check(self, inst, ans):
        return run_checker(NBD.check_dfa_minimal, dfa_text(inst['D']), ans, inst['len'])

    def text_lean(self, inst, ans):
        return {'op': 'chk_text', 'name': 'minimal', 'answer': ans, 'ref': dfa_text(inst['D']), 'len': inst['len']}

    def langs(self, inst, ans):
        A = self.parse(ans)
        if A is None:
            return None
        n = inst['len']
        return lang_of(A, n), lang_of(enc.build_dfa(inst['D']), n)

    def criterion(self, inst, ans):
        A = self.parse(ans)
        if A is None:
            return False
        D = enc.build_dfa(inst['D'])
        k, _ = oracles.nerode_classes(D)
        n = inst['len']
        return set(A.Sigma) == set(D.Sigma) and len(A.Q) == k and lang_of(A, n) == lang_of(D, n)

    def lean(self, inst, ans):
        A = self.parse(ans)
        return None if A is None else {'op': 'chk_minimal', 'D': inst['D'], 'A': enc.dfa_to_spec(A), 'len': inst['len']}


def subset_dfa_text(N, start):
    """the subset automaton of N explored from the given initial SUBSET (successors closed correctly), as DFA text"""
    name = lambda S: '{' + ','.join(sorted(S)) + '}'
    seen, todo, delta = {start}, [start], []
    while todo and len(seen) < 40:
        S = todo.pop()
        for a in sorted(N.Sigma):
            T = set()
            for q in S:
                T |= set(oracles.nfa_succ(N, q, a))
            T = frozenset(oracles.eps_reach(N, T))
            delta.append([name(S), a, name(T)])
            if T not in seen:
                seen.add(T)
                todo.append(T)
    spec = {'Q': sorted(name(S) for S in seen), 'Sigma': sorted(N.Sigma), 'delta': delta, 'q0': name(start),
            'F': sorted(name(S) for S in seen if S & set(N.F))}
    try:
        return DA.print_dfa(enc.build_dfa(spec, check=False))
    except Exception:
        return None


class Nfa2Dfa:
    name = 'nfa2dfa'

    def instance(self, rng):
        eps = rng.choice(['_', 'ε', '_'])
        names = rng.choice([lambda i: 'q%d' % i, lambda i: 's%d' % (i + 1), lambda i: 'ABCDEFGH'[i]])
        Sig = rng.choice([['a', 'b'], ['a'], ['0', '1'], ['a', 'b']])
        if rng.random() < 0.08:
            eps, Sig = 'ε', ['a', '_']
        N = gen.random_nfa(rng, 4, Sig, eps, names)
        N['dd'] = True
        if rng.random() < 0.2:      # 11-12 numbered states, q1 accepting and q10 not (one name a substring of the other)
            return {'N': gen.numbered_nfa(rng)}
        if len(N['Q']) >= 3 and rng.random() < 0.3:     # an epsilon chain of length two leaving the initial state
            a, b, c = N['Q'][:3]
            N['q0'] = a
            rows = {(p, x): T for p, x, T in N['delta']}
            rows.setdefault((a, eps), [])
            rows.setdefault((b, eps), [])
            if b not in rows[(a, eps)]:
                rows[(a, eps)] = rows[(a, eps)] + [b]
            if c not in rows[(b, eps)]:
                rows[(b, eps)] = rows[(b, eps)] + [c]
            N['delta'] = [[p, x, T] for (p, x), T in rows.items()]
        return {'N': N}

    def own(self, inst, sc):
        return make_notebook.apply_command('nfa2dfa', [sc.file(nfa_text(inst['N']), 'nfa')])

    def parse(self, text):
        return try_parse(NA.parse_nfa, text, state_regex=r'\{[\w,]*\}')

    def mutants(self, rng, inst, own):
        out = []
        A = try_parse(DA.parse_dfa, own, state_regex=r'\{[\w,]*\}')
        if A is not None:
            for _ in range(3):
                out.append(DA.print_dfa(enc.build_dfa(mutate_dfa_spec(rng, enc.dfa_to_spec(A)), check=False)))
            qs = sorted(A.Q)
            fin = set(inst['N']['F'])
            # mark as accepting EVERY subset state that contains no accepting state but a state whose NAME contains an accepting state's name
            odd = [q for q in qs if len(q) > 2 and not (set(q[1:-1].split(',')) & fin) and any(f in m for f in fin for m in q[1:-1].split(','))]
            if odd:
                s2 = enc.dfa_to_spec(A)
                s2['F'] = sorted(set(s2['F']) | set(odd))
                out.append(DA.print_dfa(enc.build_dfa(s2, check=False)))
            out.append(own + '\n%s %s %s' % (rng.choice(qs), rng.choice(qs), inst['N']['eps']))      # extra epsilon edge
            for e in ('_', 'ε'):                                                                   # ... in either spelling
                if e != inst['N']['eps'] and e not in inst['N']['Sigma']:
                    out.append(own + '\n%s %s %s' % (rng.choice(qs), rng.choice(qs), e))
            lines = own.split('\n')
            if len(lines) > 5:
                out.append('\n'.join(lines[:-1]))                                                  # drop a transition line
        # subset constructions that start from a WRONG initial subset (no closure / one epsilon step only) and are consistent otherwise
        N = enc.build_nfa(inst['N'])
        q0 = inst['N']['q0']
        one = {q0} | set(oracles.nfa_succ(N, q0, N.epsilon))
        for init in ({q0}, one):
            if init != oracles.eps_reach(N, {q0}):
                t = subset_dfa_text(N, frozenset(init))
                if t:
                    out.append(t)
        return out

    def check(self, inst, ans):
        return run_checker(NBN.check_nfa2dfa, nfa_text(inst['N']), ans)

    def text_lean(self, inst, ans):
        return {'op': 'chk_text', 'name': 'nfa2dfa', 'answer': ans, 'ref': nfa_text(inst['N'])}

    def criterion(self, inst, ans):
        A = self.parse(ans)
        if A is None:
            return False
        N = enc.build_nfa(inst['N'])

        def members(q):
            inner = q[1:-1]
            return set(inner.split(',')) if inner else set()
        if not A.Q or set(A.Sigma) != set(N.Sigma):
            return False
        for q in A.Q:
            if not members(q) <= set(N.Q):
                return False
            if (q in A.F) != bool(members(q) & set(N.F)):
                return False
        if members(A.q0) != oracles.eps_reach(N, {N.q0}):
            return False
        for (q, a), T in A.delta.items():
            if a == A.epsilon and T:
                return False
        for q in A.Q:
            for a in A.Sigma:
                T = A.delta.get((q, a), set())
                if len(T) != 1:
                    return False
                succ = set()
                for p in members(q):
                    succ |= oracles.nfa_succ(N, p, a)
                if members(next(iter(T))) != oracles.eps_reach(N, succ):
                    return False
        # consequence (all lengths): the answer, read as a DFA on its reachable part, has the language of N
        return True

    def lean(self, inst, ans):
        A = self.parse(ans)
        return None if A is None else {'op': 'chk_nfa2dfa', 'N': inst['N'], 'A': enc.nfa_to_spec(A)}


class Dfa2Regexp:
    name = 'dfa2regexp'
    regexp_answer = True      # the generated (ANTLR) parser recovers from syntax errors; the Lean parser is strict

    def instance(self, rng):
        return {'D': gen.random_dfa(rng, 3, rng.choice([['a', 'b'], ['a'], ['a', 'b', 'c'], ['a', 'b'], ['0', '1']]),
                                    rng.choice([lambda i: 'q%d' % i, lambda i: 'ABCDEFGH'[i], lambda i: ['start', 'accept', 'reject'][i],
                                                lambda i: ['accept', 'start1', 'start'][i], lambda i: ['wait', 'accept', 'q'][i]])), 'len': rng.choice([3, 4, 5])}

    def own(self, inst, sc):
        return make_notebook.apply_command('dfa2regexp', [sc.file(dfa_text(inst['D']), 'dfa')])

    def parse(self, text):
        return try_parse(parse_simple_regexp, text)

    def mutants(self, rng, inst, own):
        out = [print_regexp_simple(enc.build_regexp(gen.random_regexp(rng, rng.randint(1, 5), inst['D']['Sigma'] or ['a']))) for _ in range(2)]
        if len(own) > 1:
            i = rng.randrange(len(own))
            out.append(own[:i] + own[i + 1:])
        out.append(own + '*')
        return out

    def check(self, inst, ans):
        return run_checker(NB.check_dfa2regexp, dfa_text(inst['D']), ans, inst['len'])

    def text_lean(self, inst, ans):
        return {'op': 'chk_text', 'name': 'dfa2regexp', 'answer': ans, 'ref': dfa_text(inst['D']), 'len': inst['len']}

    def langs(self, inst, ans):
        R = self.parse(ans)
        if R is None:
            return None
        try:
            spec = enc.regexp_to_spec(R)
        except Exception:
            return None
        if any(len(x) != 1 for x in oracles.rx_symbols(spec)):
            return None      # the generated parser recovered from a syntax error with a multi-character symbol ('++c' -> symbol '+c'): outside the modelled domain
        D = enc.build_dfa(inst['D'])
        n = inst['len']
        Sig = sorted(set(D.Sigma) | oracles.rx_symbols(spec))
        return {w for w in gen.all_words(Sig, n) if oracles.rx_matches(spec, w)}, lang_of(D, n)

    def criterion(self, inst, ans):
        R = self.parse(ans)
        if R is None:
            return False
        try:
            spec = enc.regexp_to_spec(R)
        except Exception:
            return False
        D = enc.build_dfa(inst['D'])
        n = inst['len']
        Sig = sorted(set(D.Sigma) | oracles.rx_symbols(spec))
        return {w for w in gen.all_words(Sig, n) if oracles.rx_matches(spec, w)} == lang_of(D, n)

    def lean(self, inst, ans):
        return None      # the object-level model is `equalLanguages` on the two enumerations (C02); tied in C12's language exercise


class Cyk:
    name = 'cfg_cyk_matrix'

    def instance(self, rng):
        for _ in range(50):
            G = gen.random_cfg(rng, cnf=True, nvars=rng.randint(2, 4))
            rules = [(l, [(a, b) for a, b in r]) for l, _, r in G['R']]
            ok = all((len(r) == 0 and l == G['S']) or (len(r) == 1 and r[0][0] == 't') or
                     (len(r) == 2 and r[0][0] == 'v' and r[1][0] == 'v' and G['S'] not in (r[0][1], r[1][1])) for l, r in rules)
            if ok and G['R'] and G['R'][0][0] == G['S'] and all(any(l == v for l, _ in rules) for v in G['V']) and G['Sigma']:
                ws = gen.all_words(G['Sigma'], 4)
                return {'G': G, 'w': rng.choice([w for w in ws if w])}
        return None

    def own(self, inst, sc):
        return make_notebook.apply_command('cfg_cyk_matrix', [sc.file(simple_cfg_text(inst['G']), 'cfg'), inst['w']])

    def mutants(self, rng, inst, own):
        lines = own.split('\n')
        out = []
        if len(lines) > 1:
            out.append('\n'.join(lines[1:]))
            out.append('\n'.join(lines[:-1]))
        out.append(own + '\n' + ' '.join(['{}'] * (len(lines) + 1)))
        cells = re.findall(r'\{[^}]*\}', own)
        if cells:
            c = rng.choice(cells)
            out.append(own.replace(c, '{}' if c != '{}' else '{%s}' % inst['G']['V'][0], 1))
        return out

    def check(self, inst, ans):
        return run_checker(NBC.check_cyk_matrix, simple_cfg_text(inst['G']), inst['w'], ans)

    def text_lean(self, inst, ans):
        return {'op': 'chk_text', 'name': 'cyk', 'answer': ans, 'ref': simple_cfg_text(inst['G']), 'word': inst['w']}

    def criterion(self, inst, ans):
        G, w = inst['G'], inst['w']
        rules = [(l, [(a, b) for a, b in r]) for l, _, r in G['R']]
        T = oracles.cfg_spans(rules, w)
        lines = ans.strip().split('\n')
        n = len(w)
        if len(lines) != n:
            return False
        for i, line in enumerate(reversed(lines)):
            cells = line.split()
            if len(cells) != n - i:
                return False
            for j, cell in enumerate(cells):
                if not re.fullmatch(r'\{\}|\{\w(,\w)*\}', cell):
                    return False
                vs = set(cell[1:-1].split(',')) if cell != '{}' else set()
                if vs != {A for A in G['V'] if (A, j, i + j + 1) in T}:
                    return False
        return True

    def lean(self, inst, ans):
        return {'op': 'chk_cyk', 'G': inst['G'], 'w': list(inst['w']), 'answer': ans}


def random_order_derivation(rng, G, w):
    """a derivation of w in the CNF grammar G (spec) that rewrites a randomly chosen variable occurrence at every step"""
    rules = [(l, [tuple(x) for x in r]) for l, _, r in G['R']]

    def derives(A, u, memo={}):
        key = (A, u)
        if key not in memo:
            memo[key] = oracles.cfg_accepts([(l, r) for l, r in rules], A, u)
        return memo[key]

    def tree(A, u):
        if len(u) == 1 and (A, [('t', u)]) in rules:
            return (A, [('t', u)])
        opts = []
        for l, r in rules:
            if l == A and len(r) == 2 and r[0][0] == 'v' and r[1][0] == 'v':
                for k in range(1, len(u)):
                    if derives(r[0][1], u[:k]) and derives(r[1][1], u[k:]):
                        opts.append((r[0][1], u[:k], r[1][1], u[k:]))
        if not opts:
            return None
        B, u1, C, u2 = rng.choice(opts)
        t1, t2 = tree(B, u1), tree(C, u2)
        return None if t1 is None or t2 is None else (A, [t1, t2])
    if not w:
        return None
    root = tree(G['S'], w)
    if root is None:
        return None
    form = [root]
    out = [G['S']]
    while any(isinstance(x, tuple) and x[0] != 't' for x in form):
        idx = [i for i, x in enumerate(form) if x[0] != 't']
        i = rng.choice(idx)
        form = form[:i] + list(form[i][1]) + form[i + 1:]
        out.append(''.join(x[1] if x[0] == 't' else x[0] for x in form))
    return ' => '.join(out)


class Derivation:
    def __init__(self, kind):
        self.kind = kind
        self.name = 'cfg_%s_derivation' % kind

    def instance(self, rng):
        if rng.random() < 0.3:
            # sentential forms X Y X: the rightmost (leftmost) variable also occurs elsewhere in the form
            X, Y = rng.sample(['A', 'B', 'C'], 2)
            a, b = rng.sample(['a', 'b', 'c'], 2)
            shape = rng.choice([[('S', [X, 'T']), ('T', [Y, X])], [('S', ['T', X]), ('T', [X, Y])], [('S', ['T', 'U']), ('T', [X, Y]), ('U', [X, Y])]])
            R = [[l, i, [['v', v] for v in r]] for i, (l, r) in enumerate(shape)]
            R += [[X, len(R), [['t', a]]], [Y, len(R) + 1, [['t', b]]]]
            if rng.random() < 0.5:
                R.append([X, len(R), [['v', Y], ['v', Y]]])
            V = ['S'] + sorted({l for l, _, _ in R} - {'S'})
            c = {'G': {'V': V, 'Sigma': sorted({a, b}), 'R': R, 'S': 'S'}}
        else:
            c = Cyk().instance(rng)
        if c is None:
            return None
        G = c['G']
        rules = [(l, [(a, b) for a, b in r]) for l, _, r in G['R']]
        ws = [w for w in gen.all_words(G['Sigma'], 4) if w and oracles.cfg_accepts(rules, G['S'], w)]
        if not ws:
            return None
        return {'G': G, 'w': rng.choice(ws)}

    def own(self, inst, sc):
        return make_notebook.apply_command(self.name, [sc.file(simple_cfg_text(inst['G']), 'cfg'), inst['w']])

    def mutants(self, rng, inst, own):
        steps = own.split(' => ')
        out = []
        if len(steps) > 2:
            i = rng.randrange(1, len(steps) - 1)
            out.append(' => '.join(steps[:i] + steps[i + 1:]))
            s2 = list(steps)
            s2[i], s2[i - 1] = s2[i - 1], s2[i]
            out.append(' => '.join(s2))
        out.append(' => '.join(steps[:-1]))
        for _ in range(6):     # genuine derivations that expand the variables in a random order
            d = random_order_derivation(rng, inst['G'], inst['w'])
            if d:
                out.append(d)
        other = 'rightmost' if self.kind == 'leftmost' else 'leftmost'
        sc = Scratch()
        try:        # a genuine derivation of the OTHER kind
            out.append(make_notebook.apply_command('cfg_%s_derivation' % other, [sc.file(simple_cfg_text(inst['G']), 'cfg'), inst['w']]))
        except Exception:
            pass
        finally:
            sc.close()
        return out

    def check(self, inst, ans):
        return run_checker(NBC.check_cfg_derivation, simple_cfg_text(inst['G']), ans, inst['w'], self.kind)

    def text_lean(self, inst, ans):
        return {'op': 'chk_text', 'name': 'derivation', 'answer': ans, 'ref': simple_cfg_text(inst['G']), 'word': inst['w'],
                'kind': 1 if self.kind == 'leftmost' else 2}

    def criterion(self, inst, ans):
        G = inst['G']
        forms = [[['v', c] if c.isupper() else ['t', c] for c in s.strip()] for s in ans.strip().split('=>')]
        from props.c15 import check_derivation
        if any(x[0] == 'v' and x[1] not in G['V'] or x[0] == 't' and x[1] not in G['Sigma'] for f in forms for x in f):
            return False
        return check_derivation(G, inst['w'], forms, self.kind == 'leftmost') is None

    def lean(self, inst, ans):
        return {'op': 'chk_derivation', 'G': inst['G'], 'derivation': ans, 'w': list(inst['w']), 'kind': 1 if self.kind == 'leftmost' else 2}


class Chomsky:
    def __init__(self, phase):
        self.phase = phase
        self.name = 'chomsky%d' % phase

    def instance(self, rng):
        for _ in range(50):
            G = gen.random_cfg(rng, nvars=rng.randint(1, 3), maxlen=rng.choice([3, 3, 3, 6]))
            if G['R'][0][0] != G['S'] or not G['Sigma']:
                continue
            if not all(any(l == v for l, _, _ in G['R']) for v in G['V']):
                continue
            rules = [(l, [(a, b) for a, b in r]) for l, _, r in G['R']]
            # non-degenerate: every variable derives a non-empty word
            if not all(any(oracles.cfg_accepts(rules, A, w) for w in gen.all_words(G['Sigma'], 3) if w) for A in G['V']):
                continue
            free = [c for c in 'TUVWXYZ' if c not in G['V']]
            if rng.random() < 0.2:      # the exercise file declares its own epsilon marker
                G['eps'] = rng.choice([e for e in 'ez_' if e not in G['Sigma']])
            return {'G': G, 'start': free[0], 'len': 3}
        return None

    def own(self, inst, sc):
        return make_notebook.apply_command(self.name, [sc.file(simple_cfg_text(inst['G']), 'cfg'), inst['start']])

    def parse(self, text):
        return try_parse(CA.parse_simple_cfg, text)

    def mutants(self, rng, inst, own):
        out = [simple_cfg_text(inst['G'])]
        sc = Scratch()
        try:
            for p in (self.phase - 1, self.phase + 1):
                if 1 <= p <= 5:
                    try:
                        out.append(make_notebook.apply_command('chomsky%d' % p, [sc.file(simple_cfg_text(inst['G']), 'cfg'), inst['start']]))
                    except Exception:
                        pass
        finally:
            sc.close()
        lines = own.split('\n')
        if len(lines) > 1:
            out.append('\n'.join(lines[:-1]))
        return out

    def check(self, inst, ans):
        return run_checker(NBK.cfg_check_chomsky, simple_cfg_text(inst['G']), ans, self.phase, inst['start'], inst['len'])

    def text_lean(self, inst, ans):
        return {'op': 'chk_text', 'name': 'chomsky', 'answer': ans, 'ref': simple_cfg_text(inst['G']), 'phase': self.phase,
                'start': inst['start'], 'len': inst['len']}

    def langs(self, inst, ans):
        A = self.parse(ans)
        if A is None:
            return None
        s = enc.cfg_to_spec(A)
        rules = [(l, [(a, b) for a, b in r]) for l, _, r in s['R']]
        G = inst['G']
        grules = [(l, [(a, b) for a, b in r]) for l, _, r in G['R']]
        n = inst['len']
        Sig = sorted(set(G['Sigma']) | set(s['Sigma']))
        ws = gen.all_words(Sig, n)
        return {w for w in ws if oracles.cfg_accepts(rules, s['S'], w)}, {w for w in ws if oracles.cfg_accepts(grules, G['S'], w)}

    def criterion(self, inst, ans):
        A = self.parse(ans)
        if A is None:
            return False
        s = enc.cfg_to_spec(A)
        rules = [(l, [(a, b) for a, b in r]) for l, _, r in s['R']]
        G = inst['G']
        grules = [(l, [(a, b) for a, b in r]) for l, _, r in G['R']]
        n = inst['len']
        Sig = sorted(set(G['Sigma']) | set(s['Sigma']))
        for w in gen.all_words(Sig, n):
            if oracles.cfg_accepts(rules, s['S'], w) != oracles.cfg_accepts(grules, G['S'], w):
                return False
        p = self.phase
        if p >= 1 and s['S'] != inst['start']:
            return False
        if p >= 2 and any(not r and l != s['S'] for l, r in rules):
            return False
        if p >= 3 and any(len(r) == 1 and r[0][0] == 'v' for l, r in rules):
            return False
        if p >= 4 and any(len(r) > 2 for l, r in rules):
            return False
        if p >= 5 and any(not (len(r) == 0 or (len(r) == 1 and r[0][0] == 't') or (len(r) == 2 and r[0][0] == 'v' and r[1][0] == 'v')) for l, r in rules):
            return False
        return True

    def lean(self, inst, ans):
        A = self.parse(ans)
        return None if A is None else {'op': 'chk_chomsky', 'G': inst['G'], 'G1': enc.cfg_to_spec(A), 'phase': self.phase,
                                       'start': inst['start'], 'len': inst['len']}


class LanguageWords:
    """`<kind>-for-language`: the reference word list is generated from the reference object; the answer is an automaton text"""
    def __init__(self, kind):
        self.kind = kind
        self.name = kind + '_for_language'

    def instance(self, rng):
        if self.kind == 'dfa':
            X = gen.random_dfa(rng, 4, rng.choice([['a', 'b'], ['a']]))
        else:
            X = gen.random_nfa(rng, 4, rng.choice([['a', 'b'], ['a']]), rng.choice(['_', 'ε']))
            X['dd'] = True
        return {'X': X, 'len': rng.choice([2, 3, 4]), 'max': rng.choice([0, 0, len(X['Q']), len(X['Q']) + 3])}

    def text(self, X):
        return dfa_text(X) if self.kind == 'dfa' else nfa_text(X)

    def words(self, inst, sc):
        return make_notebook.apply_command('generate', [sc.file(self.text(inst['X']), self.kind), str(inst['len'])])

    def own(self, inst, sc):
        inst['words'] = self.words(inst, sc)
        return self.text(inst['X'])

    def parse(self, text):
        return try_parse(DA.parse_dfa if self.kind == 'dfa' else NA.parse_nfa, text)

    def mutants(self, rng, inst, own):
        out = []
        for _ in range(3):
            if self.kind == 'dfa':
                out.append(DA.print_dfa(enc.build_dfa(mutate_dfa_spec(rng, inst['X']), check=False)))
            else:
                m = copy.deepcopy(inst['X'])
                if m['delta'] and rng.random() < 0.6:
                    m['delta'].pop(rng.randrange(len(m['delta'])))
                else:
                    m['F'] = [q for q in m['Q'] if rng.random() < 0.5]
                out.append(nfa_text(m))
        return out

    def check(self, inst, ans):
        f = NB.check_dfa_language_from_words if self.kind == 'dfa' else NB.check_nfa_language_from_words
        return run_checker(f, ans, inst['words'], inst['len'], inst['max'])

    def criterion(self, inst, ans):
        A = self.parse(ans)
        if A is None:
            return False
        if 0 < inst['max'] < len(A.Q):
            return False
        ws = set('' if w in ('ε', '_') else w for w in inst['words'].split())
        return lang_of(A, inst['len']) == ws

    def text_lean(self, inst, ans):
        return {'op': 'chk_text', 'name': self.kind + '_language_words', 'answer': ans, 'ref': '', 'words': inst['words'],
                'len': inst['len'], 'max': inst.get('max', 0)}

    def langs(self, inst, ans):
        A = self.parse(ans)
        if A is None:
            return None
        return lang_of(A, inst['len']), set('' if w in ('ε', '_') else w for w in inst['words'].split())

    def lean(self, inst, ans):
        A = self.parse(ans)
        if A is None:
            return None
        ws = sorted(set('' if w in ('ε', '_') else w for w in inst['words'].split()))
        return {'op': 'chk_language_from_words', 'nQ': len(A.Q), 'max': inst['max'], 'A': sorted(lang_of(A, inst['len'])), 'words': ws}


class CfgLanguageWords:
    """`check_cfg_language_from_words(text, word_list, length)`: the answer is a simple-format grammar; the word list is the bounded
    language of a reference grammar (generated by the library's `generate` command)"""
    name = 'cfg_for_language'

    def instance(self, rng):
        for _ in range(30):
            G = gen.unit_chain_cfg(rng) if rng.random() < 0.35 else gen.random_cfg(rng, nvars=rng.randint(1, 3), maxlen=3)
            if G['R'] and G['R'][0][0] == G['S'] and G['Sigma'] and all(any(l == v for l, _, _ in G['R']) for v in G['V']) \
                    and all(len(v) == 1 and v.isupper() for v in G['V']):
                return {'G': G, 'len': rng.choice([2, 3, 4])}
        return None

    def own(self, inst, sc):
        inst['words'] = make_notebook.apply_command('generate', [sc.file(simple_cfg_text(inst['G']), 'cfg'), str(inst['len'])])
        return simple_cfg_text(inst['G'])

    def parse(self, text):
        return try_parse(CA.parse_simple_cfg, text)

    def mutants(self, rng, inst, own):
        out = []
        lines = own.split('\n')
        if len(lines) > 1:
            out.append('\n'.join(lines[:-1]))
        # the same grammar with the rules of the non-start variables listed in reverse order (rule order must not matter)
        out.append('\n'.join(lines[:1] + lines[1:][::-1]))
        # a grammar generating MORE through a unit chain written bottom-up: S-rules of the reference plus S -> A, C -> <new>, B -> C, A -> B
        free = [c for c in 'ABCDEFGH' if c not in inst['G']['V']]
        if len(free) >= 5 and inst['G']['Sigma']:
            a = inst['G']['Sigma'][0]
            extra = rng.choice([a + a + a, a * 4, a + a])
            for k in (3, 4, 5):
                chain = free[:k]            # S -> X1, X1 -> X2, ..., Xk -> extra, written from the bottom up
                rules = ['%s -> %s' % (chain[-1], extra)] + ['%s -> %s' % (chain[i], chain[i + 1]) for i in range(k - 2, -1, -1)]
                out.append('\n'.join([lines[0] + ' | ' + chain[0]] + lines[1:] + rules))
        for _ in range(2):
            G2 = gen.random_cfg(rng, nvars=rng.randint(1, 3), maxlen=3)
            if all(len(v) == 1 and v.isupper() for v in G2['V']) and G2['R'] and G2['R'][0][0] == G2['S']:
                out.append(simple_cfg_text(G2))
        return out

    def check(self, inst, ans):
        return run_checker(NB.check_cfg_language_from_words, ans, inst['words'], inst['len'])

    def text_lean(self, inst, ans):
        return {'op': 'chk_text', 'name': 'cfg_language_words', 'answer': ans, 'ref': '', 'words': inst['words'], 'len': inst['len']}

    def langs(self, inst, ans):
        A = self.parse(ans)
        if A is None:
            return None
        s = enc.cfg_to_spec(A)
        rules = [(l, [(a, b) for a, b in r]) for l, _, r in s['R']]
        ws = set('' if w in ('ε', '_') else w for w in inst['words'].split())
        Sig = sorted(set(s['Sigma']) | {c for w in ws for c in w})
        return {w for w in gen.all_words(Sig, inst['len']) if oracles.cfg_accepts(rules, s['S'], w)}, ws

    def criterion(self, inst, ans):
        A = self.parse(ans)
        if A is None:
            return False
        s = enc.cfg_to_spec(A)
        rules = [(l, [(a, b) for a, b in r]) for l, _, r in s['R']]
        ws = set('' if w in ('ε', '_') else w for w in inst['words'].split())
        Sig = sorted(set(s['Sigma']) | {c for w in ws for c in w})
        return {w for w in gen.all_words(Sig, inst['len']) if oracles.cfg_accepts(rules, s['S'], w)} == ws

    def lean(self, inst, ans):
        return None


class AcceptsRejects:
    """`check_dfa_accepts_rejects` / `check_cfg_accepts_rejects`: the answer (an automaton / grammar text) must accept every word of the first
    list and none of the second"""
    def __init__(self, kind):
        self.kind = kind
        self.name = kind + '_accepts_rejects'
        self.may_raise = kind == 'dfa'        # the DFA variant has no try/except: a malformed answer raises instead of printing

    def instance(self, rng):
        if self.kind == 'dfa':
            X = gen.random_dfa(rng, 4, rng.choice([['a', 'b'], ['a']]))
            L = lang_of(enc.build_dfa(X), 3)
            Sig = X['Sigma']
        else:
            c = CfgLanguageWords().instance(rng)
            if c is None:
                return None
            X = c['G']
            rules = [(l, [(a, b) for a, b in r]) for l, _, r in X['R']]
            Sig = X['Sigma']
            L = {w for w in gen.all_words(Sig, 3) if oracles.cfg_accepts(rules, X['S'], w)}
        allw = gen.all_words(Sig, 3)
        acc = rng.sample(sorted(L), min(len(L), rng.randint(0, 3)))
        rej = rng.sample(sorted(set(allw) - L), min(len(set(allw) - L), rng.randint(0, 3)))
        show = lambda ws: ' '.join(rng.choice(['ε', '_']) if w == '' else w for w in ws)
        return {'X': X, 'accepted': show(acc), 'rejected': show(rej)}

    def text(self, X):
        return dfa_text(X) if self.kind == 'dfa' else simple_cfg_text(X)

    def own(self, inst, sc):
        return self.text(inst['X'])

    def parse(self, text):
        return try_parse(DA.parse_dfa if self.kind == 'dfa' else CA.parse_simple_cfg, text)

    def mutants(self, rng, inst, own):
        out = []
        if self.kind == 'dfa':
            for _ in range(3):
                out.append(DA.print_dfa(enc.build_dfa(mutate_dfa_spec(rng, inst['X']), check=False)))
            if len(inst['X']['Sigma']) > 1:      # an answer over a smaller alphabet: words with the missing symbol cannot be run
                a = inst['X']['Sigma'][0]
                out.append(dfa_text({'Q': ['q0'], 'Sigma': [a], 'delta': [['q0', a, 'q0']], 'q0': 'q0', 'F': ['q0']}))
        else:
            lines = own.split('\n')
            if len(lines) > 1:
                out.append('\n'.join(lines[:-1]))
            for _ in range(2):
                G2 = gen.random_cfg(rng, nvars=rng.randint(1, 3), maxlen=3)
                if all(len(v) == 1 and v.isupper() for v in G2['V']) and G2['R'] and G2['R'][0][0] == G2['S']:
                    out.append(simple_cfg_text(G2))
        return out

    def check(self, inst, ans):
        f = NB.check_dfa_accepts_rejects if self.kind == 'dfa' else NB.check_cfg_accepts_rejects
        return run_checker(f, ans, inst['accepted'], inst['rejected'])

    def criterion(self, inst, ans):
        A = self.parse(ans)
        if A is None:
            return False
        ws = lambda t: ['' if w in ('ε', '_') else w for w in t.split()]
        if self.kind == 'dfa':
            acc = lambda w: all(c in A.Sigma for c in w) and oracles.dfa_accepts(A, w)
        else:
            s = enc.cfg_to_spec(A)
            rules = [(l, [(a, b) for a, b in r]) for l, _, r in s['R']]
            acc = lambda w: oracles.cfg_accepts(rules, s['S'], w)
        return all(acc(w) for w in ws(inst['accepted'])) and not any(acc(w) for w in ws(inst['rejected']))

    def lean(self, inst, ans):
        return None

    def text_lean(self, inst, ans):
        return {'op': 'chk_text', 'name': self.kind + '_accepts_rejects', 'answer': ans, 'ref': '', 'accepted': inst['accepted'],
                'rejected': inst['rejected']}

    minimal_cex = False      # the first offending word of the list is printed, not a shortest one

    def langs(self, inst, ans):
        """(listed words the answer accepts, words listed as to-be-accepted)"""
        A = self.parse(ans)
        if A is None:
            return None
        ws = lambda t: ['' if w in ('ε', '_') else w for w in t.split()]
        if self.kind == 'dfa':
            acc = lambda w: all(c in A.Sigma for c in w) and oracles.dfa_accepts(A, w)
        else:
            s = enc.cfg_to_spec(A)
            rules = [(l, [(a, b) for a, b in r]) for l, _, r in s['R']]
            acc = lambda w: oracles.cfg_accepts(rules, s['S'], w)
        listed = set(ws(inst['accepted'])) | set(ws(inst['rejected']))
        return {w for w in listed if acc(w)}, set(ws(inst['accepted']))


class LanguageFile(LanguageWords):
    """`check_<kind>_language_from_file`: the reference automaton is read from a file; the answer is an automaton text.
    The checker is called twice on the same file, first with another length bound (a history that must not matter)."""
    def __init__(self, kind):
        self.kind = kind
        self.name = kind + '_language_from_file'

    def instance(self, rng):
        inst = LanguageWords.instance(self, rng)
        inst['len0'] = rng.choice([1, 2, 5])
        del inst['max']
        return inst

    def own(self, inst, sc):
        return self.text(inst['X'])

    def mutants(self, rng, inst, own):
        out = LanguageWords.mutants(self, rng, inst, own)
        # an answer that agrees with the reference up to the bound of the EARLIER call only: exactly the reference words of length <= len0
        X = (enc.build_dfa if self.kind == 'dfa' else enc.build_nfa)(inst['X'])
        Sig = sorted(inst['X']['Sigma'])
        for k in sorted({inst['len0'], 1}):
            W = lang_of(X, min(k, 3))
            pref = sorted({w[:i] for w in W for i in range(len(w) + 1)} | {''})
            name = {p: 't%d' % i for i, p in enumerate(pref)}
            delta = []
            for p in pref:
                for a in Sig:
                    delta.append([name[p], a, name.get(p + a, 'sink')])
            delta += [['sink', a, 'sink'] for a in Sig]
            spec = {'Q': [name[p] for p in pref] + ['sink'], 'Sigma': Sig, 'delta': delta, 'q0': name[''], 'F': [name[w] for w in sorted(W)]}
            try:
                out.append(DA.print_dfa(enc.build_dfa(spec)))
            except Exception:
                pass
        return out

    def check(self, inst, ans):
        f = NB.check_dfa_language_from_file if self.kind == 'dfa' else NB.check_nfa_language_from_file
        sc = Scratch()
        try:
            path = sc.file(self.text(inst['X']), self.kind)
            run_checker(f, ans, path, inst['len0'])
            return run_checker(f, ans, path, inst['len'])
        finally:
            sc.close()

    def criterion(self, inst, ans):
        A = self.parse(ans)
        if A is None:
            return False
        X = (enc.build_dfa if self.kind == 'dfa' else enc.build_nfa)(inst['X'])
        return lang_of(A, inst['len']) == lang_of(X, inst['len'])

    def lean(self, inst, ans):
        return None

    def text_lean(self, inst, ans):
        return {'op': 'chk_text', 'name': self.kind + '_language_file', 'answer': ans, 'ref': self.text(inst['X']), 'len': inst['len']}

    def langs(self, inst, ans):
        A = self.parse(ans)
        if A is None:
            return None
        X = (enc.build_dfa if self.kind == 'dfa' else enc.build_nfa)(inst['X'])
        return lang_of(A, inst['len']), lang_of(X, inst['len'])


ALL = [Product('union'), Product('intersection'), Product('symmetric_difference'), Complement(), Reverse(),
       Minimal('dfa_minimize'), Minimal('dfa_hopfcroft'), Nfa2Dfa(), Dfa2Regexp(), Cyk(), Derivation('leftmost'),
       Derivation('rightmost'), Chomsky(1), Chomsky(2), Chomsky(3), Chomsky(4), Chomsky(5), LanguageWords('dfa'), LanguageWords('nfa'), LanguageFile('dfa'), LanguageFile('nfa'), CfgLanguageWords(), AcceptsRejects('dfa'), AcceptsRejects('cfg')]


# ---------------------------------------------------------------------------------------------- every formalism (CheckAll)
from gambatools import pda_algorithms as PA, tm_algorithms as TA


def finite_closure_pda(rng):
    """a random PDA none of whose epsilon-input moves pushes: every epsilon closure is finite and small, so the enumeration is exact
    under the default iteration limit (C09 / C02) and independent of the pop order"""
    for _ in range(50):
        P = gen.random_pda(rng)
        e = P['eps']
        if e == '' or '∅' in P['Gamma']:
            continue
        delta = []
        for p, a, u, T in P['delta']:
            T2 = [[q, v] for q, v in T if not (a == e and v != e)]
            if T2:
                delta.append([p, a, u, T2])
        P = dict(P, delta=delta, dd=True)
        if P['Sigma']:
            return P
    return None


KIND_TEXT = {
    'dfa': lambda X: dfa_text(X),
    'nfa': lambda X: nfa_text(X),
    'pda': lambda X: PA.print_pda(enc.build_pda(X)),
    'tm': lambda X: TA.print_tm(enc.build_tm(X)),
    'cfg': lambda X: simple_cfg_text(X),
    'regexp': lambda X: print_regexp_simple(enc.build_regexp(X)),
}
KIND_PARSE = {'dfa': DA.parse_dfa, 'nfa': NA.parse_nfa, 'pda': PA.parse_pda, 'tm': TA.parse_tm, 'cfg': CA.parse_simple_cfg,
              'regexp': parse_simple_regexp}


def eps_letter_cfg(rng):
    """the file declares its own epsilon letter, and the letter 'ε' is an ORDINARY terminal: 'S -> ε' (a word of length one) and
    'S -> e' (the empty word) are different rules with the same printed form inside the library"""
    x = rng.choice(['a', 'b'])
    R = [['S', 0, [['t', 'ε']]] if rng.random() < 0.5 else ['S', 0, []],
         ['S', 1, [['v', 'S'], ['t', 'ε']]] if rng.random() < 0.6 else ['S', 1, [['t', x], ['v', 'S']]]]
    if rng.random() < 0.4:
        R.append(['S', 2, [['t', x]]])
    return {'V': ['S'], 'Sigma': sorted({n for _, _, rhs in R for k0, n in rhs if k0 == 't'} | {'ε'}), 'R': R, 'S': 'S', 'eps': 'e'}


def kind_instance(kind, rng):
    if kind == 'dfa':
        return gen.random_dfa(rng, 4, rng.choice([['a', 'b'], ['a']]))
    if kind == 'nfa':
        X = gen.random_nfa(rng, 4, rng.choice([['a', 'b'], ['a']]), rng.choice(['_', 'ε']))
        X['dd'] = True
        return X
    if kind == 'pda':
        return finite_closure_pda(rng)
    if kind == 'tm':
        for _ in range(30):
            T = gen.tm_zoo(rng)[0] if rng.random() < 0.3 else gen.random_tm(rng)
            if T['Sigma'] and all(len(x) == 1 for x in T['Gamma']) and T['q0'] not in (T['qa'], T['qr']):
                return T
        return None
    if kind == 'cfg':
        if rng.random() < 0.2:
            return eps_letter_cfg(rng)
        c = CfgLanguageWords().instance(rng)
        return None if c is None else c['G']
    return gen.random_regexp(rng, rng.randint(1, 6), rng.choice([['a', 'b'], ['a']]))


def kind_lang(kind, text, n):
    """independent bounded language of a text of the given kind (parsed by the library parser, judged by the oracles); None = unreadable"""
    A = try_parse(KIND_PARSE[kind], text)
    if A is None:
        return None
    if kind in ('dfa', 'nfa'):
        return lang_of(A, n)
    if kind == 'pda':
        return {w for w in gen.all_words(A.Sigma, n) if oracles.pda_accepts(A, w)}
    if kind == 'tm':
        return {w for w in gen.all_words(A.Sigma, n) if oracles.tm_run(A, w, 1000)[0] is True}
    if kind == 'cfg':
        s = enc.cfg_to_spec(A)
        rules = [(l, [(a, b) for a, b in r]) for l, _, r in s['R']]
        return {w for w in gen.all_words(sorted(s['Sigma']), n) if oracles.cfg_accepts(rules, s['S'], w)}
    try:
        spec = enc.regexp_to_spec(A)
    except Exception:
        return None
    if any(len(x) != 1 for x in oracles.rx_symbols(spec)):
        return None
    return {w for w in gen.all_words(sorted(oracles.rx_symbols(spec)), n) if oracles.rx_matches(spec, w)}


def kind_mutants(kind, rng, X):
    """single-edit variants of a spec of the given kind, as texts"""
    out = []
    for _ in range(3):
        m = copy.deepcopy(X)
        try:
            if kind == 'dfa':
                out.append(DA.print_dfa(enc.build_dfa(mutate_dfa_spec(rng, X), check=False)))
                continue
            if kind == 'regexp':
                out.append(print_regexp_simple(enc.build_regexp(gen.random_regexp(rng, rng.randint(1, 5), sorted(oracles.rx_symbols(X)) or ['a']))))
                continue
            if kind == 'cfg':
                lines = simple_cfg_text(X).split('\n')
                if len(lines) > 1:
                    out.append('\n'.join(lines[:-1]))
                continue
            if m['delta'] and rng.random() < 0.6:
                m['delta'].pop(rng.randrange(len(m['delta'])))
            elif kind == 'tm':
                if m['delta']:
                    e = rng.choice(m['delta'])
                    e[2] = rng.choice([m['qa'], m['qr']])
            else:
                m['F'] = [q for q in m['Q'] if rng.random() < 0.5]
            out.append(KIND_TEXT[kind](m))
        except Exception:
            pass
    return out


class LanguageWordsAny:
    """`check_<kind>_language_from_words` for pda / tm / regexp (dfa, nfa, cfg have their own classes above)"""
    def __init__(self, kind):
        self.kind = kind
        self.name = kind + '_for_language'
        self.regexp_answer = kind == 'regexp'

    def instance(self, rng):
        X = kind_instance(self.kind, rng)
        if X is None:
            return None
        nQ = len(X['Q']) if isinstance(X, dict) and 'Q' in X else 0
        return {'X': X, 'len': rng.choice([2, 3]), 'max': rng.choice([0, 0, nQ, nQ + 3]) if self.kind in ('pda', 'tm') else 0}

    def own(self, inst, sc):
        ext = {'pda': 'pda', 'tm': 'tm', 'regexp': 'regexp'}[self.kind]
        inst['words'] = make_notebook.apply_command('generate', [sc.file(KIND_TEXT[self.kind](inst['X']), ext), str(inst['len'])])
        return KIND_TEXT[self.kind](inst['X'])

    def mutants(self, rng, inst, own):
        return kind_mutants(self.kind, rng, inst['X'])

    def check(self, inst, ans):
        f = {'pda': NB.check_pda_language_from_words, 'tm': NB.check_tm_language_from_words, 'regexp': NB.check_regexp_language_from_words}[self.kind]
        if self.kind == 'regexp':
            return run_checker(f, ans, inst['words'], inst['len'])
        return run_checker(f, ans, inst['words'], inst['len'], inst['max'])

    def _ws(self, inst):
        return set('' if w in ('ε', '_') else w for w in inst['words'].split())

    def criterion(self, inst, ans):
        L = kind_lang(self.kind, ans, inst['len'])
        if L is None:
            return False
        if self.kind in ('pda', 'tm'):
            A = try_parse(KIND_PARSE[self.kind], ans)
            if 0 < inst['max'] < len(A.Q):
                return False
        return L == self._ws(inst)

    def langs(self, inst, ans):
        L = kind_lang(self.kind, ans, inst['len'])
        return None if L is None else (L, self._ws(inst))

    def lean(self, inst, ans):
        return None

    def text_lean(self, inst, ans):
        return {'op': 'chk_text', 'name': 'lang_words', 'kind': self.kind, 'answer': ans, 'ref': '', 'words': inst['words'],
                'len': inst['len'], 'max': inst.get('max', 0)}


class LanguageFileAny:
    in_c13 = False      # its `own` is an answer with the reference language only where the library can build one
    """`check_<kind>_language_from_file` with a reference file of ANY kind (the extension selects the parser)"""
    def __init__(self, kind, rkind):
        self.kind, self.rkind = kind, rkind
        self.name = '%s_language_from_%s_file' % (kind, rkind)
        self.regexp_answer = kind == 'regexp'

    def instance(self, rng):
        R = kind_instance(self.rkind, rng)
        if self.kind == self.rkind == 'cfg' and rng.random() < 0.5:
            R = eps_letter_cfg(rng)
        if R is None:
            return None
        return {'R': R, 'len': rng.choice([2, 3]), 'seed': rng.randrange(1 << 30)}

    def own(self, inst, sc):
        """an answer of kind `kind` with the reference language, when the library can produce one; otherwise any text of that kind"""
        import random
        r = random.Random(inst['seed'])
        if self.kind == self.rkind:
            return KIND_TEXT[self.kind](inst['R'])
        try:
            if self.kind == 'dfa' and self.rkind == 'nfa':
                return DA.print_dfa(rename_states(NA.nfa_to_dfa(enc.build_nfa(inst['R']))))
            if self.kind == 'nfa' and self.rkind == 'regexp':
                return NA.print_nfa(RA.regexp_to_nfa(enc.build_regexp(inst['R'])))
            if self.kind == 'regexp' and self.rkind == 'dfa':
                return print_regexp_simple(RA.dfa_to_regexp(enc.build_dfa(inst['R'])))
            if self.kind == 'nfa' and self.rkind == 'dfa':
                D = inst['R']
                return nfa_text(dict(D, delta=[[q, a, [t]] for q, a, t in D['delta']], eps='_', dd=True))
        except Exception:
            pass
        X = kind_instance(self.kind, r)
        return KIND_TEXT[self.kind](X) if X is not None else ''

    def mutants(self, rng, inst, own):
        out = []
        for _ in range(3):
            X = kind_instance(self.kind, rng)
            if X is not None:
                try:
                    out.append(KIND_TEXT[self.kind](X))
                except Exception:
                    pass
        lines = own.split('\n')
        if len(lines) > 2:
            out.append('\n'.join(lines[:-1]))
        if self.kind == 'cfg' and lines and lines[0].startswith('epsilon = '):
            # exchange the alternatives that consist of the declared epsilon letter alone with those that consist of the terminal 'ε' alone
            e = lines[0].split('=')[1].strip()
            sw = {e: 'ε', 'ε': e}
            new = [lines[0]]
            for l in lines[1:]:
                if '->' in l:
                    lhs, rhs = l.split('->', 1)
                    new.append(lhs + '-> ' + ' | '.join(sw.get(a.strip(), a.strip()) for a in rhs.split('|')))
                else:
                    new.append(l)
            out.append('\n'.join(new))
        return out

    def check(self, inst, ans):
        f = {'dfa': NB.check_dfa_language_from_file, 'nfa': NB.check_nfa_language_from_file, 'pda': NB.check_pda_language_from_file,
             'tm': NB.check_tm_language_from_file, 'cfg': NB.check_cfg_language_from_file, 'regexp': NB.check_regexp_language_from_file}[self.kind]
        sc = Scratch()
        try:
            path = sc.file(KIND_TEXT[self.rkind](inst['R']), self.rkind)
            return run_checker(f, ans, path, inst['len'])
        finally:
            sc.close()

    def _ref(self, inst):
        return kind_lang(self.rkind, KIND_TEXT[self.rkind](inst['R']), inst['len'])

    def criterion(self, inst, ans):
        L, R = kind_lang(self.kind, ans, inst['len']), self._ref(inst)
        return L is not None and R is not None and L == R

    def langs(self, inst, ans):
        L, R = kind_lang(self.kind, ans, inst['len']), self._ref(inst)
        return None if L is None or R is None else (L, R)

    def lean(self, inst, ans):
        return None

    def text_lean(self, inst, ans):
        return {'op': 'chk_text', 'name': 'lang_file', 'kind': self.kind, 'rkind': self.rkind, 'answer': ans,
                'ref': KIND_TEXT[self.rkind](inst['R']), 'len': inst['len']}


def rename_states(D):
    """subset names {q0,q1} are not \\w+ words: rename to s0, s1, ... so that the default parser reads the text"""
    from gambatools.dfa import DFA
    m = {q: 's%d' % i for i, q in enumerate(sorted(D.Q))}
    return DFA({m[q] for q in D.Q}, set(D.Sigma), {(m[p], a): m[t] for (p, a), t in D.delta.items()}, m[D.q0], {m[q] for q in D.F})


class NumberOfNfaStates:
    name = 'number_of_nfa_states'
    in_c13 = False

    def instance(self, rng):
        X = gen.random_nfa(rng, 4, rng.choice([['a', 'b'], ['a']]), rng.choice(['_', 'ε']))
        X['dd'] = True
        return {'X': X, 'count': len(X['Q']) + rng.choice([0, 0, 0, 1, -1])}

    def own(self, inst, sc):
        return nfa_text(inst['X'])

    def mutants(self, rng, inst, own):
        out = []
        for _ in range(3):
            Y = gen.random_nfa(rng, 5, inst['X']['Sigma'], inst['X']['eps'])
            Y['dd'] = True
            out.append(nfa_text(Y))
        return out

    def check(self, inst, ans):
        return run_checker(NB.check_number_of_nfa_states, ans, inst['count'])

    def criterion(self, inst, ans):
        A = try_parse(NA.parse_nfa, ans)
        return A is not None and len(A.Q) == inst['count']

    def lean(self, inst, ans):
        return None

    def text_lean(self, inst, ans):
        return {'op': 'chk_text', 'name': 'nfa_states', 'answer': ans, 'ref': '', 'count': max(inst['count'], 0)}


class CfgAcceptsExperimental:
    in_c13 = False
    """notebook_experimental.check_cfg_accepts / check_cfg_rejects: OK iff every (no) listed word is generated"""
    def __init__(self, rejects):
        self.rejects = rejects
        self.name = 'cfg_rejects' if rejects else 'cfg_accepts'
        self.may_raise = rejects          # check_cfg_rejects has no try/except

    def instance(self, rng):
        c = CfgLanguageWords().instance(rng)
        if c is None:
            return None
        X = c['G']
        rules = [(l, [(a, b) for a, b in r]) for l, _, r in X['R']]
        allw = gen.all_words(X['Sigma'], 3)
        L = {w for w in allw if oracles.cfg_accepts(rules, X['S'], w)}
        pool = sorted(L) if not self.rejects else sorted(set(allw) - L)
        other = sorted(set(allw) - set(pool))
        ws = rng.sample(pool, min(len(pool), rng.randint(0, 4)))
        if other and rng.random() < 0.3:
            ws.append(rng.choice(other))
        return {'X': X, 'words': ' '.join(rng.choice(['ε', '_']) if w == '' else w for w in ws)}

    def own(self, inst, sc):
        return simple_cfg_text(inst['X'])

    def mutants(self, rng, inst, own):
        out = []
        lines = own.split('\n')
        if len(lines) > 1:
            out.append('\n'.join(lines[:-1]))
        for _ in range(2):
            G2 = gen.random_cfg(rng, nvars=rng.randint(1, 3), maxlen=3)
            if all(len(v) == 1 and v.isupper() for v in G2['V']) and G2['R'] and G2['R'][0][0] == G2['S']:
                out.append(simple_cfg_text(G2))
        return out

    def check(self, inst, ans):
        from gambatools import notebook_experimental as NX
        return run_checker(NX.check_cfg_rejects if self.rejects else NX.check_cfg_accepts, ans, inst['words'])

    def criterion(self, inst, ans):
        A = try_parse(CA.parse_simple_cfg, ans)
        if A is None:
            return False
        s = enc.cfg_to_spec(A)
        rules = [(l, [(a, b) for a, b in r]) for l, _, r in s['R']]
        ws = ['' if w in ('ε', '_') else w for w in inst['words'].split()]
        return all(oracles.cfg_accepts(rules, s['S'], w) != self.rejects for w in ws)

    def lean(self, inst, ans):
        return None

    def text_lean(self, inst, ans):
        return {'op': 'chk_text', 'name': self.name, 'answer': ans, 'ref': '', 'words': inst['words']}


ALL += [LanguageWordsAny('pda'), LanguageWordsAny('tm'), LanguageWordsAny('regexp'),
        LanguageFileAny('dfa', 'nfa'), LanguageFileAny('nfa', 'regexp'), LanguageFileAny('regexp', 'dfa'), LanguageFileAny('nfa', 'dfa'),
        LanguageFileAny('pda', 'pda'), LanguageFileAny('tm', 'tm'), LanguageFileAny('cfg', 'cfg'), LanguageFileAny('regexp', 'regexp'),
        LanguageFileAny('pda', 'cfg'), LanguageFileAny('dfa', 'regexp'), LanguageFileAny('cfg', 'regexp'),
        NumberOfNfaStates(), CfgAcceptsExperimental(False), CfgAcceptsExperimental(True)]
