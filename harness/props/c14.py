"""C14 — DFA closure constructions and finite-language helpers realise the language operations."""
import copy
import core, enc, gen, oracles
from core import call
from gambatools import dfa_algorithms as DA
from gambatools import language_algorithms as LA
from gambatools.dfa import DFA

META = {
    'level': 'proof',
    'rule': 'pairs of DFAs over a common alphabet: exhaustive 2-state x 2-state over {a} plus seeded random 1-5 states; every '
            'construction compared with the Lean model (exact) and with an exact product-BFS language oracle (all word lengths); '
            'finite languages: random subsets of words <=3; non-trivial = both automata have >=2 reachable states / language with '
            '>=2 words one a prefix of another; distinct by content; also chain DFAs (accepting states far apart), \'_\'-joined and comma names for products (the recorded product-name finding is decided per case); ring-shaped DFAs with hub states and few accepting states, DFAs with 11-13 numbered states',
    'assumptions': ['DFA.valid inputs (constructor); partial DFAs for make_total are built with check_validity=False',
                    'state names match \\w+ (product / set naming injective)'],
    'trusted_base': ['Spec: Gamba/Spec/Automata.lean'],
}
PTYPES = ['union', 'intersection', 'symmetric_difference']
PRED = {'union': lambda x: x[2] == (x[0] or x[1]), 'intersection': lambda x: x[2] == (x[0] and x[1]),
        'symmetric_difference': lambda x: x[2] == (x[0] != x[1])}


def cases(ctx):
    thorough = ctx.tier == 'thorough'
    rng = ctx.rng
    small = list(gen.exhaustive_dfas(2, ['a']))
    for i, d1 in enumerate(small):
        for j, d2 in enumerate(small):
            if (i * 7 + j) % (1 if thorough else 5) == 0:
                d2r = dict(d2, Q=['p0', 'p1'], q0='p0', F=[q.replace('q', 'p') for q in d2['F']],
                           delta=[[a.replace('q', 'p'), b, c.replace('q', 'p')] for a, b, c in d2['delta']])
                yield {'kind': 'pair', 'D1': d1, 'D2': d2r}
    for i in range(500 if not thorough else 5000):
        Sig = rng.choice(gen.ALPHABETS)
        if rng.random() < 0.15:      # names whose concatenations collide: 'q1'+'0' = 'q'+'10'
            d1 = gen.random_dfa(rng, 5, Sig, gen.NAME_SCHEMES[5])
            d2 = gen.random_dfa(rng, 5, Sig, gen.NAME_SCHEMES[6])
        elif rng.random() < 0.06:    # names with commas: (a , b,c) and (a,b , c) are written alike
            d1 = gen.random_dfa(rng, 3, Sig, lambda j: ['a', 'a,b', 'x'][j])
            d2 = gen.random_dfa(rng, 3, Sig, lambda j: ['b,c', 'c', 'y'][j])
        elif rng.random() < 0.12:    # names whose '_'-joined pairs collide: (s, t_u) and (s_t, u)
            d1 = gen.random_dfa(rng, 3, Sig, lambda j: ['s', 's_t', 's_t_u'][j])
            d2 = gen.random_dfa(rng, 3, Sig, lambda j: ['u', 't_u', 'x'][j])
        else:
            d1 = gen.random_dfa(rng, 5, Sig)
            d2 = gen.random_dfa(rng, 5, Sig)
        if not thorough or ctx.mine(i):
            yield {'kind': 'pair', 'D1': d1, 'D2': d2}
    for i in range(400 if not thorough else 4000):
        d = gen.chain_dfa(rng) if i % 8 == 5 else gen.ring_dfa(rng) if i % 8 in (2, 6) else gen.numbered_dfa(rng) if i % 40 == 7 else gen.random_dfa(rng, 6)
        pd = gen.random_dfa(rng, 5, total=False)
        if not thorough or ctx.mine(i):
            yield {'kind': 'single', 'D': d, 'P': pd}
    yield {'kind': 'ring', 'n': 1500}        # reachability over a cycle of 1500 states (deeper than the default recursion limit); no model
    for i in range(300 if not thorough else 3000):
        Sig = rng.choice([['a', 'b'], ['a'], ['a', 'b', 'c']])
        ws = gen.all_words(Sig, 3)
        L1 = sorted(rng.sample(ws, rng.randint(0, min(6, len(ws)))))
        L2 = sorted(rng.sample(ws, rng.randint(0, min(4, len(ws)))))
        if not thorough or ctx.mine(i):
            yield {'kind': 'lang', 'L1': L1, 'L2': L2, 'Sigma': Sig, 'n': rng.randint(0, 3)}


def lean_requests(c):
    if c['kind'] == 'ring':
        return []
    if c['kind'] == 'pair':
        return [{'op': 'dfa_product', 'D1': c['D1'], 'D2': c['D2'], 'type': t} for t in PTYPES]
    if c['kind'] == 'single':
        D = c['D']
        return ([{'op': o, 'D': D} for o in ('dfa_complement', 'dfa_reverse', 'dfa_no_prefix', 'dfa_remove_unreachable', 'dfa_no_extend')] +
                [{'op': 'dfa_reachable', 'D': D, 'q': q, 'depth': d} for q in D['Q'][:3] for d in (0, 1)] +
                [{'op': 'dfa_make_total', 'D': c['P']}])
    L1, L2 = c['L1'], c['L2']
    return [{'op': 'lang_reverse', 'L': L1}, {'op': 'lang_no_prefix', 'L': L1}, {'op': 'lang_no_extend', 'L': L1},
            {'op': 'lang_concat', 'L1': L1, 'L2': L2}, {'op': 'lang_union', 'L1': L1, 'L2': L2},
            {'op': 'lang_inter', 'L1': L1, 'L2': L2}, {'op': 'lang_symdiff', 'L1': L1, 'L2': L2},
            {'op': 'words_of_length', 'Sigma': c['Sigma'], 'n': c['n']}, {'op': 'words_up_to', 'Sigma': c['Sigma'], 'n': c['n']}]


def cmp_auto(ctx, name, c, got, la, canon_obj, canon_spec, lang_bad):
    """got: call() result holding an automaton; la: lean answer; lang_bad: None or failing word."""
    if 'ok' not in got:
        ctx.violation(name + '-raises', {'case': c, 'impl': got})
        return None
    obj = got['ok']
    if lang_bad is not None:
        ctx.violation(name + '-language', {'case': c, 'word': lang_bad, 'impl': canon_obj(obj)})
    if 'ok' not in la or canon_spec(la['ok']) != canon_obj(obj):
        ctx.violation('correspondence:' + name, {'case': c, 'impl': canon_obj(obj), 'model': la}, no_input=lang_bad is None)
    return obj


def judge(ctx, c, answers):
    if c['kind'] == 'ring':
        n = c['n']
        Q = ['g%d' % i for i in range(n)] + ['dead', 'island']
        delta = [['g%d' % i, 'a', 'g%d' % ((i + 1) % n)] for i in range(n)] + [['g%d' % i, 'b', 'dead'] for i in range(n)] + \
                [['dead', x, 'dead'] for x in 'ab'] + [['island', x, 'g0'] for x in 'ab']
        spec = {'Q': Q, 'Sigma': ['a', 'b'], 'delta': delta, 'q0': 'g0', 'F': ['g%d' % (n - 1), 'dead']}
        D = enc.build_dfa(spec)
        before = enc.canon_dfa(D)
        g = call(DA.dfa_reachable_states, D, D.q0, limit=60)
        if g.get('ok') is None or set(g['ok']) != set(Q) - {'island'}:
            ctx.violation('reachable-states', {'case': c, 'impl': str(g)[:200]})
        g = call(DA.dfa_remove_unreachable_states, D, limit=60)
        if 'ok' not in g or set(g['ok'].Q) != set(Q) - {'island'} or not oracles.dfa_valid(g['ok']):
            ctx.violation('remove-unreachable-states', {'case': c, 'impl': str(g)[:200]})
        g = call(DA.dfa_no_extend, D, limit=60)
        # every accepting state can be extended here (the ring returns to g<n-1>, dead loops on itself): nothing is left
        if 'ok' not in g or set(g['ok'].F) != set():
            ctx.violation('no-extend', {'case': c, 'impl': str(g)[:200] if 'ok' not in g else sorted(g['ok'].F)[:5]})
        if enc.canon_dfa(D) != before:
            ctx.violation('argument-mutated', {'case': c})
        ctx.case(c, True)
        return
    if c['kind'] == 'pair':
        D1, D2 = enc.build_dfa(c['D1']), enc.build_dfa(c['D2'])
        b1, b2 = enc.canon_dfa(D1), enc.canon_dfa(D2)
        res = []
        # the documented naming scheme '(p,q)' may itself write two different pairs alike when a name contains ',': decided here,
        # attributed to the recorded finding (same root cause as the C03 / C04 findings)
        names = {}
        collide = False
        for p_ in D1.Q:
            for q_ in D2.Q:
                t_ = '(%s,%s)' % (p_, q_)
                if t_ in names and names[t_] != (p_, q_):
                    collide = True
                names[t_] = (p_, q_)
        if collide and set(c['D1']['Sigma']) == set(c['D2']['Sigma']):
            ctx.count('product-name-collision')
            for t in PTYPES:
                got = call(DA.dfa_product, D1, D2, t)
                ok = 'ok' in got and oracles.dfa_valid(got['ok']) and oracles.distinguish_pred([D1, D2, got['ok']], D1.Sigma, PRED[t]) is None
                if not ok:
                    ctx.violation('product-name-collision:' + t, {'case': c, 'impl': str(got)[:200]}, finding_key='product-name-collision')
            ctx.case(c, False)
            return
        for t, la in zip(PTYPES, answers):
            got = call(DA.dfa_product, D1, D2, t)
            if set(c['D1']['Sigma']) != set(c['D2']['Sigma']):
                if 'err' not in got or la.get('err') != got['err']:
                    ctx.violation('correspondence:dfa_product', {'case': c, 'impl': str(got)[:200], 'model': la}, no_input=True)
                continue
            bad = None
            if 'ok' in got:
                P = got['ok']
                if not oracles.dfa_valid(P):
                    ctx.violation('product-invalid', {'case': c, 'type': t})
                    continue
                bad = oracles.distinguish_pred([D1, D2, P], D1.Sigma, PRED[t])
            cmp_auto(ctx, 'dfa_product:' + t, c, got, la, enc.canon_dfa, enc.canon_dfa_spec, bad)
            if 'ok' in got:
                res.append(enc.canon_dfa(got['ok']))
        for f, t in ((DA.dfa_union, 'union'), (DA.dfa_intersection, 'intersection'), (DA.dfa_symmetric_difference, 'symmetric_difference')):
            g = call(f, D1, D2)
            h = call(DA.dfa_product, D1, D2, t)
            if ('ok' in g) != ('ok' in h) or ('ok' in g and enc.canon_dfa(g['ok']) != enc.canon_dfa(h['ok'])):
                ctx.violation('product-wrapper:' + t, {'case': c})
        if (enc.canon_dfa(D1), enc.canon_dfa(D2)) != (b1, b2):
            ctx.violation('argument-mutated', {'case': c})
        ctx.record('pair/' + core.digest(c), res)
        ctx.case(c, len(oracles.reachable(D1)) >= 2 and len(oracles.reachable(D2)) >= 2)
        return
    if c['kind'] == 'single':
        D = enc.build_dfa(c['D'])
        before = enc.canon_dfa(D)
        Sig = D.Sigma
        it = iter(answers)
        res = []
        # complement
        got = call(DA.dfa_complement, D)
        bad = oracles.distinguish_pred([D, got['ok']], Sig, lambda x: x[0] != x[1]) if 'ok' in got and oracles.dfa_valid(got['ok']) else None
        o = cmp_auto(ctx, 'dfa_complement', c, got, next(it), enc.canon_dfa, enc.canon_dfa_spec, bad)
        res.append(enc.canon_dfa(o) if o else None)
        # reverse: L(N) = reverse of L(D): check by bounded words exactly + exact via double reversal is overkill;
        got = call(DA.dfa_reverse, D)
        bad = None
        if 'ok' in got:
            N = got['ok']
            if not oracles.nfa_valid(N):
                ctx.violation('reverse-invalid', {'case': c})
            else:
                for w in gen.all_words(Sig, 5 if len(Sig) <= 2 else 4):
                    if oracles.nfa_accepts(N, w) != oracles.dfa_accepts(D, w[::-1]):
                        bad = w
                        break
        o = cmp_auto(ctx, 'dfa_reverse', c, got, next(it), enc.canon_nfa, enc.canon_nfa_spec, bad)
        res.append(enc.canon_nfa(o) if o else None)
        # no_prefix
        got = call(DA.dfa_no_prefix, D)
        bad = None
        if 'ok' in got and oracles.nfa_valid(got['ok']):
            N = got['ok']
            for w in gen.all_words(Sig, 5 if len(Sig) <= 2 else 4):
                exp = oracles.dfa_accepts(D, w) and not any(oracles.dfa_accepts(D, w[:i]) for i in range(len(w)))
                if oracles.nfa_accepts(N, w) != exp:
                    bad = w
                    break
        o = cmp_auto(ctx, 'dfa_no_prefix', c, got, next(it), enc.canon_nfa, enc.canon_nfa_spec, bad)
        res.append(enc.canon_nfa(o) if o else None)
        # remove unreachable
        got = call(DA.dfa_remove_unreachable_states, D)
        bad = None
        if 'ok' in got:
            R = got['ok']
            if not oracles.dfa_valid(R):
                ctx.violation('remove-unreachable-invalid', {'case': c})
            else:
                bad = oracles.distinguish(D, R, Sig)
                if set(R.Q) != oracles.reachable(D):
                    ctx.violation('remove-unreachable-states', {'case': c, 'impl': sorted(R.Q)})
        o = cmp_auto(ctx, 'dfa_remove_unreachable', c, got, next(it), enc.canon_dfa, enc.canon_dfa_spec, bad)
        res.append(enc.canon_dfa(o) if o else None)
        # no_extend
        got = call(DA.dfa_no_extend, D)
        bad = None
        if 'ok' in got and oracles.dfa_valid(got['ok']):
            E = got['ok']
            # exact: w in L(E) iff delta*(w)=q in F and no accepting state reachable from q by a non-empty word
            def proper_ext(q):
                seen, todo = set(), [q]
                while todo:
                    p = todo.pop()
                    for a in Sig:
                        t = D.delta[p, a]
                        if t not in seen:
                            seen.add(t)
                            todo.append(t)
                return any(t in D.F for t in seen)
            expF = {q for q in D.F if not proper_ext(q)}
            ref = DFA(set(D.Q), set(D.Sigma), dict(D.delta), D.q0, expF, check_validity=False)
            bad = oracles.distinguish(ref, E, Sig)
        o = cmp_auto(ctx, 'dfa_no_extend', c, got, next(it), enc.canon_dfa, enc.canon_dfa_spec, bad)
        res.append(enc.canon_dfa(o) if o else None)
        # reachable states
        for q in c['D']['Q'][:3]:
            for d in (0, 1):
                la = next(it)
                got = call(DA.dfa_reachable_states, D, q, d)
                exp = set()
                for a in Sig:
                    exp |= oracles.reachable(D, D.delta[q, a])
                if d == 0:
                    exp |= {q}
                sub = dict(c, q=q, depth=d)
                if got.get('ok') != exp:
                    ctx.violation('reachable-states', {'case': sub, 'impl': str(got)[:200], 'expected': sorted(exp)})
                elif sorted(set(la.get('ok', ['?']))) != sorted(exp):
                    ctx.violation('correspondence:dfa_reachable', {'case': sub, 'impl': sorted(exp), 'model': la}, no_input=True)
        if enc.canon_dfa(D) != before:
            ctx.violation('argument-mutated', {'case': c})
        # make_total on a partial DFA
        P = enc.build_dfa(c['P'], check=False)
        pb = enc.canon_dfa(P)
        got = call(DA.dfa_make_total, P)
        bad = None
        if 'ok' in got:
            Tt = got['ok']
            if not oracles.dfa_valid(Tt):
                ctx.violation('make-total-invalid', {'case': c, 'impl': enc.canon_dfa(Tt)})
            else:
                for w in gen.all_words(P.Sigma, 4 if len(P.Sigma) <= 2 else 3):
                    q, ok = P.q0, True
                    for a in w:
                        if (q, a) in P.delta:
                            q = P.delta[q, a]
                        else:
                            ok = False
                            break
                    if oracles.dfa_accepts(Tt, w) != (ok and q in P.F):
                        bad = w
                        break
        o = cmp_auto(ctx, 'dfa_make_total', c, got, next(it), enc.canon_dfa, enc.canon_dfa_spec, bad)
        if enc.canon_dfa(P) != pb:
            ctx.violation('argument-mutated', {'case': c, 'op': 'dfa_make_total'})
        res.append(enc.canon_dfa(o) if o else None)
        ctx.record('single/' + core.digest(c), res)
        ctx.case(c, len(oracles.reachable(D)) >= 2)
        return
    # finite languages
    L1, L2 = set(c['L1']), set(c['L2'])
    Sig, n = set(c['Sigma']), c['n']
    # other legal containers / one-shot iterables for concatenation (itertools.product in the implementation materialises both operands)
    for label, a1, a2 in (('list, frozenset', list(L1), frozenset(L2)), ('iterators', iter(sorted(L1)), (w for w in sorted(L2)))):
        g = call(LA.concatenation, a1, a2)
        if g.get('ok') != {u + v for u in L1 for v in L2}:
            ctx.violation('language-helper:concatenation(%s)' % label, {'case': c, 'impl': str(g)[:200]})
    exp = [
        ('language_reverse', call(LA.language_reverse, set(L1)), {w[::-1] for w in L1}),
        ('language_no_prefix', call(LA.language_no_prefix, set(L1)), {w for w in L1 if not any(w[:i] in L1 for i in range(len(w)))}),
        ('language_no_extend', call(LA.language_no_extend, set(L1)), {w for w in L1 if not any(v != w and v.startswith(w) for v in L1)}),
        ('concatenation', call(LA.concatenation, set(L1), set(L2)), {u + v for u in L1 for v in L2}),

        ('union', call(LA.union, set(L1), set(L2)), L1 | L2),
        ('intersection', call(LA.intersection, set(L1), set(L2)), L1 & L2),
        ('symmetric_difference', call(LA.symmetric_difference, set(L1), set(L2)), L1 ^ L2),
        ('words_of_length_n', call(LA.words_of_length_n, set(Sig), n), {w for w in gen.all_words(Sig, n) if len(w) == n}),
        ('words_up_to_n', call(LA.words_up_to_n, set(Sig), n), set(gen.all_words(Sig, n))),
    ]
    res = []
    for (name, got, e), la in zip(exp, answers):
        if got.get('ok') != e:
            ctx.violation('language-helper:' + name, {'case': c, 'impl': str(got)[:300], 'expected': enc.words(e)})
        elif set(la.get('ok', ['?'])) != e:
            ctx.violation('correspondence:' + name, {'case': c, 'impl': enc.words(e), 'model': la}, no_input=True)
        res.append(enc.words(got.get('ok', [])))
    ctx.record('lang/' + core.digest(c), res)
    ctx.case(c, any(u != v and v.startswith(u) for u in L1 for v in L1))


def run(ctx):
    core.run_cases(ctx, __import__('props.c14', fromlist=['x']), cases(ctx))
