"""C05 — regexp matcher and simplifier follow the denotational semantics."""
import core, enc, gen, oracles
from core import call
from gambatools.regexp_algorithms import regexp_accepts_word, regexp_simplify, regexp_size

META = {
    'level': 'proof',
    'rule': 'all regexp trees with <=2 (quick) / <=3 (thorough) operator nodes over {a,b} x all words of length <=3 (4), '
            'then seeded random trees of size <=12; non-trivial = tree containing a star or a 0/1 inside a product/sum; '
            'distinct by tree; the simplifier also on trees whose symbols have several letters (language compared on strings); stars over operands that contain a star x all words of length <=6',
    'assumptions': ['symbols are single characters (Python compares w == r.symbol on strings)'],
    'trusted_base': ['Spec: Gamba/Spec/Regexp.lean (Lang)'],
}


def nodes(r):
    return 1 + sum(nodes(x) for x in r[1:] if isinstance(x, list))


def has_star(r):
    return r[0] == 'star' or any(has_star(x) for x in r[1:] if isinstance(x, list))


def cases(ctx):
    thorough = ctx.tier == 'thorough'
    Sig = ['a', 'b']
    i = 0
    for k in range(0, 4 if thorough else 3):
        for r in gen.regexps_of_size(k, Sig):
            i += 1
            if k < 3 or ctx.mine(i):
                yield {'r': r, 'words': gen.all_words(Sig, 4 if (thorough and k < 3) else 3)}
    for k in range(0, 3):          # symbols that print like the constants 0 and 1
        for r in gen.regexps_of_size(k, ['0', '1']):
            i += 1
            if k < 2 or not thorough or ctx.mine(i):
                yield {'r': r, 'words': gen.all_words(['0', '1'], 3)}
    ctx.exhaustive = True
    rng = ctx.rng
    # same operands under different binary operators, side by side (x.y + (x+y), (x+y).z + (x.y+z), ...): a structural comparison that
    # forgets the operator would identify them
    for i in range(60 if not thorough else 600):
        x = gen.random_regexp(rng, rng.randint(1, 3), Sig)
        y = gen.random_regexp(rng, rng.randint(1, 3), Sig)
        z = gen.random_regexp(rng, 1, Sig)
        ops = ['sum', 'cat']
        o1, o2 = rng.sample(ops, 2)
        shape = rng.randint(0, 3)
        if shape == 0:
            r = ['sum', [o1, x, y], [o2, x, y]]
        elif shape == 1:
            r = ['cat', [o1, x, y], [o2, x, y]]
        elif shape == 2:
            r = ['sum', ['cat', ['sum', x, y], z], ['sum', ['cat', x, y], z]]
        else:
            r = ['star', ['sum', [o1, x, ['star', y]], [o2, x, ['star', y]]]]
        yield {'r': r, 'words': gen.all_words(Sig, 4)}
        if i % 3 == 0:      # x.y next to y.x (products do not commute), also under a star and followed by z
            r2 = rng.choice([['sum', ['cat', x, y], ['cat', y, x]], ['cat', ['sum', ['cat', x, ['star', y]], ['cat', ['star', y], x]], z],
                             ['star', ['sum', ['cat', x, ['sum', y, z]], ['cat', ['sum', y, z], x]]]])
            yield {'r': r2, 'words': gen.all_words(Sig, 4)}
    # a star whose operand contains another star (one iteration may consume arbitrarily many letters): all words up to length 6
    for i in range(30 if not thorough else 300):
        x = gen.random_regexp(rng, rng.randint(0, 2), Sig)
        y = gen.random_regexp(rng, rng.randint(0, 2), Sig)
        shape = rng.randint(0, 3)
        if shape == 0:
            r = ['star', ['cat', ['star', x], y]]
        elif shape == 1:
            r = ['cat', ['star', ['cat', y, ['star', x]]], y]
        elif shape == 2:
            r = ['star', ['sum', ['cat', ['star', x], y], ['cat', y, y]]]
        else:
            r = ['star', ['cat', ['cat', x, ['star', ['cat', x, y]]], y]]
        if not thorough or ctx.mine(i):
            yield {'r': r, 'words': gen.all_words(Sig, 6)}
    yield {'r': ['star', ['sum', ['sym', 'ab'], ['sym', 'c']]], 'words': [], 'multi': True, 'long': ['ab' * 230, 'ab' * 229 + 'c', 'ab' * 229 + 'a', 'c' * 470]}
    # identifiers of several letters (parse_regexp allows them): a symbol is matched against the whole word, w == symbol
    for i in range(80 if not thorough else 800):
        Sg = rng.choice([['ab', 'a', 'b'], ['x1', 'x2'], ['ab', 'ba'], ['abc', 'a']])
        r = gen.random_regexp(rng, rng.randint(0, 8), Sg)
        if not thorough or ctx.mine(i):
            yield {'r': r, 'words': [], 'multi': True}
    for i in range(800 if not thorough else 8000):
        Sg = rng.choice([['a', 'b'], ['a'], ['0', '1'], ['a', 'b', 'c']])
        r = gen.random_regexp(rng, rng.randint(2, 12), Sg)
        ws = gen.all_words(Sg, 4 if len(Sg) <= 2 else 3)
        if len(ws) > 31:
            ws = ws[:7] + rng.sample(ws[7:], 24)
        if rng.random() < 0.3:
            ws.append(''.join(rng.choice(Sg) for _ in range(rng.randint(5, 8))))
        if rng.random() < 0.1:
            ws.append('z')
        if not thorough or ctx.mine(i):
            yield {'r': r, 'words': ws}


def string_matches(r, w):
    """membership of the STRING w when symbols may have several letters (a symbol denotes the one word that is its name)"""
    def ends(r, i):
        t = r[0]
        if t == 'zero':
            return set()
        if t == 'one':
            return {i}
        if t == 'sym':
            return {i + len(r[1])} if w.startswith(r[1], i) else set()
        if t == 'sum':
            return ends(r[1], i) | ends(r[2], i)
        if t == 'cat':
            return {k for j in ends(r[1], i) for k in ends(r[2], j)}
        seen, todo = {i}, [i]
        while todo:
            j = todo.pop()
            for k in ends(r[1], j):
                if k not in seen:
                    seen.add(k)
                    todo.append(k)
        return seen
    return len(w) in ends(r, 0)


def lean_requests(c):
    return ([{'op': 'regexp_matches', 'r': c['r'], 'w': list(w)} for w in c['words']] +
            [{'op': 'regexp_simplify', 'r': c['r']}, {'op': 'regexp_size', 'r': c['r']}])


def judge(ctx, c, answers):
    r = enc.build_regexp(c['r'])
    k = len(c['words'])
    res = []
    for w, la in zip(c['words'], answers[:k]):
        got = call(regexp_accepts_word, r, w, limit=20)
        exp = oracles.rx_matches(c['r'], w)
        res.append(got.get('ok', got.get('err')))
        if got != {'ok': exp}:
            ctx.violation('regexp-acceptance', {'case': dict(c, words=[w]), 'impl': got, 'expected': exp})
        elif la.get('ok') != exp:
            ctx.violation('correspondence:regexp_matches', {'case': dict(c, words=[w]), 'impl': got, 'model': la}, no_input=True)
        ctx.count('match' if exp else 'nomatch')
    for w in c.get('long', []):        # words of several hundred letters (string-level oracle, no model)
        got = call(regexp_accepts_word, r, w, limit=60)
        exp = string_matches(c['r'], w)
        if got != {'ok': exp}:
            ctx.violation('regexp-acceptance', {'case': dict(c, words=[], long=[w]), 'impl': got, 'expected': exp})
    s = call(regexp_simplify, r)
    if 'ok' not in s:
        ctx.violation('regexp-simplify-raises', {'case': dict(c, words=[]), 'impl': s})
        return
    sspec = enc.regexp_to_spec(s['ok'])
    res.append(sspec)
    if enc.regexp_to_spec(r) != c['r']:
        ctx.violation('argument-mutated', {'case': c})
    # property: same language (exact: compare derivative-based matchers on all words <= 5 over the symbols, and
    # exact equivalence via Thompson-free product of derivative automata is overkill: use the bounded check as search)
    Sg = sorted(oracles.rx_symbols(c['r'])) or ['a']
    bad = None
    if c.get('multi'):
        chars = sorted({ch for x in Sg for ch in x})
        for w in gen.all_words(chars, 5 if len(chars) <= 2 else 4):
            if string_matches(c['r'], w) != string_matches(sspec, w):
                bad = w
                break
    else:
        for w in gen.all_words(Sg, 5 if len(Sg) <= 2 else 4):
            if oracles.rx_matches(c['r'], w) != oracles.rx_matches(sspec, w):
                bad = w
                break
    if bad is not None:
        ctx.violation('simplify-changes-language', {'case': dict(c, words=[bad]), 'simplified': sspec})
    size0, size1 = regexp_size(r), regexp_size(s['ok'])
    if size1 > size0 or nodes(sspec) > nodes(c['r']):
        ctx.violation('simplify-grows', {'case': dict(c, words=[]), 'simplified': sspec, 'sizes': [size0, size1]})
    if answers[k].get('ok') != sspec:
        ctx.violation('correspondence:regexp_simplify', {'case': dict(c, words=[]), 'impl': sspec, 'model': answers[k]},
                      no_input=(bad is None))
    if answers[k + 1].get('ok') != size0:
        ctx.violation('correspondence:regexp_size', {'case': dict(c, words=[]), 'impl': size0, 'model': answers[k + 1]}, no_input=True)
    ctx.count('simplified' if sspec != c['r'] else 'unchanged')
    ctx.record('rx/' + core.digest(c), res)
    ctx.case({'r': c['r'], 'words': c['words'][:5]}, has_star(c['r']))


def run(ctx):
    core.run_cases(ctx, __import__('props.c05', fromlist=['x']), cases(ctx))
