"""C01 — DFA and NFA acceptance equals the textbook definition; epsilon closure exact."""
import itertools
import core, enc, gen, oracles
from core import call
from gambatools.dfa_algorithms import dfa_accepts_word
from gambatools.nfa_algorithms import nfa_accepts_word, epsilon_closure

META = {
    'level': 'proof',
    'rule': 'cases = (automaton, word list, closure arguments); exhaustive NFAs with <=2 states over {a} (quick) / '
            '{a,b} (thorough) and DFAs with <=2 (3) states, then seeded random automata with 1-6 states; '
            'non-trivial = NFA with >=1 epsilon move and >=1 non-empty word, or DFA with >=2 states; distinct by content; also state names that are legal str values but unusual (\'\', \' \', \'{}\', \'None\', \'0\'), in-place-edit history cases; shortcut-free epsilon chains through 6-13 numbered states and one chain of 1100 states',
    'assumptions': ['theorems hold under NFA.valid / DFA.valid (the constructors enforce these) and words over Sigma',
                    'states/symbols are Python str; Lean model instantiated at String'],
    'trusted_base': ['Spec: Gamba/Spec/Automata.lean (DRun, NRun, EpsReach)'],
}


def cases(ctx):
    thorough = ctx.tier == 'thorough'
    # exhaustive small scopes
    for n in (1, 2):
        for s in gen.exhaustive_nfas(n, ['a']):
            yield {'kind': 'nfa', 'N': s, 'words': gen.all_words(['a'], 3), 'sets': [s['Q']]}
    if thorough:
        for i, s in enumerate(gen.exhaustive_nfas(2, ['a', 'b'])):
            if ctx.mine(i):
                yield {'kind': 'nfa', 'N': s, 'words': gen.all_words(['a', 'b'], 3), 'sets': []}
    for n, Sig in ((1, ['a']), (2, ['a', 'b'])) + (((3, ['a', 'b']),) if thorough else ((3, ['a']),)):
        for i, s in enumerate(gen.exhaustive_dfas(n, Sig)):
            if n < 3 or not thorough or ctx.mine(i):
                yield {'kind': 'dfa', 'D': s, 'words': gen.all_words(Sig, 4 if n < 3 else 3)}
    ctx.exhaustive = True
    # seeded random
    rng = ctx.rng
    for i in range(1500 if not thorough else 12000):
        s = gen.random_nfa(rng, names=gen.ODD_NAMES if i % 25 == 7 else None)
        L = 4 if len(s['Sigma']) <= 2 else 3
        ws = gen.all_words(s['Sigma'], L)
        if len(ws) > 40:
            ws = ws[:15] + rng.sample(ws[15:], 25)
        if rng.random() < 0.2:
            ws = ws + [rng.choice(['z', s['eps'] or 'z', 'az'])]
        sets = [sorted(rng.sample(s['Q'], rng.randint(0, len(s['Q'])))) for _ in range(2)]
        if i % 12 == 5:
            s['frozen'] = rng.choice(['delta', 'all'])       # immutable containers in the fields of the NFA
        if not thorough or ctx.mine(i):
            yield {'kind': 'nfa', 'N': s, 'words': ws, 'sets': sets}
    # larger automata: shortcut-free epsilon chains through 6-13 numbered states, and one chain longer than 1000 states
    for i in range(40 if not thorough else 400):
        s = gen.eps_chain_nfa(rng)
        ws = gen.all_words(s['Sigma'], 3 if len(s['Sigma']) == 1 else 2)
        if not thorough or ctx.mine(i):
            yield {'kind': 'nfa', 'N': s, 'words': ws, 'sets': [sorted(rng.sample(s['Q'], 3))]}
    yield {'kind': 'nfa', 'N': gen.long_eps_chain_nfa(1100), 'words': ['a', ''], 'sets': [], 'closure_states': ['c0', 'c90'], 'no_edit': True}
    for i in range(600 if not thorough else 5000):
        s = gen.random_dfa(rng)
        ws = gen.all_words(s['Sigma'], 4 if len(s['Sigma']) <= 2 else 3)
        if len(ws) > 40:
            ws = ws[:15] + rng.sample(ws[15:], 25)
        if rng.random() < 0.2:
            ws = ws + ['z', 'az']
        if not thorough or ctx.mine(i):
            yield {'kind': 'dfa', 'D': s, 'words': ws}


def lean_requests(c):
    if c['kind'] == 'dfa':
        return [{'op': 'dfa_accepts', 'D': c['D'], 'w': list(w)} for w in c['words']]
    N = c['N']
    sched = c.get('sched', [])
    reqs = [{'op': 'nfa_accepts', 'N': N, 'w': list(w), 'sched': sched} for w in c['words']]
    reqs += [{'op': 'eps_closure', 'N': N, 'S': [q], 'sched': sched} for q in c.get('closure_states', N['Q'])]
    reqs += [{'op': 'eps_closure', 'N': N, 'S': S, 'sched': sched} for S in c['sets']]
    return reqs


def norm(ans, f=lambda x: x):
    if 'ok' in ans:
        return {'ok': f(ans['ok'])}
    return {'err': ans.get('err', ans.get('bad'))}


def judge(ctx, c, answers):
    if c['kind'] == 'dfa':
        D = enc.build_dfa(c['D'])
        before = enc.canon_dfa(D)
        res = []
        for w, la in zip(c['words'], answers):
            in_sigma = all(x in D.Sigma for x in w)
            r = norm(call(dfa_accepts_word, D, w))
            res.append(r)
            la = norm(la)
            if in_sigma:
                exp = {'ok': oracles.dfa_accepts(D, w)}
                if r != exp:
                    ctx.violation('dfa-acceptance', {'case': dict(c, words=[w]), 'impl': r, 'expected': exp})
                elif la != r:
                    ctx.violation('correspondence:dfa_accepts', {'case': dict(c, words=[w]), 'impl': r, 'model': la}, no_input=True)
                ctx.count('dfa:accept' if exp['ok'] else 'dfa:reject')
            else:
                ctx.count('dfa:foreign-symbol')
                if la != r:
                    ctx.violation('correspondence:dfa_accepts', {'case': dict(c, words=[w]), 'impl': r, 'model': la}, no_input=True)
        if enc.canon_dfa(D) != before:
            ctx.violation('argument-mutated', {'case': c})
        ctx.record('dfa/' + core.digest(c), res)
        ctx.case({'kind': 'dfa', 'D': c['D'], 'words': c['words'][:6]}, len(c['D']['Q']) >= 2)
        return
    N = enc.build_nfa(c['N'])
    before = (enc.canon_nfa(N, drop_empty=False), str(N))
    k = len(c['words'])
    res = []
    feats = gen.nfa_features(c['N'])
    for w, la in zip(c['words'], answers[:k]):
        in_sigma = all(x in N.Sigma for x in w)
        r = norm(call(nfa_accepts_word, N, w))
        res.append(r)
        la = norm(la)
        if in_sigma:
            exp = {'ok': oracles.nfa_accepts(N, w)}
            if r != exp:
                ctx.violation('nfa-acceptance', {'case': dict(c, words=[w], sets=[]), 'impl': r, 'expected': exp})
            elif la != r:
                ctx.violation('correspondence:nfa_accepts', {'case': dict(c, words=[w], sets=[]), 'impl': r, 'model': la}, no_input=True)
            ctx.count('nfa:accept' if exp['ok'] else 'nfa:reject')
        else:
            ctx.count('nfa:foreign-symbol')
            if la != r:
                ctx.violation('correspondence:nfa_accepts', {'case': dict(c, words=[w], sets=[]), 'impl': r, 'model': la}, no_input=True)
    args = [q for q in c.get('closure_states', c['N']['Q'])] + [set(S) for S in c['sets']]
    for a, la in zip(args, answers[k:]):
        S = a if isinstance(a, set) else {a}
        r1 = norm(call(epsilon_closure, N, a if not isinstance(a, set) else set(a)), sorted)
        r2 = norm(call(N.E, a if not isinstance(a, set) else set(a)), sorted)
        exp = {'ok': sorted(oracles.eps_reach(N, S))}
        la = norm(la, sorted)
        res.append(r1)
        sub = dict(c, words=[], sets=[sorted(S)])
        if r1 != exp or r2 != exp:
            ctx.violation('epsilon-closure', {'case': sub, 'impl': r1, 'impl_E': r2, 'expected': exp})
        elif la != r1:
            ctx.violation('correspondence:eps_closure', {'case': sub, 'impl': r1, 'model': la}, no_input=True)
        ctx.count('closure:size>1' if len(exp['ok']) > len(S) else 'closure:trivial')
    # history: the same object, edited in place (still a valid NFA), must be judged by its CURRENT content
    if c['N']['Q'] and c['words'] and not c.get('no_edit') and not c['N'].get('frozen'):
        q = c['N']['Q'][0]
        spec2 = dict(c['N'], F=[y for y in c['N']['F'] if y != q] if q in c['N']['F'] else c['N']['F'] + [q])
        N2 = enc.build_nfa(c['N'])
        for w in c['words'][:3]:
            call(nfa_accepts_word, N2, w)
        if q in N2.F:
            N2.F.discard(q)
        else:
            N2.F.add(q)
        if c['N']['Sigma']:
            a0 = c['N']['Sigma'][0]
            N2.delta[(q, a0)] = set(N2.delta.get((q, a0), set())) | {q}
            spec2['delta'] = [e for e in spec2['delta'] if not (e[0] == q and e[1] == a0)] + [[q, a0, sorted(set(N2.delta[(q, a0)]))]]
        Nf = enc.build_nfa(spec2)
        for w in c['words'][:6]:
            if all(x in N.Sigma for x in w):
                r = norm(call(nfa_accepts_word, N2, w))
                exp = {'ok': oracles.nfa_accepts(Nf, w)}
                if r != exp:
                    ctx.violation('nfa-acceptance-after-edit', {'case': dict(c, words=[w], sets=[]), 'edited': spec2, 'impl': r, 'expected': exp})
    after = (enc.canon_nfa(N, drop_empty=False), str(N))
    if after != before:
        ctx.violation('argument-mutated', {'case': c, 'before': before[1], 'after': after[1]})
    ctx.record('nfa/' + core.digest(c), res)
    ctx.count('nfa:eps-cycle' if feats['eps_edges'] >= 2 else 'nfa:few-eps')
    ctx.count('nfa:plain-dict' if not c['N'].get('dd', True) else 'nfa:defaultdict')
    ctx.case({'kind': 'nfa', 'N': c['N'], 'words': c['words'][:6]},
             feats['eps_edges'] >= 1 and any(len(w) > 0 for w in c['words']))


def run(ctx):
    core.run_cases(ctx, __import__('props.c01', fromlist=['x']), cases(ctx))
