"""C12 — an exercise checker never reports OK for a wrong answer."""
import core
import exercises as EX

META = {
    'level': 'proof',
    'rule': 'for every exercise type: seeded random reference objects; submitted answers = the library\'s own answer key, single-edit '
            'mutations of it (flip a final state, retarget a transition, change the initial state, add a state, drop a table row / '
            'derivation step / grammar line, add an epsilon edge, answer of a neighbouring phase, the unchanged input) and ill-formed '
            'text; for every answer the printed verdict is compared with the exercise criterion evaluated by independent oracles on the '
            'submitted text (OK must imply the criterion) and with the Lean model of the checker on the parsed objects; non-trivial = '
            'answer that differs from the key; distinct by (exercise, instance, answer); also the from-file checkers (called twice on the same file with different bounds), the cfg word-list checker (bottom-up unit chains), the accept / reject checkers, random-order genuine derivations, XYX sentential forms, epsilon edges in either spelling; the verdict is OK when ANY output line is OK; the whole text pipeline is compared with Gamba.Model.CheckText',
    'assumptions': ['answers are parsed by the library parsers (C16/C17); criteria are those of DESIGN.md section 6 C12'],
    'trusted_base': ['Spec: Gamba/Spec/Check.lean (criteria)'],
}


def cases(ctx):
    thorough = ctx.tier == 'thorough'
    rng = ctx.rng
    per = 14 if not thorough else 150
    for ex_i, ex in enumerate(EX.ALL):
        for i in range(per):
            inst = ex.instance(rng)
            seed = rng.randrange(1 << 30)
            if inst is None:
                continue
            if not thorough or ctx.mine(i):
                yield {'ex': ex_i, 'name': ex.name, 'inst': inst, 'seed': seed}


def answers_for(c):
    import random
    ex = EX.ALL[c['ex']]
    sc = EX.Scratch()
    try:
        own = core.call(ex.own, c['inst'], sc)
    finally:
        sc.close()
    if 'ok' not in own:
        return None, []
    r = random.Random(c['seed'])
    muts = ex.mutants(r, c['inst'], own['ok'])
    bad = ['', 'garbage !!', own['ok'][: max(1, len(own['ok']) // 2)]]
    return own['ok'], [own['ok']] + muts + bad


def lean_requests(c):
    own, answers = answers_for(c)
    c['_answers'] = answers
    reqs = []
    c['_slots'] = []
    ex = EX.ALL[c['ex']]
    for a in answers:
        r = None
        try:
            r = ex.lean(c['inst'], a)
        except Exception:
            r = None
        t = ex.text_lean(c['inst'], a) if hasattr(ex, 'text_lean') else None
        c['_slots'].append((r is not None, t is not None))
        if r is not None:
            reqs.append(r)
        if t is not None:
            reqs.append(t)
    return reqs


def judge(ctx, c, answers):
    ex = EX.ALL[c['ex']]
    subs = c.get('_answers')
    if subs is None:
        _, subs = answers_for(c)
        c['_slots'] = [(False, False)] * len(subs)
    it = iter(answers)
    res = []
    for k, (a, (has_lean, has_text)) in enumerate(zip(subs, c['_slots'])):
        la = next(it) if has_lean else None
        lt = next(it) if has_text else None
        verdict, out = ex.check(c['inst'], a)
        try:
            crit = bool(ex.criterion(c['inst'], a))
        except Exception:
            crit = False
        sub = {'ex': c['ex'], 'name': c['name'], 'inst': c['inst'], 'seed': c['seed'], 'answer': a}
        res.append(verdict)
        if verdict == 'RAISED' and getattr(ex, 'may_raise', False):
            ctx.count(ex.name + ':raises(no try/except in this checker)')
        elif verdict == 'RAISED':
            # only check_dfa_accepts_rejects-like functions may raise; the checkers modelled here catch exceptions
            ctx.violation('checker-raises', {'case': c_min(c), 'answer': a, 'out': out})
        elif verdict == 'OK' and not crit:
            ctx.violation('ok-for-wrong-answer', {'case': c_min(c), 'answer': a, 'out': out})
        if la is not None:
            m = la.get('ok', None) if 'ok' in la else 'ERR'
            model_ok = (m is True)
            if model_ok != (verdict == 'OK'):
                ctx.violation('correspondence:' + ex.name, {'case': c_min(c), 'answer': a, 'impl': verdict, 'model': la},
                              no_input=not (verdict == 'OK' and not crit))
        if lt is not None and ex.name == 'dfa2regexp' and lt.get('ok') == 'ERROR':
            # the generated (ANTLR) regexp parser recovers from syntax errors ('garbage !!' is read as g.a.r.b.a.g.e); the Lean
            # parser is strict, so texts it rejects are outside the modelled domain of this one checker
            ctx.count('dfa2regexp:text-outside-strict-syntax')
        elif lt is not None and verdict != 'RAISED' and (lt.get('ok') == 'OK') != (verdict == 'OK'):
            # the whole pipeline on text: library parsers + checker vs Gamba.Model.CheckText
            ctx.violation('correspondence:text:' + ex.name, {'case': c_min(c), 'answer': a, 'impl': verdict, 'model': lt},
                          no_input=not (verdict == 'OK' and not crit))
        ctx.record('c12/%s' % core.digest([c_min(c), a]), verdict)
        ctx.count('%s:%s' % (ex.name, verdict))
        ctx.case({'name': c['name'], 'inst': c['inst'], 'answer': a[:200]}, k > 0)


def c_min(c):
    return {'ex': c['ex'], 'name': c['name'], 'inst': c['inst'], 'seed': c['seed']}


def run(ctx):
    core.run_cases(ctx, __import__('props.c12', fromlist=['x']), cases(ctx), chunk=60)
