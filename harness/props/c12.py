"""C12 — an exercise checker never reports OK for a wrong answer, and a reported counterexample word is genuine."""
import re
import core
import exercises as EX
from gambatools.language_generator import compare_languages

CEX = re.compile(r"Error: word '(.*)' should (not )?be accepted")

META = {
    'level': 'proof',
    'rule': 'for every exercise type: seeded random reference objects; submitted answers = the library\'s own answer key, single-edit '
            'mutations of it (flip a final state, retarget a transition, change the initial state, add a state, drop a table row / '
            'derivation step / grammar line, add an epsilon edge, answer of a neighbouring phase, the unchanged input) and ill-formed '
            'text; for every answer the printed verdict is compared with the exercise criterion evaluated by independent oracles on the '
            'submitted text (OK must imply the criterion) and with the Lean model of the checker on the parsed objects; non-trivial = '
            'answer that differs from the key; distinct by (exercise, instance, answer); also the from-file checkers (called twice on the same file with different bounds), the cfg word-list checker (bottom-up unit chains), the accept / reject checkers, random-order genuine derivations, XYX sentential forms, epsilon edges in either spelling; the verdict is OK when ANY output line is OK; the whole text pipeline is compared with Gamba.Model.CheckText; every reported counterexample word is judged (genuine, polarity, minimal length) against independent oracles and the model Gamba.Model.CheckCex; compare_languages directly on small word sets; language-from-words / from-file checkers for ALL six kinds incl. mixed kinds (Gamba.Model.CheckAll), check_number_of_nfa_states, check_cfg_accepts / _rejects',
    'assumptions': ['answers are parsed by the library parsers (C16/C17); criteria are those of DESIGN.md section 6 C12'],
    'trusted_base': ['Spec: Gamba/Spec/Check.lean (criteria)'],
}


def cases(ctx):
    thorough = ctx.tier == 'thorough'
    rng = ctx.rng
    per = 14 if not thorough else 150
    for ex_i, ex in enumerate(EX.ALL):
        for i in range(per):
            inst = ex.instance(rng)
            seed = rng.randrange(1 << 30)
            if inst is None:
                continue
            if not thorough or ctx.mine(i):
                yield {'ex': ex_i, 'name': ex.name, 'inst': inst, 'seed': seed}
    # compare_languages itself (the one place where the counterexample word is chosen): small sets of words, the empty word and
    # several candidates of the same length on both sides
    for i in range(300 if not thorough else 4000):
        Sig = rng.choice(['ab', 'a', 'ab', 'abc', '01'])
        pool = [''] + [a for a in Sig] + [a + b for a in Sig for b in Sig] + [rng.choice(Sig) * 3, rng.choice(Sig) + rng.choice(Sig) + rng.choice(Sig)]
        k = rng.choice([0, 1, 2, 3, 4, 6])
        A2 = sorted(set(rng.sample(pool, min(len(pool), k))))
        A1 = set(A2)
        for _ in range(rng.choice([0, 1, 1, 2, 3])):
            w = rng.choice(pool)
            A1 ^= {w}
        if not thorough or ctx.mine(i):
            yield {'cmp': True, 'A1': sorted(A1), 'A2': A2}


def answers_for(c):
    import random
    ex = EX.ALL[c['ex']]
    sc = EX.Scratch()
    try:
        own = core.call(ex.own, c['inst'], sc)
    finally:
        sc.close()
    if 'ok' not in own:
        return None, []
    r = random.Random(c['seed'])
    muts = ex.mutants(r, c['inst'], own['ok'])
    bad = ['', 'garbage !!', own['ok'][: max(1, len(own['ok']) // 2)]]
    return own['ok'], [own['ok']] + muts + bad


def lean_requests(c):
    if c.get('cmp'):
        return [{'op': 'compare_languages', 'A1': c['A1'], 'A2': c['A2']}]
    own, answers = answers_for(c)
    c['_answers'] = answers
    reqs = []
    c['_slots'] = []
    ex = EX.ALL[c['ex']]
    for a in answers:
        r = None
        try:
            r = ex.lean(c['inst'], a)
        except Exception:
            r = None
        t = ex.text_lean(c['inst'], a) if hasattr(ex, 'text_lean') else None
        x = dict(t, op='chk_cex') if t is not None and hasattr(ex, 'langs') else None
        c['_slots'].append((r is not None, t is not None, x is not None))
        if r is not None:
            reqs.append(r)
        if t is not None:
            reqs.append(t)
        if x is not None:
            reqs.append(x)
    return reqs


def reported(out):
    """the counterexample lines of a checker's output: [(word, extra)]; 'ε' stands for the empty word"""
    res = []
    for l in out.split('\n'):
        m = CEX.fullmatch(l.strip())
        if m:
            res.append(('' if m.group(1) == 'ε' else m.group(1), m.group(2) is not None))
    return res


def judge_counterexample(w, extra, LA, LR, minimal=True):
    """None if the reported word is a genuine difference of the right polarity (and of minimal length in its class), else what is wrong"""
    pool = (LA - LR) if extra else (LR - LA)
    if w not in pool:
        if w in ((LR - LA) if extra else (LA - LR)):
            return 'counterexample-wrong-polarity'
        return 'counterexample-not-genuine'
    if minimal and len(w) > min(len(v) for v in pool):
        return 'counterexample-not-minimal'
    return None


def judge_cmp(ctx, c, answers):
    A1, A2 = set(c['A1']), set(c['A2'])
    got = core.call(compare_languages, set(A1), set(A2))
    sub = {'cmp': True, 'A1': c['A1'], 'A2': c['A2']}
    if 'ok' not in got:
        ctx.violation('compare_languages-raises', {'case': sub, 'impl': got})
        return
    fb = got['ok']
    rep = reported('\n'.join(fb))
    bad = None
    if A1 == A2:
        if fb:
            bad = 'feedback-for-equal-languages'
    elif len(fb) != 1 or len(rep) != 1:
        bad = 'no-single-counterexample-line'
    else:
        w, extra = rep[0]
        bad = judge_counterexample(w, extra, A1, A2)
        if bad is None and not extra and (A1 - A2):
            bad = 'missing-word-reported-although-an-extra-word-exists'
    if bad:
        ctx.violation(bad, {'case': sub, 'impl': fb})
    la = answers[0].get('ok', 'ERR') if isinstance(answers[0], dict) else 'ERR'
    mine = None if not rep else [len(rep[0][0]), rep[0][1]]
    model = None if la is None else ([len(la[0]), la[1]] if isinstance(la, list) else 'ERR')
    if mine != model:
        ctx.violation('correspondence:compare_languages', {'case': sub, 'impl': fb, 'model': answers[0]}, no_input=bad is None)
    ctx.record('c12cmp/%s' % core.digest(sub), mine)
    ctx.count('compare_languages:%s' % ('equal' if not fb else 'extra' if rep and rep[0][1] else 'missing'))
    ctx.case(sub, A1 != A2)


def judge(ctx, c, answers):
    if c.get('cmp'):
        return judge_cmp(ctx, c, answers)
    ex = EX.ALL[c['ex']]
    subs = c.get('_answers')
    if subs is None:
        _, subs = answers_for(c)
        c['_slots'] = [(False, False, False)] * len(subs)
    it = iter(answers)
    res = []
    for k, (a, (has_lean, has_text, has_cex)) in enumerate(zip(subs, c['_slots'])):
        la = next(it) if has_lean else None
        lt = next(it) if has_text else None
        lx = next(it) if has_cex else None
        verdict, out = ex.check(c['inst'], a)
        try:
            crit = bool(ex.criterion(c['inst'], a))
        except Exception:
            crit = False
        sub = {'ex': c['ex'], 'name': c['name'], 'inst': c['inst'], 'seed': c['seed'], 'answer': a}
        res.append(verdict)
        if verdict == 'RAISED' and getattr(ex, 'may_raise', False):
            ctx.count(ex.name + ':raises(no try/except in this checker)')
        elif verdict == 'RAISED':
            # only check_dfa_accepts_rejects-like functions may raise; the checkers modelled here catch exceptions
            ctx.violation('checker-raises', {'case': c_min(c), 'answer': a, 'out': out})
        elif verdict == 'OK' and not crit:
            ctx.violation('ok-for-wrong-answer', {'case': c_min(c), 'answer': a, 'out': out})
        if la is not None:
            m = la.get('ok', None) if 'ok' in la else 'ERR'
            model_ok = (m is True)
            if model_ok != (verdict == 'OK'):
                ctx.violation('correspondence:' + ex.name, {'case': c_min(c), 'answer': a, 'impl': verdict, 'model': la},
                              no_input=not (verdict == 'OK' and not crit))
        if lt is not None and getattr(ex, 'regexp_answer', False) and lt.get('ok') == 'ERROR':
            # the generated (ANTLR) regexp parser recovers from syntax errors ('garbage !!' is read as g.a.r.b.a.g.e); the Lean
            # parser is strict, so texts it rejects are outside the modelled domain of this one checker
            ctx.count(ex.name + ':text-outside-strict-syntax')
        elif lt is not None and verdict != 'RAISED' and (lt.get('ok') == 'OK') != (verdict == 'OK'):
            # the whole pipeline on text: library parsers + checker vs Gamba.Model.CheckText
            ctx.violation('correspondence:text:' + ex.name, {'case': c_min(c), 'answer': a, 'impl': verdict, 'model': lt},
                          no_input=not (verdict == 'OK' and not crit))
        # second sentence of the property: a reported counterexample word is a genuine difference, right polarity, minimal length
        rep = reported(out) if verdict != 'RAISED' else []
        cex_bad = None
        if rep and hasattr(ex, 'langs'):
            try:
                L = ex.langs(c['inst'], a)
            except Exception:
                L = None
            if L is None:
                ctx.count(ex.name + ':counterexample-for-an-answer-the-oracle-cannot-read')
            else:
                for w, extra in rep:
                    cex_bad = judge_counterexample(w, extra, L[0], L[1], getattr(ex, 'minimal_cex', True))
                    if cex_bad and w == '' and any('ε' in v for v in L[0] | L[1]):
                        # the printed 'ε' is ambiguous when the LETTER ε belongs to the alphabet: it may be the one-letter word
                        cex_bad = judge_counterexample('ε', extra, L[0], L[1], getattr(ex, 'minimal_cex', True))
                    if cex_bad:
                        ctx.violation(cex_bad, {'case': c_min(c), 'answer': a, 'out': out, 'word': w, 'extra': extra})
                        break
                ctx.count(ex.name + ':counterexample-checked')
        order_dependent_raise = getattr(ex, 'may_raise', False) and lt is not None and lt.get('ok') == 'ERROR'
        if order_dependent_raise:
            # check_dfa_accepts_rejects has no try/except and walks two SETS of words: whether it meets an offending word (prints it)
            # or a word it cannot run (raises) first depends on the iteration order; the model raises whenever some listed word cannot be run
            ctx.count(ex.name + ':raise-or-report-depends-on-set-order')
        elif lx is not None and verdict != 'RAISED' and not (getattr(ex, 'regexp_answer', False) and lt is not None and lt.get('ok') == 'ERROR'):
            m = lx.get('ok', 'ERR') if isinstance(lx, dict) else 'ERR'
            use_len = getattr(ex, 'minimal_cex', True)
            mine = None if not rep else [len(rep[0][0]) if use_len else 0, rep[0][1]]
            model = None if m is None else ([len(m['word']) if use_len else 0, m['extra']] if isinstance(m, dict) else 'ERR')
            if rep and isinstance(m, dict) and rep[0][0] == '' and m['word'] == 'ε' and m['extra'] == rep[0][1]:
                model = mine          # the printed 'ε' is the one-letter word over an alphabet that contains the letter ε
            if mine != model:
                ctx.violation('correspondence:counterexample:' + ex.name, {'case': c_min(c), 'answer': a, 'impl': out, 'model': lx},
                              no_input=cex_bad is None)
        if getattr(ex, 'may_raise', False):
            ctx.record('c12/%s' % core.digest([c_min(c), a]), 'OK' if verdict == 'OK' else 'NOT-OK')
        else:
            # (where the letter ε occurs in the instance the printed 'ε' is ambiguous between the empty word and a one-letter word: polarity only)
            use_len = getattr(ex, 'minimal_cex', True) and 'ε' not in repr(c['inst']) and 'ε' not in a
            ctx.record('c12/%s' % core.digest([c_min(c), a]), [verdict, [[len(w) if use_len else 0, e] for w, e in rep]])
        ctx.count('%s:%s' % (ex.name, verdict))
        ctx.case({'name': c['name'], 'inst': c['inst'], 'answer': a[:200]}, k > 0)


def c_min(c):
    return {'ex': c['ex'], 'name': c['name'], 'inst': c['inst'], 'seed': c['seed']}


def run(ctx):
    core.run_cases(ctx, __import__('props.c12', fromlist=['x']), cases(ctx), chunk=60)
