"""C10 — PDA normal forms and the PDA-to-CFG conversion preserve the language."""
import copy
import core, enc, gen, oracles
from core import call
from gambatools import pda_algorithms as PA
from gambatools.cfg import Variable

META = {
    'level': 'proof',
    'rule': 'seeded random PDAs (1-3 states, several / no accepting states, replace and no-op transitions, acceptance with non-empty '
            'stack, stack symbols colliding with the markers $ @ # ∅); every normal form is compared with the Lean model and checked '
            'directly: valid PDA, language equal to the original on all words <=3 (exact summary-saturation oracle on both sides), '
            'push/pop form really push/pop, empty-stack form accepts only with empty stack; pda_to_cfg on small PDAs: grammar language '
            '(span-saturation oracle) equal to the PDA language on all words <=3 (2); input untouched; non-trivial = PDA accepting some '
            'non-empty word with a stack operation; distinct by content; also state names with \'_\' and with an apostrophe (the recorded variable-name finding), ambiguous stack symbols; finite-state recognisers (value modulo 6-9) written as PDAs with 12-18 no-op moves, compared on probe words of length 4-6',
    'assumptions': ['PDA.valid (constructor); delta is a defaultdict(set) as the parser builds it'],
    'trusted_base': ['Spec: Gamba/Spec/PDA.lean, Gamba/Spec/CFG.lean'],
}


def one_accepting(P):
    P = copy.deepcopy(P)
    PA.pda_to_one_accepting_state_in_place(P)
    return P


def cases(ctx):
    thorough = ctx.tier == 'thorough'
    rng = ctx.rng
    for i in range(260 if not thorough else 3000):
        P = gen.ambiguous_stack_pda(rng) if i % 25 == 4 else gen.random_pda(rng, markers=True)
        if i % 6 == 1 and len(P['delta']) >= 2:
            # two transition keys hold the SAME set object (d[k1] = d[k2] = {...}); the sets are never edited by a correct conversion
            r1, r2 = rng.sample(range(len(P['delta'])), 2)
            P['delta'][r2] = P['delta'][r2][:3] + [[list(t) for t in P['delta'][r1][3]]]
            P['share'] = True
        if not thorough or ctx.mine(i):
            yield {'P': P, 'cfg': i % 12 == 1 and len(P['Q']) <= 2 and len(P['delta']) <= 3}
    for i in range(6 if not thorough else 60):      # 12-18 moves that neither push nor pop (more than ten intermediate states M1, M2, ...)
        P, probes = gen.noop_heavy_pda(rng)
        if not thorough or ctx.mine(i):
            yield {'P': P, 'cfg': False, 'probe': probes}
    for i in range(6 if not thorough else 40):
        P, probes = marker_reentry_pda(rng)
        yield {'P': P, 'cfg': True, 'probe': probes}
    for i in range(6 if not thorough else 40):
        P, w = word_chain_pda(rng)
        yield {'P': P, 'cfg': True, 'probe': [w, w[:-1], w + 'a']}
    for i in range(60 if not thorough else 600):
        P = gen.random_pda(rng, nmax=2, tmax=3)
        if i % 3 == 2:       # state names with '_' (names of grammar variables are built from pairs of state names)
            ren = {q: n for q, n in zip(P['Q'], ['p', 'p_p'] if i % 9 != 8 else ["p", "p'p"])}
            P = dict(P, Q=[ren[q] for q in P['Q']], q0=ren[P['q0']], F=[ren[q] for q in P['F']],
                     delta=[[ren[p], a, u, [[ren[q], v] for q, v in T]] for p, a, u, T in P['delta']])
        if not thorough or ctx.mine(i):
            yield {'P': P, 'cfg': True}


def word_chain_pda(rng):
    """reads one fixed word of length 4-6 through a chain of states without touching the stack (optionally inside one push / pop pair):
    the grammar of pda_to_cfg has to compose many stack-neutral segments"""
    w = ''.join(rng.choice('ab') for _ in range(rng.randint(4, 6)))
    Q = ['s%d' % i for i in range(len(w) + 1)]
    eps = rng.choice(['_', 'ε'])
    delta = [[Q[i], w[i], eps, [[Q[i + 1], eps]]] for i in range(len(w))]
    if rng.random() < 0.4:
        delta[0] = [Q[0], w[0], eps, [[Q[1], 'x']]]
        delta[-1] = [Q[-2], w[-1], 'x', [[Q[-1], eps]]]
    rng.shuffle(delta)
    return {'Q': Q, 'Sigma': ['a', 'b'], 'Gamma': ['x'], 'delta': delta, 'q0': Q[0], 'F': [Q[-1]], 'eps': eps, 'dd': True}, w


def marker_reentry_pda(rng):
    """textbook shape: the only move of the non-accepting initial state pushes a bottom marker, accepting states are entered by popping it --
    but the initial state is RE-ENTERED by another move, so the marker can be pushed twice and words are accepted with a marker left"""
    eps = rng.choice(['_', 'ε'])
    m = rng.choice(['$', '#', 'Z'])
    a, c = rng.sample(['a', 'b', 'c'], 2)
    i, p, f = rng.choice([('q0', 'q1', 'q2'), ('s', 'p', 'f'), ('i', 'w', 'acc')])
    delta = [[i, eps, eps, [[p, m]]], [p, a, eps, [[p, 'X']]], [p, c, 'X', [[i, eps]]], [p, eps, m, [[f, eps]]]]
    if rng.random() < 0.5:
        delta.append([p, a, 'X', [[p, eps]]])
    rng.shuffle(delta)
    P = {'Q': [i, p, f], 'Sigma': sorted([a, c]), 'Gamma': sorted({'X', m}), 'delta': delta, 'q0': i, 'F': [f], 'eps': eps, 'dd': True}
    return P, ['', a + c, a + a + c, a + c + a + c, a, c, a + a + c + c]


def lean_requests(c):
    reqs = [{'op': o, 'P': c['P']} for o in ('pda_one_accepting', 'pda_empty_stack', 'pda_push_pop', 'pda_is_push_pop')]
    if c['cfg']:
        reqs.append({'op': 'pda_to_cfg', 'P': c['P']})
        reqs.append({'op': 'pda_to_cfg', 'P': c['P'], 'aes': True})
    return reqs


def lang(P, n):
    return oracles.pda_lang(P, n)


def empty_stack_only(P, n):
    """does every accepting computation on words <= n end with the empty stack?  Checked on a bounded-stack exploration."""
    eps = P.epsilon
    start = (P.q0, (), '')
    seen = {start}
    todo = [start]
    while todo:
        q, st, w = todo.pop()
        if q in P.F and st:
            return False, (w, st)
        for (p, a, u), T in P.delta.items():
            if p != q or (a != eps and len(w) >= n):
                continue
            for (r, v) in T:
                if u != eps and (not st or st[-1] != u):
                    continue
                st1 = st if u == eps else st[:-1]
                if v != eps:
                    st1 = st1 + (v,)
                if len(st1) > 5:
                    continue
                cfgn = (r, st1, w + (a if a != eps else ''))
                if cfgn not in seen:
                    seen.add(cfgn)
                    todo.append(cfgn)
    return True, None


def judge(ctx, c, answers):
    P = enc.build_pda(c['P'])
    before = enc.canon_pda(P, False)
    n = 3 if len(P.Sigma) <= 2 else 2
    ref = lang(P, n)
    res = []
    forms = [('pda_to_one_accepting_state', one_accepting, answers[0], True),
             ('pda_to_accept_on_empty_stack', PA.pda_to_accept_on_empty_stack, answers[1], True),
             ('pda_to_push_pop', PA.pda_to_push_pop, answers[2], False)]
    for name, f, la, exact in forms:
        got = call(f, P, limit=20)
        if 'ok' not in got:
            if 'err' in la and la['err'] == got['err']:
                ctx.count(name + ':raises-as-modelled')      # marker collision: assertion / no fresh symbol (documented)
                continue
            ctx.violation(name + '-raises', {'case': c, 'impl': got, 'model': la})
            continue
        N = got['ok']
        cn = enc.canon_pda(N)
        problems = []
        try:
            N._check_validity()
        except Exception:
            problems.append('invalid PDA')
        if not problems:
            L = lang(N, n)
            if L != ref:
                problems.append('language differs on %r' % sorted(L ^ ref, key=len)[0])
            else:
                for w in c.get('probe', []):          # longer probe words
                    if oracles.pda_accepts(N, w) != oracles.pda_accepts(P, w):
                        problems.append('language differs on %r' % w)
                        break
            if name == 'pda_to_one_accepting_state' and len(N.F) != 1 and len(P.F) != 1:
                problems.append('not exactly one accepting state')
            if name == 'pda_to_push_pop' and not all((u == N.epsilon) != (v == N.epsilon) for (_, _, u), T in N.delta.items() for (_, v) in T):
                problems.append('not in push/pop form')
            if name == 'pda_to_accept_on_empty_stack':
                ok, wit = empty_stack_only(N, n)
                if not ok:
                    problems.append('accepts %r with stack %r' % wit)
        if problems:
            ctx.violation(name, {'case': c, 'problems': problems, 'impl': cn})
        if exact:
            same = 'ok' in la and enc.canon_pda_spec(la['ok']) == cn
        else:   # names of the intermediate states depend on set iteration order: compare shape only
            same = 'ok' in la and (len(la['ok']['Q']), sorted(la['ok']['Gamma']), la['ok']['q0'], sorted(la['ok']['F'])) == \
                (len(cn['Q']), cn['Gamma'], cn['q0'], cn['F']) and \
                sum(len(T) for *_, T in la['ok']['delta']) == sum(len(T) for *_, T in cn['delta'])
        if not same:
            ctx.violation('correspondence:' + name, {'case': c, 'impl': cn, 'model': la}, no_input=not problems)
        res.append(sorted(lang(N, 2)) if not problems else None)
        ctx.count(name)
    ipp = call(PA.pda_is_push_pop, P)
    exp = all((u == P.epsilon) != (v == P.epsilon) for (_, _, u), T in P.delta.items() for (_, v) in T)
    if ipp.get('ok') != exp:
        ctx.violation('pda_is_push_pop', {'case': c, 'impl': ipp, 'expected': exp})
    elif answers[3].get('ok') != exp:
        ctx.violation('correspondence:pda_is_push_pop', {'case': c, 'model': answers[3]}, no_input=True)
    if c['cfg']:
        la = answers[4]
        got = call(PA.pda_to_cfg, P, limit=60)
        if 'ok' not in got:
            if not ('err' in la and la['err'] == got['err']):
                ctx.violation('pda_to_cfg-raises', {'case': c, 'impl': got, 'model': la})
        else:
            G = got['ok']
            rules = [(str(r.variable), [('v' if isinstance(x, Variable) else 't', str(x)) for x in r.alternative.symbols]) for r in G.R]
            m = 2
            words = gen.all_words(P.Sigma, m) + list(c.get('probe', []))
            LG = {w for w in words if oracles.cfg_accepts(rules, str(G.S), w)}
            LP = {w for w in ref if len(w) <= m} | {w for w in c.get('probe', []) if oracles.pda_accepts(P, w)}
            bad = LG != LP
            apo = any("'" in q for q in c['P']['Q'])       # the variable naming scheme p'q is ambiguous for such names (recorded finding)
            if bad:
                ctx.violation('pda_to_cfg-language', {'case': c, 'word': sorted(LG ^ LP, key=len)[0], 'rules': len(rules)},
                              finding_key='pda2cfg-variable-name-collision' if apo else None)
            if apo:
                ctx.count('apostrophe-names')
            elif 'ok' not in la or len(la['ok']['R']) != len(rules) or len(set(la['ok']['V'])) != len(G.V):
                ctx.violation('correspondence:pda_to_cfg', {'case': c, 'impl_rules': len(rules), 'model_rules': len(la.get('ok', {}).get('R', []))}, no_input=not bad)
            ctx.count('pda_to_cfg')
        # the variant for PDAs that already accept on empty stack: grammar = words accepted with the EMPTY stack
        la2 = answers[5]
        got2 = call(PA.pda_to_cfg, P, True, limit=60)
        if enc.canon_pda(P, False) != before:
            ctx.violation('argument-mutated', {'case': c, 'op': 'pda_to_cfg(accepts_on_empty_stack=True)'})
        fresh = call(PA.pda_to_cfg, enc.build_pda(c['P']), True, limit=60)
        if ('ok' in got2) != ('ok' in fresh) or ('ok' in got2 and (len(got2['ok'].R), len(got2['ok'].V)) != (len(fresh['ok'].R), len(fresh['ok'].V))):
            ctx.violation('pda_to_cfg(aes)-depends-on-earlier-calls-on-the-same-object', {'case': c, 'after_other_calls': str(got2)[:120] if 'ok' not in got2 else [len(got2['ok'].R), len(got2['ok'].V)],
                          'fresh_object': str(fresh)[:120] if 'ok' not in fresh else [len(fresh['ok'].R), len(fresh['ok'].V)]})
        if any("'" in q for q in c['P']['Q']):
            pass
        elif 'ok' in got2:
            G2 = got2['ok']
            if 'ok' not in la2 or len(la2['ok']['R']) != len(G2.R) or len(set(la2['ok']['V'])) != len(G2.V):
                ctx.violation('correspondence:pda_to_cfg(aes)', {'case': c, 'impl_rules': len(G2.R), 'model': str(la2)[:200]}, no_input=True)
        elif not ('err' in la2 and la2['err'] == got2['err']):
            ctx.violation('correspondence:pda_to_cfg(aes)', {'case': c, 'impl': got2, 'model': str(la2)[:200]}, no_input=True)
    if enc.canon_pda(P, False) != before:
        ctx.violation('argument-mutated', {'case': c})
    ctx.record('c10/' + core.digest(c), res)
    eps = c['P']['eps']
    ctx.case(c, any(w for w in ref) and any(u != eps or any(v != eps for _, v in T) for _, _, u, T in c['P']['delta']))


def run(ctx):
    core.run_cases(ctx, __import__('props.c10', fromlist=['x']), cases(ctx))
