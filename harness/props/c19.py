"""C19 — pure operations keep operands intact, independent of history and hash order."""
import io, contextlib, copy
import core, enc, gen, oracles
from core import call
from gambatools import dfa_algorithms as DA, nfa_algorithms as NA, pda_algorithms as PA, cfg_algorithms as CA, regexp_algorithms as RA
from gambatools import tm_algorithms as TA, language_generator as LG, language_algorithms as LA
from gambatools.global_settings import GambaTools
import exercises as EX

META = {
    'level': 'proof',
    'rule': 'every operation that returns a new object (acceptance tests, enumerators, printers, conversions, minimisers, products, '
            'normal forms without the in_place suffix, checkers) is called on seeded random arguments: (1) a deep snapshot of every '
            'argument (canonical content and str()) before and after the call must be equal; (2) a second call, a call with logging '
            'switched on, and a call after a random prefix of other library calls (including calls that advance the default identifier '
            'generators) must give the same canonical result; (3) the canonical result (identical value for enumerators / acceptance / '
            'checker verdicts / named automata, bounded language fingerprint for regexps) is compared across 2-8 fresh processes with '
            'different PYTHONHASHSEED; non-trivial = argument with >=2 states / rules; distinct by (operation, arguments); also related-object-first history (same rules, other start), counter DFAs, near-isomorphic DFA pairs, machines built by parse_tm (defaultdict tables) with raw-table snapshots; NFA operands with 11-12 numbered states; the default name generator before and after many earlier calls',
    'assumptions': ['heap-level immutability is observed through canonical content and str(); CPython object identity is not modelled '
                    'outside Gamba/Model/Heap.lean'],
    'trusted_base': ['Lean: order-independence theorems c19_* and the alias frame theorems of Gamba/Props/C19.lean'],
}


def snap(x):
    """deep observable snapshot of an argument"""
    from gambatools.dfa import DFA
    from gambatools.nfa import NFA
    from gambatools.pda import PDA
    from gambatools.tm import TM
    from gambatools.cfg import CFG
    from gambatools.regexp import Regexp
    if isinstance(x, NFA):
        return ('nfa', enc.canon_nfa(x, False), str(x), type(x.delta).__name__)
    if isinstance(x, DFA):
        return ('dfa', enc.canon_dfa(x), str(x))
    if isinstance(x, PDA):
        return ('pda', enc.canon_pda(x, False), type(x.delta).__name__)
    if isinstance(x, TM):
        # raw view of the transition table (a lookup that inserts keys into a defaultdict is an observable change: print_tm and
        # the class invariant read the keys) plus what the printer says
        raw = sorted('%r: %r' % (k, v) for k, v in x.delta.items())
        try:
            from gambatools.tm_algorithms import print_tm
            txt = print_tm(x)
        except Exception as e:
            txt = 'print_tm raises %s' % type(e).__name__
        return ('tm', sorted(x.Q), sorted(x.Sigma), sorted(x.Gamma), raw, txt)
    if isinstance(x, CFG):
        return ('cfg', enc.cfg_to_spec(x), str(x))
    if isinstance(x, Regexp):
        return ('rx', enc.regexp_to_spec(x))
    if isinstance(x, (set, frozenset)):
        return ('set', sorted(x))
    return ('val', repr(x))


def canon_result(r):
    from gambatools.dfa import DFA
    from gambatools.nfa import NFA
    from gambatools.pda import PDA
    from gambatools.cfg import CFG
    from gambatools.regexp import Regexp
    if isinstance(r, NFA):
        return enc.canon_nfa(r)
    if isinstance(r, DFA):
        return enc.canon_dfa(r)
    if isinstance(r, PDA):
        return {'lang': sorted(oracles.pda_lang(r, 2)), 'nQ': len(r.Q)}
    if isinstance(r, CFG):
        s = enc.cfg_to_spec(r)
        rules = [(l, [(a, b) for a, b in rr]) for l, _, rr in s['R']]
        return {'lang': sorted(w for w in gen.all_words(s['Sigma'], 3) if oracles.cfg_accepts(rules, s['S'], w)), 'nR': len(rules), 'nV': len(s['V'])}
    if isinstance(r, Regexp):
        spec = enc.regexp_to_spec(r)
        Sg = sorted(oracles.rx_symbols(spec)) or ['a']
        return {'lang': [w for w in gen.all_words(Sg, 4 if len(Sg) <= 2 else 3) if oracles.rx_matches(spec, w)]}
    if isinstance(r, (set, frozenset)):
        return sorted(map(str, r))
    if isinstance(r, (list, tuple)):
        return [canon_result(x) for x in r]
    if isinstance(r, dict):
        return sorted([list(map(str, k)) if isinstance(k, tuple) else str(k), canon_result(v)] for k, v in r.items())
    return r if isinstance(r, (bool, int, str, type(None))) else repr(r)


# operation table: name -> (argument kinds, callable)
def ops():
    W = lambda f, n: (lambda X: f(X, n))
    return {
        'dfa_accepts_word': (['dfa', 'word'], DA.dfa_accepts_word), 'dfa_simulate_word': (['dfa', 'word'], DA.dfa_simulate_word),
        'dfa_words_up_to_n': (['dfa'], W(DA.dfa_words_up_to_n, 3)), 'dfa_minimize': (['dfa'], DA.dfa_minimize),
        'dfa_quotient': (['dfa'], DA.dfa_quotient), 'dfa_hopfcroft': (['dfa'], DA.dfa_hopfcroft),
        'dfa_complement': (['dfa'], DA.dfa_complement), 'dfa_reverse': (['dfa'], DA.dfa_reverse),
        'dfa_no_prefix': (['dfa'], DA.dfa_no_prefix), 'dfa_no_extend': (['dfa'], DA.dfa_no_extend),
        'dfa_remove_unreachable_states': (['dfa'], DA.dfa_remove_unreachable_states), 'print_dfa': (['dfa'], DA.print_dfa),
        'dfa_union': (['dfa', 'dfa2'], DA.dfa_union), 'dfa_intersection': (['dfa', 'dfa2'], DA.dfa_intersection),
        'dfa_symmetric_difference': (['dfa', 'dfa2'], DA.dfa_symmetric_difference),
        'dfa_isomorphic1': (['dfa', 'dfa_near'], DA.dfa_isomorphic1), 'dfa_isomorphic': (['dfa', 'dfa_near'], DA.dfa_isomorphic),
        'dfa_to_regexp': (['dfa'], RA.dfa_to_regexp),
        'nfa_accepts_word': (['nfa', 'word'], NA.nfa_accepts_word), 'nfa_words_up_to_n': (['nfa'], W(NA.nfa_words_up_to_n, 3)),
        'nfa_to_dfa': (['nfa'], NA.nfa_to_dfa), 'epsilon_closure': (['nfa', 'state'], NA.epsilon_closure),
        'nfa_simulate_word': (['nfa', 'word'], lambda N, w: (lambda t: None if t is None else len(t) > 0)(NA.nfa_simulate_word(N, w))),
        'print_nfa': (['nfa'], NA.print_nfa), 'nfa_repetition': (['nfa'], NA.nfa_repetition),
        'nfa_union': (['nfa', 'nfa2'], NA.nfa_union), 'nfa_concatenation': (['nfa', 'nfa2'], NA.nfa_concatenation),
        'regexp_to_nfa': (['rx'], RA.regexp_to_nfa), 'regexp_simplify': (['rx'], RA.regexp_simplify),
        'regexp_accepts_word': (['rx', 'word'], RA.regexp_accepts_word), 'regexp_words_up_to_n': (['rx'], W(RA.regexp_words_up_to_n, 3)),
        'pda_accepts_word': (['pda', 'word'], PA.pda_accepts_word), 'pda_words_up_to_n': (['pda'], W(PA.pda_words_up_to_n, 2)),
        'pda_to_push_pop': (['pda'], PA.pda_to_push_pop), 'pda_to_cfg': (['pda_small'], lambda P: PA.pda_to_cfg(P)),
        'pda_to_cfg(aes)': (['pda_small'], lambda P: PA.pda_to_cfg(P, True)), 'pda_to_accept_on_empty_stack': (['pda'], PA.pda_to_accept_on_empty_stack),
        'print_pda': (['pda'], lambda P: sorted(PA.print_pda(P).split())),
        'tm_accepts_word': (['tm', 'word'], lambda T, w: TA.tm_accepts_word(T, w, 50)), 'tm_words_up_to_n': (['tm'], lambda T: TA.tm_words_up_to_n(T, 2, 50)),
        'print_tm': (['tm'], TA.print_tm),
        'cfg_accepts_word': (['cfg', 'word'], CA.cfg_accepts_word), 'cfg_words_up_to_n': (['cfg'], W(CA.cfg_words_up_to_n, 3)),
        'cfg_to_chomsky': (['cfg'], CA.cfg_to_chomsky), 'cfg_remove_epsilon_rules': (['cfg'], CA.cfg_remove_epsilon_rules),
        'cfg_eliminate_unit_rules': (['cfg'], CA.cfg_eliminate_unit_rules), 'cfg_make_rules_of_length_two': (['cfg'], CA.cfg_make_rules_of_length_two),
        'cfg_eliminate_terminals': (['cfg'], CA.cfg_eliminate_terminals), 'cfg_add_new_start_variable': (['cfg'], CA.cfg_add_new_start_variable),
        'generate_language': (['nfa'], W(LG.generate_language, 3)),
        'regexp_words_up_to_0': (['rx'], W(RA.regexp_words_up_to_n, 0)),
        'words_up_to_n': (['nfa'], lambda N: LA.words_up_to_n(set(N.Sigma), 2)),
        'words_of_length_n': (['nfa'], lambda N: LA.words_of_length_n(set(N.Sigma), 2)),
    }


def make_args(rng, kinds):
    Sig = rng.choice([['a', 'b'], ['a']])
    spec = {}
    for k in kinds:
        if k == 'dfa':
            spec[k] = gen.counter_dfa(rng) if rng.random() < 0.25 else gen.random_dfa(rng, 4, Sig)
        elif k == 'dfa_near':
            # a renamed copy of the first DFA, possibly with one state duplicated (equivalent, not isomorphic) or one edge / one
            # accepting state changed: the verdicts on such pairs are where exploration order could matter
            d1 = spec['dfa']
            split = None
            if len(d1['Sigma']) >= 2 and rng.random() < 0.5:
                # a state whose a- and b-successor coincide in the first DFA; the copy sends b to a duplicate of that successor
                p0 = rng.choice(d1['Q'])
                a0, b0 = rng.sample(sorted(d1['Sigma']), 2)
                tgt = [t for (p, a, t) in d1['delta'] if p == p0 and a == a0]
                if tgt:
                    for e in d1['delta']:
                        if e[0] == p0 and e[1] == b0:
                            e[2] = tgt[0]
                    split = (p0, b0, tgt[0])
            m = {q: 'r%d' % i for i, q in enumerate(rng.sample(d1['Q'], len(d1['Q'])))}
            d2 = {'Q': [m[q] for q in d1['Q']], 'Sigma': list(d1['Sigma']), 'delta': [[m[p], a, m[q]] for p, a, q in d1['delta']],
                  'q0': m[d1['q0']], 'F': [m[q] for q in d1['F']]}
            r = rng.random()
            if split is not None:
                p0, b0, t0 = split
                d2['Q'].append('dup')
                d2['delta'] += [['dup', a, t] for (p, a, t) in list(d2['delta']) if p == m[t0]]
                if m[t0] in d2['F']:
                    d2['F'].append('dup')
                for e in d2['delta']:
                    if e[0] == m[p0] and e[1] == b0:
                        e[2] = 'dup'
                if rng.random() < 0.5:      # make the duplicate differ a little
                    es = [e for e in d2['delta'] if e[0] == 'dup']
                    rng.choice(es)[2] = rng.choice(d2['Q'])
            elif r < 0.4:
                q = rng.choice(d2['Q'])
                d2['Q'].append('dup')
                d2['delta'] += [['dup', a, t] for (p, a, t) in list(d2['delta']) if p == q]
                if q in d2['F']:
                    d2['F'].append('dup')
                for e in d2['delta']:
                    if e[2] == q and rng.random() < 0.5:
                        e[2] = 'dup'
            elif r < 0.6 and d2['delta']:
                rng.choice(d2['delta'])[2] = rng.choice(d2['Q'])
            elif r < 0.7:
                d2 = gen.random_dfa(rng, 3, list(d1['Sigma']), lambda i: 'p%d' % i)
            spec[k] = d2
        elif k == 'dfa2':
            spec[k] = gen.random_dfa(rng, 3, Sig, lambda i: 'p%d' % i)
        elif k == 'nfa':
            spec[k] = gen.numbered_nfa(rng) if rng.random() < 0.12 else gen.random_nfa(rng, 4, Sig)
        elif k == 'nfa2':
            if rng.random() < 0.5:      # the SECOND operand carries generator-like names q0, q1, ...
                spec['nfa'] = gen.random_nfa(rng, 4, Sig, spec['nfa']['eps'], lambda i: 's%d' % i, live=True)
                spec[k] = gen.random_nfa(rng, 4, Sig, spec['nfa']['eps'], lambda i: 'q%d' % i, live=True)
            else:
                spec[k] = gen.random_nfa(rng, 3, Sig, spec['nfa']['eps'], lambda i: 'p%d' % i)
        elif k == 'rx':
            spec[k] = gen.random_regexp(rng, rng.randint(1, 6), Sig)
        elif k == 'pda':
            spec[k] = gen.random_pda(rng)
        elif k == 'pda_small':
            spec[k] = gen.random_pda(rng, nmax=2, tmax=3)
            if rng.random() < 0.3:
                # already in the normal form pda_to_cfg works on: push/pop moves only, at most one accepting state (none, too)
                P = spec[k]
                e = P['eps']
                P['delta'] = [[p_, a, u, [t for t in T if (u == e) != (t[1] == e)]] for p_, a, u, T in P['delta']]
                P['delta'] = [row for row in P['delta'] if row[3]]
                P['F'] = rng.choice([[], [], P['F'][:1]])
        elif k == 'tm':
            spec[k] = gen.random_tm(rng)
        elif k == 'cfg':
            spec[k] = gen.cnf_with_unproductive(rng) if rng.random() < 0.3 else gen.random_cfg(rng, maxlen=3)
        elif k == 'word':
            first = spec[kinds[0]]
            S = sorted(first['Sigma']) if isinstance(first, dict) else Sig
            spec[k] = ''.join(rng.choice(S) for _ in range(rng.randint(0, 3))) if S else ''
        elif k == 'state':
            spec[k] = rng.choice(spec['nfa']['Q'])
    return spec


def build_tm_either(spec):
    """half of the machines are built the way the notebooks get them: by the parser (whose transition table is a defaultdict)"""
    T = enc.build_tm(spec)
    if core.digest(spec)[0] in '02468ace':
        try:
            return TA.parse_tm(TA.print_tm(T))
        except Exception:
            return T
    return T


BUILDERS = {'pda_small': enc.build_pda, 'dfa': enc.build_dfa, 'dfa2': enc.build_dfa, 'dfa_near': enc.build_dfa, 'nfa': enc.build_nfa, 'nfa2': enc.build_nfa, 'rx': enc.build_regexp,
            'pda': enc.build_pda, 'tm': build_tm_either, 'cfg': enc.build_cfg, 'word': lambda x: x, 'state': lambda x: x}


def sibling_and_renamed(kind, x, rng):
    """(sibling, renamed): `sibling` has the same rules / transitions as x but another start variable / initial state, so its
    printed form may coincide with x's although it is a different object; `renamed` is x under a bijective renaming of variables /
    states (another printed form, same language)"""
    if kind == 'cfg':
        others = [v for v in x['V'] if v != x['S']]
        free = [c for c in 'ZYXWVUTSRQPONMLKJIHGFEDCBA' if c not in x['V'] and c not in x['Sigma']]
        if not others or len(free) < len(x['V']) or any(len(v) != 1 for v in x['V']):
            return None
        m = dict(zip(x['V'], free))
        ren = lambda t: [t[0], m[t[1]]] if t[0] == 'v' else list(t)
        return (dict(x, S=rng.choice(others)),
                dict(x, V=[m[v] for v in x['V']], S=m[x['S']], R=[[m[l], i, [ren(t) for t in r]] for l, i, r in x['R']]))
    if kind in ('dfa', 'nfa', 'pda'):
        others = [q for q in x['Q'] if q != x['q0']]
        if not others:
            return None
        f = lambda q: 'z_' + q
        y = dict(x, Q=[f(q) for q in x['Q']], q0=f(x['q0']), F=[f(q) for q in x['F']])
        if kind == 'dfa':
            y['delta'] = [[f(p), a, f(q)] for p, a, q in x['delta']]
        elif kind == 'nfa':
            y['delta'] = [[f(p), a, [f(q) for q in T]] for p, a, T in x['delta']]
        else:
            y['delta'] = [[f(p), a, u, [[f(q), v] for q, v in T]] for p, a, u, T in x['delta']]
        return dict(x, q0=rng.choice(others)), y
    return None


def history(rng):
    """a random prefix of other library calls, including ones that touch process-wide state"""
    for _ in range(rng.randint(0, 4)):
        k = rng.randint(0, 4)
        try:
            if k == 0:
                NA.nfa_repetition(enc.build_nfa(gen.random_nfa(rng, 2, ['a'])))
            elif k == 1:
                RA.regexp_to_nfa(enc.build_regexp(gen.random_regexp(rng, 3, ['a', 'b'])))
            elif k == 2:
                DA.dfa_quotient(enc.build_dfa(gen.random_dfa(rng, 3, ['a'])))
            elif k == 3:
                CA.cfg_to_chomsky(enc.build_cfg(gen.random_cfg(rng)))
            else:
                N1 = enc.build_nfa(gen.random_nfa(rng, 2, ['a'], '_', lambda i: 'u%d' % i))
                N2 = enc.build_nfa(gen.random_nfa(rng, 2, ['a'], '_', lambda i: 'v%d' % i))
                NA.nfa_union(N1, N2)
        except Exception:
            pass


def cases(ctx):
    thorough = ctx.tier == 'thorough'
    rng = ctx.rng
    table = ops()
    per = 12 if not thorough else 120
    for name in sorted(table):
        for i in range(per * (8 if name in ('nfa_union', 'nfa_repetition', 'nfa_concatenation') else 15 if name.startswith('dfa_isomorphic') else 5 if name.startswith('dfa_') else 1)):
            spec = make_args(rng, table[name][0])
            seed = rng.randrange(1 << 30)
            if not thorough or ctx.mine(i):
                yield {'op': name, 'args': spec, 'seed': seed}


def lean_requests(c):
    return []


def judge(ctx, c, answers):
    import random
    table = ops()
    kinds, f = table[c['op']]
    GambaTools.pda_epsilon_closure_max_iterations = 30
    try:
        # a related object queried first: same rules / transitions, other start (its printed form may coincide with the argument's)
        sr = None
        if c['op'].endswith('accepts_word') or c['op'].endswith('words_up_to_n'):
            sr = sibling_and_renamed(kinds[0], c['args'][kinds[0]], random.Random(c['seed']))
        if sr is not None:
            call(f, *[BUILDERS[k](dict(c['args'], **{kinds[0]: sr[0]})[k]) for k in kinds], limit=20)
        args = [BUILDERS[k](c['args'][k]) for k in kinds]
        before = [snap(a) for a in args]
        if c['op'] in ('nfa_union', 'nfa_repetition'):
            # the default IdentifierGenerator is process-wide state: start from the state reached after a few earlier calls
            NA.nfa_union.__defaults__[0].index = c['seed'] % 4
            NA.nfa_repetition.__defaults__[0].index = c['seed'] % 4
        r1 = call(f, *args, limit=20)
        after = [snap(a) for a in args]
        if after != before:
            ctx.violation('argument-mutated', {'case': c, 'before': str(before)[:400], 'after': str(after)[:400]})
        if 'ok' not in r1:
            ctx.count('raises:' + str(r1.get('err')))
            ctx.record('%s/%s' % (c['op'], core.digest(c['args'])), 'ERR:' + str(r1.get('err')))
            return
        v1 = canon_result(r1['ok'])
        if sr is not None:
            rr = call(f, *[BUILDERS[k](dict(c['args'], **{kinds[0]: sr[1]})[k]) for k in kinds], limit=20)
            vr = canon_result(rr['ok']) if 'ok' in rr else 'ERR'
            if vr != v1:
                ctx.violation('result-depends-on-related-earlier-call', {'case': c, 'queried_first': sr[0], 'result': str(v1)[:300],
                                                                         'renamed_copy': sr[1], 'result_on_renamed_copy': str(vr)[:300]})
            ctx.count('related-first')
        named = c['op'] not in ('nfa_repetition', 'nfa_union', 'regexp_to_nfa')     # generated names depend on the generator state
        # second call on equal (fresh) arguments
        args2 = [BUILDERS[k](c['args'][k]) for k in kinds]
        r2 = call(f, *args2, limit=20)
        # logging on
        GambaTools.enable_logging = True
        try:
            with contextlib.redirect_stdout(io.StringIO()):
                r3 = call(f, *[BUILDERS[k](c['args'][k]) for k in kinds], limit=20)
        finally:
            GambaTools.enable_logging = False
        # after other library calls
        history(random.Random(c['seed']))
        r4 = call(f, *[BUILDERS[k](c['args'][k]) for k in kinds], limit=20)
        tags = [('repeat', r2), ('logging', r3), ('history', r4)]
        # the caller owns what it got: poison every mutable container of the FIRST result (its canonical value v1 was taken above),
        # then call again on fresh equal arguments -- a result that is (part of) hidden shared state shows up here
        fp1 = lang_fp(r1['ok']) if not named else None
        scramble(r1['ok'])
        tags.append(('earlier-result-edited-by-caller', call(f, *[BUILDERS[k](c['args'][k]) for k in kinds], limit=20)))
        if c['op'] in ('nfa_union', 'nfa_repetition'):
            # ... and from the state of the process-wide default generator after MANY earlier calls
            NA.nfa_union.__defaults__[0].index = 50 + c['seed'] % 7
            NA.nfa_repetition.__defaults__[0].index = 50 + c['seed'] % 7
            tags.append(('generator-state', call(f, *[BUILDERS[k](c['args'][k]) for k in kinds], limit=20)))
        for tag, r in tags:
            v = canon_result(r['ok']) if 'ok' in r else 'ERR'
            same = (v == v1) if named else (lang_fp(r.get('ok')) == fp1)
            if not same:
                ctx.violation('result-depends-on-' + tag, {'case': c, 'first': str(v1)[:300], 'other': str(v)[:300]})
        # stale state: modify the first argument in place (a legal edit), call again, compare with a fresh equal object
        k0 = kinds[0]
        if k0 in ('dfa', 'nfa', 'pda', 'cfg') and named and not c['op'].startswith('pda_to_cfg'):
            spec2 = copy.deepcopy(c['args'])
            x = spec2[k0]
            args5 = [BUILDERS[k](c['args'][k]) for k in kinds]
            call(f, *args5, limit=20)
            if k0 == 'cfg':
                extra = [x['S'], max(r[1] for r in x['R']) + 1, [['t', (x['Sigma'] or ['a'])[0]]]]
                from gambatools.cfg import Rule, Alternative, Terminal, Variable
                if (x['Sigma'] or ['a'])[0] in x['Sigma']:
                    x['R'].append(extra)
                    args5[0].R.append(Rule(Variable(x['S']), Alternative([Terminal(extra[2][0][1])])))
            else:
                q = x['Q'][0]
                x['F'] = [y for y in x['F'] if y != q] if q in x['F'] else x['F'] + [q]
                if q in args5[0].F:
                    args5[0].F.discard(q)
                else:
                    args5[0].F.add(q)
            r5 = call(f, *args5, limit=20)
            r6 = call(f, *[BUILDERS[k](spec2[k]) for k in kinds], limit=20)
            v5 = canon_result(r5['ok']) if 'ok' in r5 else 'ERR'
            v6 = canon_result(r6['ok']) if 'ok' in r6 else 'ERR'
            if v5 != v6:
                ctx.violation('stale-result-after-argument-edit', {'case': c, 'edited': spec2[k0], 'on_edited_object': str(v5)[:300], 'on_fresh_object': str(v6)[:300]})
        ctx.record('%s/%s' % (c['op'], core.digest(c['args'])), v1 if named else lang_fp(r1['ok']))
        ctx.count(c['op'])
        ctx.case({'op': c['op'], 'args': c['args']}, True)
    finally:
        GambaTools.pda_epsilon_closure_max_iterations = 1000


def scramble(x, seen=None, depth=0):
    """empty / poison the mutable containers reachable from a result (sets, lists, dicts, and the public fields of library objects)"""
    seen = set() if seen is None else seen
    if id(x) in seen or depth > 6:
        return
    seen.add(id(x))
    if isinstance(x, set):
        for y in list(x):
            scramble(y, seen, depth + 1)
        x.clear()
        x.add('\x00poison')
    elif isinstance(x, list):
        for y in list(x):
            scramble(y, seen, depth + 1)
        del x[:]
        x.append('\x00poison')
    elif isinstance(x, dict):
        for y in list(x.values()):
            scramble(y, seen, depth + 1)
        x.clear()
    elif isinstance(x, tuple):
        for y in x:
            scramble(y, seen, depth + 1)
    elif hasattr(x, '__dict__') and type(x).__module__.startswith('gambatools'):
        for y in list(vars(x).values()):
            scramble(y, seen, depth + 1)


def lang_fp(N):
    if N is None:
        return None
    return sorted(w for w in gen.all_words(N.Sigma, 3) if oracles.nfa_accepts(N, w))


def run(ctx):
    core.run_cases(ctx, __import__('props.c19', fromlist=['x']), cases(ctx))
