"""C11 — TM simulation follows Sipser semantics with a three-valued bounded verdict."""
import core, enc, gen, oracles
from core import call
from gambatools.tm_algorithms import tm_accepts_word, tm_simulate_word, tm_do_transition

META = {
    'level': 'proof',
    'rule': 'seeded random deterministic TMs (1-4 working states, partial delta, left moves at cell 0, blank writes, loops, '
            'halting initial state) x all words of length <=3 x budgets {0,1,2,3,5,20,1000}; non-trivial = run of >=2 steps '
            'or a verdict that changes with the budget; distinct by (machine, word); also purposeful machines run on words of length up to 300 (runs of 300-600 steps that revisit (state, head) pairs) (erase and walk back over the erased cells, a counter in cell 0 driven by left moves at the left end, a^n b^n, palindromes, binary increment, quadratic sweeps)',
    'assumptions': ['TM.valid (constructor) ; directions are L/R ; words over Sigma'],
    'trusted_base': ['Spec: Gamba/Spec/TM.lean (Step, stepN, HaltsAt)'],
}
BUDGETS = [0, 1, 2, 3, 5, 20, 1000]


def cases(ctx):
    thorough = ctx.tier == 'thorough'
    rng = ctx.rng
    for i in range(500 if not thorough else 6000):
        T = gen.random_tm(rng)
        ws = gen.all_words(T['Sigma'], 3 if len(T['Sigma']) <= 2 else 2)
        if len(ws) > 8:
            ws = ws[:3] + rng.sample(ws[3:], 5)
        if not thorough or ctx.mine(i):
            yield {'T': T, 'words': ws, 'budgets': rng.sample(BUDGETS, 4) + [1000]}
    # purposeful machines on longer words: erase-and-walk-back, a counter in cell 0, a^n b^n, palindromes, increment, sweeps
    for i in range(40 if not thorough else 400):
        T, ws = gen.tm_zoo(rng)
        if len(ws) > 8:
            ws = rng.sample(ws, 8)
        if not thorough or ctx.mine(i):
            yield {'T': T, 'words': ws, 'budgets': sorted(rng.sample([3, 10, 17, 30, 60, 120, 400], 3)) + [1000]}


def lean_requests(c):
    reqs = []
    for w in c['words']:
        for k in c['budgets']:
            reqs.append({'op': 'tm_accepts', 'T': c['T'], 'w': list(w), 'k': k})
        reqs.append({'op': 'tm_simulate', 'T': c['T'], 'w': list(w), 'k': c['budgets'][0]})
        reqs.append({'op': 'tm_simulate', 'T': c['T'], 'w': list(w), 'k': 50})
    return reqs


def judge(ctx, c, answers):
    T = enc.build_tm(c['T'])
    before = enc.canon_tm(T)
    # the DEFAULT budget (1000) is a property of the TM functions: another module's setting must not change it
    from gambatools.global_settings import GambaTools
    old_knob = GambaTools.pda_epsilon_closure_max_iterations
    GambaTools.pda_epsilon_closure_max_iterations = 7
    try:
        for w in c['words'][:3]:
            g = call(tm_accepts_word, T, w)
            e = oracles.tm_run(T, w, 1000)[0]
            if g != {'ok': e}:
                ctx.violation('tm-verdict-default-budget', {'case': dict(c, words=[w], budgets=[1000]), 'impl': g, 'expected': e})
    finally:
        GambaTools.pda_epsilon_closure_max_iterations = old_knob
    # a word may be given as a list of symbols: same verdict, and the caller's list is not the tape
    for w in c['words'][:3]:
        lw = list(w)
        g = call(tm_accepts_word, T, lw, 50)
        e = oracles.tm_run(T, w, 50)[0]
        if g != {'ok': e}:
            ctx.violation('tm-verdict(list word)', {'case': dict(c, words=[w], budgets=[50]), 'impl': g, 'expected': e})
        elif lw != list(w):
            ctx.violation('argument-mutated', {'case': dict(c, words=[w], budgets=[50]), 'word_list_after': lw})
        g = call(tm_simulate_word, T, lw, 50)
        if lw != list(w):
            ctx.violation('argument-mutated', {'case': dict(c, words=[w], budgets=[50]), 'word_list_after': lw, 'op': 'tm_simulate_word'})
    it = iter(answers)
    res = []
    for w in c['words']:
        verdicts = {}
        for k in c['budgets']:
            la = next(it)
            got = call(tm_accepts_word, T, w, k)
            exp, trace = oracles.tm_run(T, w, k)
            sub = dict(c, words=[w], budgets=[k])
            verdicts[k] = got.get('ok', 'ERR')
            if got != {'ok': exp}:
                ctx.violation('tm-verdict', {'case': sub, 'impl': got, 'expected': exp})
            elif la.get('ok', 'ERR') != exp:
                ctx.violation('correspondence:tm_accepts', {'case': sub, 'impl': got, 'model': la}, no_input=True)
            ctx.count('verdict:%s' % exp)
        # budget monotonicity on the implementation
        ks = sorted(c['budgets'])
        for a, b in zip(ks, ks[1:]):
            if verdicts[a] in (True, False) and verdicts[b] != verdicts[a]:
                ctx.violation('tm-budget-not-monotone', {'case': dict(c, words=[w], budgets=[a, b]), 'verdicts': [verdicts[a], verdicts[b]]})
        for k in (c['budgets'][0], 50):
            la = next(it)
            got = call(tm_simulate_word, T, w, k)
            exp, trace = oracles.tm_run(T, w, k)
            sub = dict(c, words=[w], budgets=[k])
            if 'ok' not in got:
                ctx.violation('tm-trace', {'case': sub, 'impl': got, 'expected_len': len(trace)})
                continue
            tr = [[q, list(t), h] for q, t, h in got['ok']]
            if tr != [[q, t, h] for q, t, h in trace]:
                ctx.violation('tm-trace', {'case': sub, 'impl': tr[:6], 'expected': [[q, t, h] for q, t, h in trace][:6]})
            elif la.get('ok') != tr:
                ctx.violation('correspondence:tm_simulate', {'case': sub, 'impl': tr[:6], 'model': la.get('ok', la)[:6] if isinstance(la.get('ok'), list) else la}, no_input=True)
            if len(trace) >= 3:
                ctx.count('trace>=2steps')
        res.append([w, sorted(verdicts.items())])
        exp1000, trace = oracles.tm_run(T, w, 1000)
        ctx.case({'T': c['T'], 'w': w, 'budgets': c['budgets']}, len(trace) >= 3)
    if enc.canon_tm(T) != before:
        ctx.violation('argument-mutated', {'case': c})
    if T.q0 in (T.q_accept, T.q_reject):
        ctx.count('halting-initial-state')
    ctx.record('tm/' + core.digest(c), res)


def run(ctx):
    core.run_cases(ctx, __import__('props.c11', fromlist=['x']), cases(ctx))
