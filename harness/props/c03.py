"""C03 — subset construction yields an equivalent total DFA."""
import core, enc, gen, oracles
from core import call
from gambatools.nfa_algorithms import nfa_to_dfa

META = {
    'level': 'proof',
    'rule': 'exhaustive NFAs with <=2 states over {a} (quick: also {a,b} sampled; thorough: all 16384), seeded random NFAs with '
            '1-6 states (epsilon cycles, dead ends, F empty/full, empty alphabet, plain dict / defaultdict); result compared with '
            'the Lean model (exact, names included) and checked directly: valid total DFA, same alphabet, language equal (exact '
            'product BFS, all word lengths), q0 = closure name, every state reachable; non-trivial = NFA with an epsilon move and '
            '>=2 subset states; distinct by content; also NFAs with 13-15 states whose subsets share their 12 smallest names, unusual state names (\'\', \'p,q\', \'{p,q}\': the recorded name-collision finding is decided per case), in-place-edit history (determinise, edit delta, determinise again); shortcut-free epsilon chains through 6-13 numbered states',
    'assumptions': ['NFA.valid (constructor)', 'print_state_set is injective on the reachable subsets (decided per case by the reference; a case where the set notation itself merges two subsets is the recorded finding nfa2dfa-subset-name-collision)'],
    'trusted_base': ['Spec: Gamba/Spec/Automata.lean'],
}


# legal str names on which the set notation may or may not stay injective
ODD = lambda j: ['', 'q', 'p', '{p,q}', 'p,q', '{q}', '{}', 'r'][j]


def cases(ctx):
    thorough = ctx.tier == 'thorough'
    for n in (1, 2):
        for s in gen.exhaustive_nfas(n, ['a']):
            yield {'N': s}
    for i, s in enumerate(gen.exhaustive_nfas(2, ['a', 'b'])):
        if (thorough and ctx.mine(i)) or (not thorough and i % 16 == 3):
            yield {'N': s}
    rng = ctx.rng
    for i in range(40 if not thorough else 400):        # shortcut-free epsilon chains through 6-13 numbered states (q1 / q10, q9 / q10)
        s = gen.eps_chain_nfa(rng)
        if not thorough or ctx.mine(i):
            yield {'N': s, 'sched': [rng.randint(0, 5) for _ in range(8)], 'edit': False}
    for i in range(1200 if not thorough else 12000):
        s = gen.big_subset_nfa(rng) if i % 40 == 11 else gen.random_nfa(rng, names=ODD if i % 25 == 7 else None)
        if i % 14 == 9:
            s['frozen'] = rng.choice(['delta', 'all'])
        if not thorough or ctx.mine(i):
            yield {'N': s, 'sched': [rng.randint(0, 5) for _ in range(8)], 'edit': i % 6 == 2 and not s.get('frozen')}


def lean_requests(c):
    return [{'op': 'nfa_to_dfa', 'N': c['N'], 'sched': c.get('sched', [])}]


def judge(ctx, c, answers):
    N = enc.build_nfa(c['N'])
    before = (enc.canon_nfa(N, drop_empty=False), str(N))
    got = call(nfa_to_dfa, N)
    la = answers[0]
    col = oracles.subset_name_collision(N)
    if col is not None:
        # the documented naming scheme itself merges two distinct subsets: recorded finding, decided on the reference naming
        ctx.count('subset-name-collision')
        ok = 'ok' in got and oracles.dfa_valid(got['ok']) and oracles.distinguish(N, got['ok'], N.Sigma) is None
        if not ok:
            ctx.violation('subset-dfa-name-collision', {'case': c, 'subsets': col, 'impl': got if 'ok' not in got else enc.canon_dfa(got['ok'])},
                          finding_key='nfa2dfa-subset-name-collision')
        ctx.case(c, False)
        return
    if 'ok' not in got:
        ctx.violation('nfa_to_dfa-raises', {'case': c, 'impl': got})
        return
    D = got['ok']
    cd = enc.canon_dfa(D)
    bad = None
    if not oracles.dfa_valid(D):
        ctx.violation('subset-dfa-invalid', {'case': c, 'impl': cd})
    elif set(D.Sigma) != set(N.Sigma):
        ctx.violation('subset-dfa-alphabet', {'case': c, 'impl': cd})
    else:
        bad = oracles.distinguish(N, D, N.Sigma)
        if bad is not None:
            ctx.violation('subset-dfa-language', {'case': c, 'word': bad, 'impl': cd})
        from gambatools.dfa import print_state_set
        if D.q0 != print_state_set(oracles.eps_reach(N, {N.q0})):
            ctx.violation('subset-dfa-initial', {'case': c, 'impl': cd})
        if oracles.reachable(D) != set(D.Q):
            ctx.violation('subset-dfa-unreachable-state', {'case': c, 'impl': cd})
    if 'ok' not in la or enc.canon_dfa_spec(la['ok']) != cd:
        ctx.violation('correspondence:nfa_to_dfa', {'case': c, 'impl': cd, 'model': la}, no_input=bad is None)
    if (enc.canon_nfa(N, drop_empty=False), str(N)) != before:
        ctx.violation('argument-mutated', {'case': c})
    if c.get('edit') and len(c['N']['Q']) >= 2:
        # history: the same NFA object, edited in place (a legal edit of its transition table), determinised again
        import copy, random
        r = random.Random(core.digest(c['N']))
        spec2 = copy.deepcopy(c['N'])
        p, q = r.choice(spec2['Q']), r.choice(spec2['Q'])
        e = spec2['eps']
        row = [t for t in spec2['delta'] if t[0] == p and t[1] == e]
        if row and q in row[0][2] and len(row[0][2]) > 0 and r.random() < 0.5:
            row[0][2].remove(q)
            N.delta[p, e].discard(q)
        elif row:
            if q not in row[0][2]:
                row[0][2].append(q)
            N.delta[p, e].add(q)
        else:
            spec2['delta'].append([p, e, [q]])
            N.delta[p, e] = {q}
        g1 = call(nfa_to_dfa, N)
        g2 = call(nfa_to_dfa, enc.build_nfa(spec2))
        v1 = enc.canon_dfa(g1['ok']) if 'ok' in g1 else g1
        v2 = enc.canon_dfa(g2['ok']) if 'ok' in g2 else g2
        if v1 != v2 and oracles.subset_name_collision(enc.build_nfa(spec2)) is None:
            ctx.violation('stale-result-after-argument-edit', {'case': c, 'edited': spec2, 'on_edited_object': v1, 'on_fresh_object': v2})
        ctx.count('edit-history')
    f = gen.nfa_features(c['N'])
    ctx.count('states:%d' % min(len(D.Q), 8))
    ctx.count('eps' if f['eps_edges'] else 'no-eps')
    if not c['N']['Sigma']:
        ctx.count('empty-alphabet')
    ctx.record('n2d/' + core.digest(c['N']), cd)
    ctx.case(c, f['eps_edges'] >= 1 and len(D.Q) >= 2)


def run(ctx):
    core.run_cases(ctx, __import__('props.c03', fromlist=['x']), cases(ctx))
