"""C08 — Chomsky conversion, phase by phase."""
import copy
import core, enc, gen, oracles
from core import call
from gambatools import cfg_algorithms as CA
from gambatools.notebook_chomsky import cfg_apply_chomsky

META = {
    'level': 'proof',
    'rule': 'seeded random simple-format grammars (1-4 variables, nullable start, cyclic unit rules, shared right-hand sides, '
            'long rules) plus grammars with 24-30 variables; every phase is run on the output of the previous phase, compared '
            'with the Lean model (rules, alias classes of Alternative objects, V, S) and checked directly: language equal to the '
            'input on all words <=4 (span-saturation oracle on the original grammar), phase postcondition, fresh variables new, '
            'argument untouched; non-trivial = grammar with an epsilon rule or a unit rule or a rule longer than 2; distinct by content',
    'assumptions': ['terminals and variables disjoint as strings (both parsers guarantee it)', 'ASCII symbols (str.upper)'],
    'trusted_base': ['Spec: Gamba/Spec/CFG.lean (Gen)'],
}
PHASES = [('cfg_add_start', lambda G: CA.cfg_add_new_start_variable(G, 'S')),
          ('cfg_remove_eps', CA.cfg_remove_epsilon_rules),
          ('cfg_elim_unit', CA.cfg_eliminate_unit_rules),
          ('cfg_binarise', CA.cfg_make_rules_of_length_two),
          ('cfg_isolate', CA.cfg_eliminate_terminals)]


def big_cfg(rng, nv=None):
    nv = nv or rng.randint(23, 30)
    names = list(gen.UPPER[:min(nv, 26)]) + ['V%d' % i for i in range(max(0, nv - 26))]
    if nv > 26 and rng.random() < 0.6:
        # extra variables named <hint><number> where the number is near the size of V (a fresh-name shortcut must not land on them)
        k = nv - 26
        pool = ['S%d' % nv, 'S%d' % (nv + 1), 'A%d' % nv, 'S0', 'S1', 'A0', 'B%d' % (nv + 1), 'S%d' % (nv - 1)]
        names = list(gen.UPPER) + pool[:k]
    R = []
    for i, A in enumerate(names):
        rhs = [['t', rng.choice('ab')]] if rng.random() < 0.6 else [['v', rng.choice(names)], ['t', 'a'], ['v', rng.choice(names)]]
        R.append([A, i, rhs])
    R.append(['S', len(R), [['t', 'a'], ['t', 'b'], ['v', 'A'], ['t', 'a']]])
    return {'V': names, 'Sigma': ['a', 'b'], 'R': R, 'S': 'S'}


def cases(ctx):
    thorough = ctx.tier == 'thorough'
    rng = ctx.rng
    for i in range(400 if not thorough else 5000):
        G = gen.random_cfg(rng, maxlen=rng.choice([2, 3, 4]))
        if not thorough or ctx.mine(i):
            yield {'G': G}
    for i in range(30 if not thorough else 300):
        yield {'G': gen.unit_chain_cfg(rng)}
    for i in range(40 if not thorough else 400):      # caseless terminals: digits and brackets (upper() of the name is the name)
        yield {'G': gen.random_cfg(rng, Sigma=rng.choice([['0', '1'], ['(', ')'], ['0', 'a']]), maxlen=3)}
    for i in range(30 if not thorough else 300):      # right-hand sides of length 5-7 (the splitting phase chains several fresh variables)
        G = gen.random_cfg(rng, nvars=rng.randint(1, 2), maxlen=2)
        n = rng.randint(5, 7)
        G['R'].append([G['S'], max([r[1] for r in G['R']] + [0]) + 1,
                       [(['v', rng.choice(G['V'])] if rng.random() < 0.3 else ['t', rng.choice(['a', 'b', 'c', 'd', 'e'])]) for _ in range(n)]])
        G['Sigma'] = sorted({x for _, _, rhs in G['R'] for k, x in rhs if k == 't'})
        yield {'G': G, 'big': True}
    for nv in (24, 25, 26, 27, 27, 28, 29):       # the 26-letter boundary of cfg_fresh_variable
        yield {'G': big_cfg(rng, nv), 'big': True}
    for i in range(6 if not thorough else 60):
        if not thorough or ctx.mine(i):
            yield {'G': big_cfg(rng), 'big': True}


def chain(c):
    """Run the implementation phase by phase (each on the previous output); returns list of (name, input spec, call result)."""
    out = []
    G = enc.build_cfg(c['G'])
    for name, f in PHASES:
        spec_in = enc.cfg_to_spec(G)
        got = call(f, G, limit=20)
        out.append((name, spec_in, got, G))
        if 'ok' not in got:
            break
        G = got['ok']
    return out


def lean_requests(c):
    reqs = []
    for name, spec_in, got, _ in chain(c):
        r = {'op': name, 'G': spec_in}
        if name == 'cfg_add_start':
            r['hint'] = 'S'
        reqs.append(r)
    reqs.append({'op': 'cfg_to_chomsky', 'G': c['G']})
    reqs.append({'op': 'cfg_nullable', 'G': c['G']})
    reqs += [{'op': 'cfg_derivable', 'G': c['G'], 'A': A} for A in c['G']['V'][:4]]
    reqs += [{'op': 'cfg_apply_chomsky', 'G': c['G'], 'phase': p, 'start': 'T'} for p in (0, 2, 3)]
    return reqs


def alias_canon(spec):
    """rules with the alias class of their Alternative object, independent of rule order"""
    cls = {}
    for lhs, aid, rhs in spec['R']:
        cls.setdefault(aid, []).append(lhs)
    return {'V': sorted(set(spec['V'])), 'S': spec['S'], 'Sigma': sorted(set(spec['Sigma'])),
            'R': sorted([lhs, [list(x) for x in rhs], sorted(cls[aid])] for lhs, aid, rhs in spec['R'])}


def post(name, spec_in, spec_out):
    """phase postconditions evaluated on the implementation's output; returns list of problems"""
    bad = []
    if spec_out.get('non_string_symbol'):
        bad.append('a symbol of the result is not a string (e.g. None returned as fresh variable)')
    R = spec_out['R']
    S = spec_out['S']
    newV = set(spec_out['V']) - set(spec_in['V'])
    if name == 'cfg_add_start':
        if len(newV) != 1 or S not in newV:
            bad.append('start variable not new')
        if any(['v', S] in rhs for _, _, rhs in R):
            bad.append('start variable on a right-hand side')
    if name in ('cfg_remove_eps',):
        if any(not rhs and lhs != S for lhs, _, rhs in R):
            bad.append('epsilon rule off the start variable')
    if name == 'cfg_elim_unit':
        if any(len(rhs) == 1 and rhs[0][0] == 'v' for _, _, rhs in R):
            bad.append('unit rule left')
    if name == 'cfg_binarise':
        if any(len(rhs) > 2 for _, _, rhs in R):
            bad.append('rule longer than two')
    if name == 'cfg_isolate':
        for lhs, _, rhs in R:
            if len(rhs) >= 2 and any(k == 't' for k, _ in rhs):
                bad.append('terminal in a long rule')
                break
    if name in ('cfg_binarise', 'cfg_isolate', 'cfg_add_start'):
        if len(spec_out['V']) != len(set(spec_out['V'])) or (set(spec_in['V']) - set(spec_out['V'])):
            bad.append('variable set damaged')
        # (a caseless terminal such as '0' or ')' legitimately gets the variable of the same NAME, t.upper() == t; symbols are typed)
        if any(v in spec_in['Sigma'] and v.upper() != v for v in newV):
            bad.append('fresh variable clashes with a terminal')
    for lhs, _, rhs in R:
        if lhs not in spec_out['V'] or any(k == 'v' and n not in spec_out['V'] for k, n in rhs):
            bad.append('undeclared variable')
            break
    return bad


def rules_of(spec):
    return [(lhs, [(k, n) for k, n in rhs]) for lhs, _, rhs in spec['R']]


def judge(ctx, c, answers):
    G0 = c['G']
    Sigma = sorted(G0['Sigma']) or ['a']
    L = 3 if c.get('big') else 4
    words = gen.all_words(Sigma, L if len(Sigma) <= 2 else 3)
    ref = {w for w in words if oracles.cfg_accepts(rules_of(G0), G0['S'], w)}
    it = iter(answers)
    res = []
    for name, spec_in, got, Gobj in chain(c):
        la = next(it)
        if enc.cfg_to_spec(Gobj) != spec_in:
            ctx.violation('argument-mutated', {'case': c, 'phase': name})
        if 'ok' not in got:
            ctx.violation('phase-raises', {'case': c, 'phase': name, 'impl': got})
            break
        out = enc.cfg_to_spec(got['ok'])
        problems = post(name, spec_in, out)
        lang = {w for w in words if oracles.cfg_accepts(rules_of(out), out['S'], w)}
        if lang != ref:
            w = sorted(lang ^ ref, key=len)[0]
            ctx.violation('phase-changes-language', {'case': c, 'phase': name, 'word': w, 'impl': out})
            problems.append('language')
        elif problems:
            ctx.violation('phase-postcondition', {'case': c, 'phase': name, 'problems': problems, 'impl': out})
        keep_order = name != 'cfg_elim_unit'
        if keep_order:
            same = 'ok' in la and enc.canon_cfg_spec(la['ok'], True, True) == enc.canon_cfg_spec(out, True, True)
        else:
            same = 'ok' in la and alias_canon(la['ok']) == alias_canon(out) and \
                (not out['R'] or not any(r[0] == out['S'] for r in out['R']) or out['R'][0][0] == out['S'])
        if not same:
            ctx.violation('correspondence:' + name, {'case': c, 'input': spec_in, 'impl': out, 'model': la}, no_input=not problems)
        res.append(alias_canon(out))
        ctx.count('phase:' + name)
    else:
        pass
    # whole pipeline
    la = answers[len(PHASES)] if len(answers) > len(PHASES) else {}
    G = enc.build_cfg(G0)
    before = enc.cfg_to_spec(G)
    got = call(CA.cfg_to_chomsky, G, limit=30)
    if 'ok' not in got:
        ctx.violation('to-chomsky-raises', {'case': c, 'impl': got})
    else:
        C = got['ok']
        out = enc.cfg_to_spec(C)
        lang = {w for w in words if oracles.cfg_accepts(rules_of(out), out['S'], w)}
        problems = []
        if not C.is_chomsky():
            problems.append('not in CNF')
        if out.get('non_string_symbol'):
            problems.append('a symbol of the result is not a string')
        ok_cnf = all((len(r) == 0 and l == out['S']) or (len(r) == 1 and r[0][0] == 't') or
                     (len(r) == 2 and r[0][0] == 'v' and r[1][0] == 'v' and out['S'] not in (r[0][1], r[1][1]))
                     for l, _, r in out['R'])
        if not ok_cnf:
            problems.append('CNF shape (independent check)')
        if post('cfg_isolate', before, out) and 'undeclared variable' in post('cfg_isolate', before, out):
            problems.append('invalid grammar')
        if lang != ref:
            problems.append('language differs on %r' % sorted(lang ^ ref, key=len)[0])
        if problems:
            ctx.violation('to-chomsky', {'case': c, 'problems': problems, 'impl': out})
        n = len(PHASES)
        mo = answers[n].get('ok') if len(answers) > n else None
        if not mo or (len(mo['R']), len(set(mo['V']))) != (len(out['R']), len(set(out['V']))):
            ctx.violation('correspondence:cfg_to_chomsky', {'case': c, 'impl': out, 'model': answers[n] if len(answers) > n else None}, no_input=not problems)
        res.append(sorted(lang))
        # the converted grammar as INPUT of the conversion and of the unit-rule phase (its terminal variables may carry the name of
        # their terminal: '0' -> variable '0'): language and normal form must survive
        if not problems and not out.get('non_string_symbol'):
            for nm, f in (('cfg_to_chomsky(twice)', CA.cfg_to_chomsky), ('cfg_eliminate_unit_rules(on converted)', CA.cfg_eliminate_unit_rules)):
                g2 = call(f, C, limit=30)
                if 'ok' not in g2:
                    ctx.violation('to-chomsky-on-converted-raises', {'case': c, 'op': nm, 'impl': g2})
                    continue
                o2 = enc.cfg_to_spec(g2['ok'])
                l2 = {w for w in words if oracles.cfg_accepts(rules_of(o2), o2['S'], w)}
                if l2 != ref:
                    ctx.violation('to-chomsky-on-converted', {'case': c, 'op': nm, 'word': sorted(l2 ^ ref, key=len)[0], 'impl': o2})
            ctx.count('converted-again')
    if enc.cfg_to_spec(G) != before:
        ctx.violation('argument-mutated', {'case': c, 'phase': 'cfg_to_chomsky'})
    # helper functions
    idx = len(PHASES) + 1
    if len(answers) > idx:
        G = enc.build_cfg(G0)
        nul = call(CA.cfg_nullable_variables, G)
        exp = {A for A in G0['V'] if oracles.cfg_accepts(rules_of(G0), A, '')}
        if nul.get('ok') != exp:
            ctx.violation('nullable-set', {'case': c, 'impl': str(nul)[:200], 'expected': sorted(exp)})
        elif set(answers[idx].get('ok', ['?'])) != exp:
            ctx.violation('correspondence:cfg_nullable', {'case': c, 'impl': sorted(exp), 'model': answers[idx]}, no_input=True)
        idx += 1
        for A in G0['V'][:4]:
            d = call(CA.cfg_derivable_variables, G, A)
            if 'ok' not in d or set(answers[idx].get('ok', ['?'])) != set(map(str, d['ok'])):
                ctx.violation('correspondence:cfg_derivable', {'case': c, 'A': A, 'impl': str(d)[:200], 'model': answers[idx]}, no_input=True)
            idx += 1
        for p in (0, 2, 3):
            a = call(cfg_apply_chomsky, G, p, 'T')
            la = answers[idx]
            idx += 1
            if 'ok' not in a or 'ok' not in la or alias_canon(enc.cfg_to_spec(a['ok'])) != alias_canon(la['ok']):
                ctx.violation('correspondence:cfg_apply_chomsky', {'case': c, 'phase': p, 'impl': str(a)[:200], 'model': la}, no_input=True)
    # every phase is also a public function: applied ON ITS OWN to the original grammar it must preserve the language, establish its
    # postcondition and leave the argument alone (the pipeline above only feeds each phase the output of the previous one)
    for name, f in PHASES[1:]:
        Gs = enc.build_cfg(G0)
        b = enc.cfg_to_spec(Gs)
        got = call(f, Gs, limit=20)
        if enc.cfg_to_spec(Gs) != b:
            ctx.violation('argument-mutated', {'case': c, 'phase': name + ' (standalone)'})
        if 'ok' not in got:
            ctx.violation('phase-raises', {'case': c, 'phase': name + ' (standalone)', 'impl': got})
            continue
        out = enc.cfg_to_spec(got['ok'])
        lang = {w for w in words if oracles.cfg_accepts(rules_of(out), out['S'], w)}
        pr = [x for x in post(name, b, out) if name != 'cfg_remove_eps' or x != 'epsilon rule off the start variable' or True]
        if lang != ref:
            ctx.violation('phase-changes-language', {'case': c, 'phase': name + ' (standalone)', 'word': sorted(lang ^ ref, key=len)[0], 'impl': out})
        elif pr:
            ctx.violation('phase-postcondition', {'case': c, 'phase': name + ' (standalone)', 'problems': pr, 'impl': out})
        ctx.count('standalone:' + name)
    ctx.record('cfg/' + core.digest(G0), res)
    nontriv = any(not rhs or (len(rhs) == 1 and rhs[0][0] == 'v') or len(rhs) > 2 for _, _, rhs in G0['R'])
    ctx.case(c, nontriv)


def run(ctx):
    core.run_cases(ctx, __import__('props.c08', fromlist=['x']), cases(ctx))
