"""C07 — CYK membership and the CYK table are exact for arbitrary grammars."""
import core, enc, gen, oracles
from core import call
from gambatools import cfg_algorithms as CA

META = {
    'level': 'proof',
    'rule': 'seeded random grammars: CNF grammars (table, every cell, words <=4) and arbitrary simple-format grammars with epsilon, '
            'unit, cyclic and useless rules (membership, all words <=4 over the terminals); compared with the Lean model and with '
            'the span-saturation oracle on the ORIGINAL grammar; non-trivial = CNF grammar with a binary rule and a word of length '
            '>=2, or non-CNF grammar with an epsilon/unit rule; distinct by (grammar, word list); also grammars with several right-hand sides of 10-16 symbols for one variable (more helper variables than capital letters; probe words = mixtures of two right-hand sides) and shallow-bushy vs deep-thin alternatives with words of length 5-9',
    'assumptions': ['terminals/variables disjoint as strings; single-character terminals'],
    'trusted_base': ['Spec: Gamba/Spec/CFG.lean (Gen)'],
}


def cases(ctx):
    thorough = ctx.tier == 'thorough'
    rng = ctx.rng
    for i in range(300 if not thorough else 4000):
        G = gen.random_cfg(rng, cnf=True, nvars=rng.randint(1, 4), multichar=rng.random() < 0.3)
        Sig = sorted(G['Sigma']) or ['a']
        ws = [w for w in gen.all_words(Sig, 4 if len(Sig) <= 2 else 3)]
        if len(ws) > 14:
            ws = ws[:4] + rng.sample(ws[4:], 10)
        if not thorough or ctx.mine(i):
            yield {'kind': 'cnf', 'G': G, 'words': ws}
    for i in range(40 if not thorough else 400):
        G = gen.ambiguous_cfg2(rng) if i % 2 else gen.ambiguous_cfg(rng)
        ws = [w for w in gen.all_words(G['Sigma'], 3) if w]
        if len(ws) > 25:
            ws = ws[:5] + rng.sample(ws[5:], 20)
        yield {'kind': 'cnf', 'G': G, 'words': ws}
    for i in range(40 if not thorough else 400):
        G = gen.near_cnf_cfg(rng)
        yield {'kind': 'any', 'G': G, 'words': [w for w in gen.all_words(G['Sigma'], 3)][:20]}
    for i in range(40 if not thorough else 400):
        G = gen.unit_chain_cfg(rng)
        yield {'kind': 'any', 'G': G, 'words': [w for w in gen.all_words(G['Sigma'], 3)][:20]}
    for i in range(20 if not thorough else 200):
        G = gen.random_cfg(rng, nvars=rng.randint(1, 3), Sigma=rng.choice([['a', 'ε'], ['ε'], ['a', 'e']]), maxlen=3)
        if 'e' in G['Sigma'] and rng.random() < 0.7:
            G['eps'] = 'e'            # the grammar object's epsilon attribute is an ordinary terminal of its rules
        ws = gen.all_words(sorted(G['Sigma']) or ['a'], 3)
        if not thorough or ctx.mine(i):
            yield {'kind': 'any', 'G': G, 'words': ws[:15]}
    # several right-hand sides of 10-16 symbols for one variable: the conversion runs out of capital letters while splitting them
    for i in range(4 if not thorough else 40):
        G, probes = gen.long_rhs_cfg(rng)
        if not thorough or ctx.mine(i):
            yield {'kind': 'any', 'G': G, 'words': probes}
    for i in range(12 if not thorough else 100):
        G = gen.doubling_cfg(rng)
        ws = [w for w in gen.all_words(G['Sigma'], 9) if len(w) >= 5]
        if not thorough or ctx.mine(i):
            yield {'kind': 'any', 'G': G, 'words': rng.sample(ws, 30) + [G['Sigma'][0] + G['Sigma'][1] * k for k in range(3, 9)] + [G['Sigma'][1] + G['Sigma'][0] * k for k in range(3, 9)]}
    for i in range(300 if not thorough else 4000):
        G = gen.random_cfg(rng, maxlen=3, multichar=rng.random() < 0.3)
        Sig = sorted(G['Sigma']) or ['a']
        ws = gen.all_words(Sig, 4 if len(Sig) <= 2 else 3)
        if len(ws) > 14:
            ws = ws[:4] + rng.sample(ws[4:], 10)
        if not thorough or ctx.mine(i):
            yield {'kind': 'any', 'G': G, 'words': ws}


def lean_requests(c):
    reqs = [{'op': 'cfg_is_chomsky', 'G': c['G']}]
    for w in c['words']:
        reqs.append({'op': 'cfg_accepts', 'G': c['G'], 'w': list(w)})
        if c['kind'] == 'cnf' and w:
            reqs.append({'op': 'cfg_cyk', 'G': c['G'], 'w': list(w)})
    return reqs


def rules_of(spec):
    return [(lhs, [(k, n) for k, n in rhs]) for lhs, _, rhs in spec['R']]


def judge(ctx, c, answers):
    G0 = c['G']
    G = enc.build_cfg(G0)
    before = enc.cfg_to_spec(G)
    rules = rules_of(G0)
    it = iter(answers)
    la = next(it)
    isc = call(G.is_chomsky)
    cnf_indep = all((len(r) == 0 and l == G0['S']) or (len(r) == 1 and r[0][0] == 't') or
                    (len(r) == 2 and r[0][0] == 'v' and r[1][0] == 'v' and G0['S'] not in (r[0][1], r[1][1])) for l, r in rules)
    if isc.get('ok') != cnf_indep:
        ctx.violation('is-chomsky', {'case': dict(c, words=[]), 'impl': isc, 'expected': cnf_indep})
    elif la.get('ok') != cnf_indep:
        ctx.violation('correspondence:cfg_is_chomsky', {'case': dict(c, words=[]), 'model': la}, no_input=True)
    res = []
    for w in c['words']:
        la = next(it)
        got = call(CA.cfg_accepts_word, G, w, limit=30)
        exp = oracles.cfg_accepts(rules, G0['S'], w)
        res.append(got.get('ok', 'ERR'))
        sub = dict(c, words=[w])
        if got != {'ok': exp}:
            ctx.violation('cfg-membership', {'case': sub, 'impl': got, 'expected': exp})
        elif la.get('ok') != exp:
            ctx.violation('correspondence:cfg_accepts', {'case': sub, 'impl': got, 'model': la}, no_input=True)
        ctx.count('member' if exp else 'non-member')
        if c['kind'] == 'cnf' and w:
            la = next(it)
            if not cnf_indep:
                continue
            got = call(CA.cfg_cyk_matrix, G, w)
            if 'ok' not in got:
                ctx.violation('cyk-raises', {'case': sub, 'impl': got})
                continue
            X = got['ok']
            T = oracles.cfg_spans(rules, w)
            n = len(w)
            model = {(i, j): set(v) for i, j, v in la.get('ok', [])}
            for i in range(n):
                for j in range(i, n):
                    cell = set(map(str, X[i, j])) if (i, j) in X else set()
                    expc = {A for A in G0['V'] if (A, i, j + 1) in T}
                    if cell != expc:
                        ctx.violation('cyk-cell', {'case': sub, 'cell': [i, j], 'impl': sorted(cell), 'expected': sorted(expc)})
                        break
                    if model.get((i, j), set()) != expc:
                        ctx.violation('correspondence:cfg_cyk', {'case': sub, 'cell': [i, j], 'model': sorted(model.get((i, j), [])), 'impl': sorted(cell)}, no_input=True)
                        break
            ctx.count('cyk-table')
    # the optional `verbose` parameter only prints: verdict and table must not depend on it
    import io, contextlib
    vw = [w for w in c['words'] if 3 <= len(w) <= 6][:3] + c['words'][:1]
    for w in vw:
        with contextlib.redirect_stdout(io.StringIO()):
            gv = call(CA.cfg_accepts_word, G, w, True, limit=30)
        exp = oracles.cfg_accepts(rules, G0['S'], w)
        if gv != {'ok': exp}:
            ctx.violation('cfg-membership(verbose)', {'case': dict(c, words=[w]), 'impl': gv, 'expected': exp})
            break
        if c['kind'] == 'cnf' and w and cnf_indep:
            with contextlib.redirect_stdout(io.StringIO()):
                gm = call(CA.cfg_cyk_matrix, G, w, True)
            if 'ok' in gm:
                T = oracles.cfg_spans(rules, w)
                X = gm['ok']
                wrong = [(i, j) for i in range(len(w)) for j in range(i, len(w))
                         if (set(map(str, X[i, j])) if (i, j) in X else set()) != {A for A in G0['V'] if (A, i, j + 1) in T}]
                if wrong:
                    ctx.violation('cyk-cell(verbose)', {'case': dict(c, words=[w]), 'cell': list(wrong[0])})
                    break
    ctx.count('verbose-compared')
    if enc.cfg_to_spec(G) != before:
        ctx.violation('argument-mutated', {'case': c})
    # history: a grammar with the SAME rule list but another start variable must be judged on its own
    for A in [v for v in G0['V'] if v != G0['S']][:2]:
        G2spec = dict(G0, S=A)
        G2 = enc.build_cfg(G2spec)
        for w in c['words'][:6]:
            got = call(CA.cfg_accepts_word, G2, w, limit=30)
            exp = oracles.cfg_accepts(rules, A, w)
            if got != {'ok': exp}:
                ctx.violation('cfg-membership-after-related-query', {'case': dict(c, G=G2spec, words=[w]), 'first_grammar': G0, 'impl': got, 'expected': exp})
    ctx.record('c07/' + core.digest(c), res)
    if c['kind'] == 'cnf':
        nt = any(len(r) == 2 for _, r in rules) and any(len(w) >= 2 for w in c['words'])
    else:
        nt = any(len(r) == 0 or (len(r) == 1 and r[0][0] == 'v') for _, r in rules)
    ctx.case({'G': G0, 'words': c['words'][:5], 'kind': c['kind']}, nt)


def run(ctx):
    core.run_cases(ctx, __import__('props.c07', fromlist=['x']), cases(ctx))
