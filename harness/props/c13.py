"""C13 — the library's own answers pass its checkers."""
import glob, json, os, re
import core
import exercises as EX

META = {
    'level': 'proof',
    'rule': 'for every exercise type: seeded random reference objects (DFAs, NFAs, non-degenerate simple-format grammars, CNF grammars '
            'with generated words) are written to scratch files; the answer key is produced by notebooks/make_notebook.py:apply_command '
            'exactly as the notebook generator does and handed to the matching check_* function; the verdict must be OK; additionally '
            'every code cell of the shipped notebooks/with-answers/*.ipynb that calls a checker is executed; non-trivial = reference with '
            '>=2 states / >=2 rules; distinct by (exercise, reference); also declared epsilon markers, DFAs with states start / accept, the answer-key printers compared with Gamba.Model.Keys, the whole text pipeline compared with Gamba.Model.CheckText; fixed witnesses of the recorded findings; CYK / derivation references with one variable renamed to a capital letter outside A-Z (judged on the code alone: the Lean text model is ASCII-only)',
    'assumptions': ['reference objects are valid; grammars non-degenerate (every variable derives a non-empty word)',
                    'known findings (see KNOWN_FINDINGS.json): dfa2regexp keys over non-letter alphabets, nfa2dfa keys for NFAs whose input '
                    'alphabet contains "_", Chomsky phase results needing more than 26 variables'],
    'trusted_base': ['Spec: Gamba/Spec/Check.lean'],
}


def cases(ctx):
    thorough = ctx.tier == 'thorough'
    rng = ctx.rng
    per = 30 if not thorough else 300
    for ex_i, ex in enumerate(EX.ALL):
        if not getattr(ex, 'in_c13', True):
            continue
        for i in range(per):
            inst = ex.instance(rng)
            if inst is None:
                continue
            if not thorough or ctx.mine(i):
                yield {'ex': ex_i, 'name': ex.name, 'inst': inst}
                if ex.name in ('cfg_cyk_matrix', 'cfg_leftmost_derivation', 'cfg_rightmost_derivation') and i % 5 == 0:
                    u = capital_outside_ascii(rng, inst)
                    if u is not None:
                        yield {'ex': ex_i, 'name': ex.name, 'inst': u}
    # fixed witnesses of the recorded (open) findings, so that each is exercised on every run
    names = [e.name for e in EX.ALL]
    yield {'ex': names.index('dfa2regexp'), 'name': 'dfa2regexp', 'inst': {'D': {'Q': ['q0', 'q1'], 'Sigma': ['0', '1'], 'q0': 'q0', 'F': ['q1'],
           'delta': [['q0', '0', 'q0'], ['q0', '1', 'q1'], ['q1', '0', 'q1'], ['q1', '1', 'q0']]}, 'len': 4}}
    yield {'ex': names.index('nfa2dfa'), 'name': 'nfa2dfa', 'inst': {'N': {'Q': ['q0', 'q1'], 'Sigma': ['a', '_'], 'q0': 'q0', 'F': ['q1'], 'eps': 'ε', 'dd': True,
           'delta': [['q0', 'a', ['q0', 'q1']], ['q0', '_', ['q1']], ['q1', 'ε', ['q0']]]}}}
    V = list('SABCDEFGHIJKLMNOPQRUVWX')
    big = {'V': V, 'Sigma': ['a', 'b'], 'S': 'S', 'R': [[A, i, [['t', 'a'], ['v', V[(i + 1) % len(V)]], ['t', 'b'], ['t', 'a']]] for i, A in enumerate(V)] +
           [[A, len(V) + i, [['t', 'b']]] for i, A in enumerate(V)]}
    yield {'ex': names.index('chomsky4'), 'name': 'chomsky4', 'inst': {'G': big, 'start': 'T', 'len': 2}}
    # (found by the proof of the text-level theorems in Gamba/Props/C13f.lean: the requested statements were refuted by these inputs)
    yield {'ex': names.index('dfa_reverse'), 'name': 'dfa_reverse', 'inst': {'D': {'Q': ['epsilon'], 'Sigma': ['a'], 'q0': 'epsilon', 'F': [],
           'delta': [['epsilon', 'a', 'epsilon']]}, 'len': 3}}
    yield {'ex': names.index('dfa_reverse'), 'name': 'dfa_reverse', 'inst': {'D': {'Q': ['p'], 'Sigma': ['ε'], 'q0': 'p', 'F': ['p'],
           'delta': [['p', 'ε', 'p']]}, 'len': 3}}
    g0 = {'V': ['S0'], 'Sigma': ['a'], 'S': 'S0', 'R': [['S0', 0, [['t', 'a']]]]}
    yield {'ex': names.index('cfg_cyk_matrix'), 'name': 'cfg_cyk_matrix', 'inst': {'G': g0, 'w': 'a'}}
    yield {'ex': names.index('cfg_leftmost_derivation'), 'name': 'cfg_leftmost_derivation', 'inst': {'G': g0, 'w': 'a'}}
    # (found by the proof of own_language_words_ok in Gamba/Props/C13h.lean: its side condition `Renderable` is necessary)
    yield {'ex': names.index('dfa_for_language'), 'name': 'dfa_for_language',
           'inst': {'X': {'Q': ['p', 'q'], 'Sigma': ['_'], 'q0': 'p', 'F': ['q'], 'delta': [['p', '_', 'q'], ['q', '_', 'q']]}, 'len': 2, 'max': 0}}
    yield {'ex': -1, 'name': 'shipped-notebooks', 'inst': {}}


def capital_outside_ascii(rng, inst):
    """the same grammar with one variable renamed to a capital letter outside A-Z (str.isupper() holds, so the simple grammar format, the
    CYK routines and the derivation checker all treat it as a variable).  The Lean text parsers classify ASCII letters only, so these cases
    are judged on the library alone (own answer handed to its checker; count `...:checked-on-code-only`)."""
    G = inst['G']
    free = [c for c in 'ΣΩΔΓΛΞΠΦΨÄÖÜÉÑЖ' if c not in G['V']]
    if not free or not G['V']:
        return None
    old, new = rng.choice(G['V']), rng.choice(free)
    ren = lambda x: new if x == old else x
    G2 = {'V': [ren(v) for v in G['V']], 'Sigma': list(G['Sigma']), 'S': ren(G['S']),
          'R': [[ren(l), i, [[k, ren(x) if k == 'v' else x] for k, x in r]] for l, i, r in G['R']]}
    out = dict(inst)
    out['G'] = G2
    out['uni'] = True
    return out


def own_answer(c):
    ex = EX.ALL[c['ex']]
    sc = EX.Scratch()
    try:
        return core.call(ex.own, c['inst'], sc)
    finally:
        sc.close()


def lean_requests(c):
    if c['ex'] < 0:
        return []
    ex = EX.ALL[c['ex']]
    own = own_answer(c)
    c['_own'] = own
    if 'ok' not in own:
        return []
    if c['inst'].get('uni'):
        c['_obj'] = c['_key'] = c['_text'] = False
        return []
    try:
        r = ex.lean(c['inst'], own['ok'])
    except Exception:
        r = None
    reqs = [r] if r is not None else []
    c['_obj'] = r is not None
    # the answer-key printers themselves (Gamba/Model/Keys.lean)
    c['_key'] = False
    if r is not None and c['name'] == 'cfg_cyk_matrix':
        reqs.append({'op': 'cfg_print_cyk', 'G': c['inst']['G'], 'w': list(c['inst']['w'])})
        c['_key'] = True
    elif r is not None and c['name'] in ('cfg_leftmost_derivation', 'cfg_rightmost_derivation'):
        reqs.append({'op': 'cfg_derivation_key', 'G': c['inst']['G'], 'w': list(c['inst']['w']), 'leftmost': 'leftmost' in c['name']})
        c['_key'] = True
    c['_text'] = False
    if hasattr(ex, 'text_lean'):
        reqs.append(ex.text_lean(c['inst'], own['ok']))       # the whole pipeline on text (Gamba/Model/CheckText.lean)
        c['_text'] = True
    return reqs


def finding_key(c, own):
    """known findings are identified by a predicate on the input (DESIGN.md section 7)"""
    inst = c['inst']
    if c['name'] == 'dfa2regexp' and any(not a.isalpha() for a in inst['D']['Sigma']):
        return 'dfa2regexp-nonletter-alphabet'
    if c['name'] == 'nfa2dfa' and '_' in inst['N']['Sigma']:
        return 'nfa2dfa-underscore-symbol'
    if c['name'] == 'dfa_reverse' and ('epsilon' in inst['D']['Q'] or 'ε' in inst['D']['Sigma']):
        return 'reverse-key-not-an-nfa-text'
    if c['name'] in ('cfg_cyk_matrix', 'cfg_leftmost_derivation', 'cfg_rightmost_derivation') and \
            any(len(v) != 1 or not v.isupper() for v in inst['G']['V']):
        return 'cfg-key-nonsimple-variable'
    if c['name'].endswith('_for_language') and isinstance(inst.get('X'), dict) and ({'_', 'ε'} & set(inst['X'].get('Sigma', []))):
        return 'language-words-underscore-or-epsilon-symbol'
    return None


def judge(ctx, c, answers):
    if c['ex'] < 0:
        return shipped(ctx)
    ex = EX.ALL[c['ex']]
    own = c.get('_own') or own_answer(c)
    sub = {'ex': c['ex'], 'name': c['name'], 'inst': c['inst']}
    if 'ok' not in own:
        if c['name'].startswith('chomsky') and 'not in simple format' in own.get('msg', ''):
            ctx.violation('own-answer-not-printable', {'case': sub, 'impl': own}, finding_key='chomsky-more-than-26-variables')
        else:
            ctx.violation('own-answer-raises', {'case': sub, 'impl': own}, finding_key=finding_key(c, own))
        return
    verdict, out = ex.check(c['inst'], own['ok'])
    if verdict != 'OK':
        ctx.violation('own-answer-rejected', {'case': sub, 'answer': own['ok'], 'verdict': verdict, 'out': out}, finding_key=finding_key(c, own))
    elif answers and c.get('_obj', True):
        la = answers[0]
        if la.get('ok') is not True:
            ctx.violation('correspondence:' + ex.name, {'case': sub, 'answer': own['ok'], 'impl': verdict, 'model': la}, no_input=True)
    if c.get('_key') and c.get('_obj') and len(answers) > 1 and answers[1].get('ok') != own['ok']:
        ctx.violation('correspondence:answer-key-printer(%s)' % ex.name, {'case': sub, 'impl': own['ok'], 'model': answers[1]}, no_input=True)
    if c.get('_text') and answers and verdict != 'RAISED' and (answers[-1].get('ok') == 'OK') != (verdict == 'OK'):
        ctx.violation('correspondence:text:' + ex.name, {'case': sub, 'answer': own['ok'], 'impl': verdict, 'model': answers[-1]}, no_input=True)
    ctx.count('%s:%s' % (ex.name, verdict))
    if c['inst'].get('uni'):
        ctx.count('%s:capital-outside-A-Z:checked-on-code-only' % ex.name)
    ctx.record('c13/' + core.digest(sub), verdict)
    ctx.case({'name': c['name'], 'inst': c['inst']}, True)


def shipped(ctx):
    """run the checker cells of the shipped notebooks with answers"""
    import nbformat_lite
    nbdir = os.path.join(core.REPO, 'notebooks', 'with-answers')
    for path in sorted(glob.glob(os.path.join(nbdir, '*.ipynb'))):
        verdicts = nbformat_lite.run_notebook(path)
        for cell_no, verdict, out in verdicts:
            ctx.count('shipped:%s' % verdict)
            if verdict != 'OK':
                ctx.violation('shipped-notebook-answer-rejected', {'case': {'ex': -1, 'name': 'shipped-notebooks', 'inst': {}},
                                                                    'notebook': os.path.basename(path), 'cell': cell_no, 'out': out[:300]})
        ctx.case({'notebook': os.path.basename(path), 'cells': len(verdicts)}, True)


def run(ctx):
    core.run_cases(ctx, __import__('props.c13', fromlist=['x']), cases(ctx), chunk=80)
