"""C09 — PDA acceptance: always sound, complete below the epsilon-closure limit."""
import core, enc, gen, oracles
from core import call
from gambatools import pda_algorithms as PA
from gambatools.global_settings import GambaTools

META = {
    'level': 'proof',
    'rule': 'seeded random PDAs (1-3 states, <=6 transitions, epsilon moves, replace and no-op transitions, stack-growing and '
            'non-growing epsilon cycles) x all words <=3 x closure limits {0,1,2,5,40}; verdict compared with the exact '
            'summary-saturation oracle (soundness always; equality when no closure is truncated) and with the Lean model; '
            'non-trivial = PDA with an epsilon move and a stack operation, word non-empty; distinct by (PDA, word, limit); also PDAs with epsilon loops that push (infinite closures) or pop (drain loops), automata produced by pda_to_accept_on_empty_stack, ambiguous multi-character stack symbols, in-place-edit history; epsilon chains with idle self-loops and back edges whose closure has exactly as many configurations as the limit allows (limits L-1, L, L+1); words of length 10-20 whose acceptance needs an epsilon drain of the whole stack; a^n b^n with small limits (stack height above the limit, closures below it)',
    'assumptions': ['PDA.valid (constructor); delta is a dict (unique keys)'],
    'trusted_base': ['Spec: Gamba/Spec/PDA.lean (Move, Run, Accepts, EpsReach)'],
}
LIMITS = [0, 1, 2, 5, 40]


def chain_pda(L):
    """an epsilon chain of L push/pop moves followed by an accepting a-move: the initial closure has L+1 configurations"""
    Q = ['c%d' % i for i in range(L + 1)] + ['f']
    delta = [['c%d' % i, '_', '_' if i % 2 == 0 else 'x', [['c%d' % (i + 1), 'x' if i % 2 == 0 else '_']]] for i in range(L)]
    delta.append(['c%d' % L, 'a', '_', [['f', '_']]])
    return {'Q': Q, 'Sigma': ['a'], 'Gamma': ['x'], 'delta': delta, 'q0': 'c0', 'F': ['f'], 'eps': '_', 'dd': True}


def cyclic_chain_pda(rng):
    """an epsilon chain of L states with stack-neutral epsilon cycles on the way (idle self-loops, back edges, push-then-pop detours are
    NOT used: the closure stays finite), accepting at its end either directly or after reading 'a'.  The closure of the initial
    configuration has exactly L configurations, so a limit of L (or L + 1) is enough -- but only if no iteration is wasted."""
    L = rng.randint(2, 9)
    eps = rng.choice(['_', 'ε'])
    Q = ['k%d' % i for i in range(L)]
    rows = {}
    for i in range(L - 1):
        rows.setdefault((Q[i], eps, eps), []).append([Q[i + 1], eps])
    for i in range(L):
        r = rng.random()
        if r < 0.5:
            rows.setdefault((Q[i], eps, eps), []).append([Q[i], eps])                       # idle self-loop
        elif r < 0.75 and i > 0:
            rows.setdefault((Q[i], eps, eps), []).append([Q[rng.randrange(i)], eps])        # back edge
    delta = [[p, a, u, T] for (p, a, u), T in rows.items()]
    if rng.random() < 0.5:
        F = [Q[-1]]
        words = ['', 'a']
    else:
        Q.append('fin')
        delta.append([Q[-2], 'a', eps, [['fin', eps]]])
        F = ['fin']
        words = ['a', '', 'aa']
    rng.shuffle(delta)
    P = {'Q': Q, 'Sigma': ['a'], 'Gamma': ['x'], 'delta': delta, 'q0': Q[0], 'F': F, 'eps': eps, 'dd': True}
    return P, words, sorted({L, L + 1, max(L - 1, 0)})


def anbn_pda(rng):
    """a^n b^n with an epsilon 'guess the middle' move: every closure has at most 3-4 configurations, but the stack grows to n"""
    eps = rng.choice(['_', 'ε'])
    delta = [['i', eps, eps, [['p', '$']]], ['p', 'a', eps, [['p', 'x']]], ['p', eps, eps, [['q', eps]]],
             ['q', 'b', 'x', [['q', eps]]], ['q', eps, '$', [['f', eps]]]]
    rng.shuffle(delta)
    P = {'Q': ['i', 'p', 'q', 'f'], 'Sigma': ['a', 'b'], 'Gamma': ['x', '$'], 'delta': delta, 'q0': 'i', 'F': ['f'], 'eps': eps, 'dd': True}
    ns = rng.sample([3, 4, 5, 6, 8], 3)
    return P, ['a' * n + 'b' * n for n in ns] + ['a' * ns[0] + 'b' * (ns[0] + 1)], [4, 5, 7]


def cases(ctx):
    thorough = ctx.tier == 'thorough'
    rng = ctx.rng
    # the limit must be honoured whatever value it is set to, also above the default of 1000
    yield {'P': chain_pda(1100), 'words': ['a'], 'limits': [1300, 1000]}
    yield {'P': chain_pda(1100), 'words': ['a'], 'limits': [1300.0, 2.5e3], 'no_edit': True}        # the limit need not be an int
    for i in range(60 if not thorough else 600):
        P, ws, lims = cyclic_chain_pda(rng)
        if not thorough or ctx.mine(i):
            yield {'P': P, 'words': ws, 'limits': lims}
    for i in range(6 if not thorough else 60):          # the stack grows far beyond the limit while every closure stays tiny
        P, ws, lims = anbn_pda(rng)
        if not thorough or ctx.mine(i):
            yield {'P': P, 'words': ws, 'limits': lims, 'no_edit': True}
    for i in range(10 if not thorough else 100):        # long words: epsilon drain of a stack of 10-20 symbols
        P, ws = gen.deep_drain_pda(rng)
        if not thorough or ctx.mine(i):
            yield {'P': P, 'words': ws, 'limits': [40, 1000], 'no_edit': True}
    for i in range(700 if not thorough else 6000):
        P = gen.ambiguous_stack_pda(rng) if i % 20 == 3 else gen.push_loop_pda(rng) if i % 20 == 11 else \
            gen.pop_loop_pda(rng) if i % 20 == 15 else gen.random_pda(rng)
        if i % 20 == 18:        # the output of a library normal form (drain state with popping epsilon self-loops) as input
            try:
                P = dict(enc.canon_pda(PA.pda_to_accept_on_empty_stack(enc.build_pda(P)), False), dd=True)
            except Exception:
                pass
        if i % 20 == 6 and P['eps'] in ('_', '') and P['Gamma'] and 'ε' not in P['Gamma'] and 'ε' not in P['Sigma']:
            g0 = P['Gamma'][0]         # 'ε' as an ORDINARY stack symbol of a PDA whose empty-word symbol is another one
            f = lambda x: 'ε' if x == g0 else x
            P = dict(P, Gamma=[f(g) for g in P['Gamma']], delta=[[p, a, f(u), [[q, f(v)] for q, v in T]] for p, a, u, T in P['delta']])
        ws = gen.all_words(P['Sigma'], 3 if len(P['Sigma']) <= 2 else 2)
        if len(ws) > 7:
            ws = ws[:3] + rng.sample(ws[3:], 4)
        if not thorough or ctx.mine(i):
            yield {'P': P, 'words': ws, 'limits': [40] + rng.sample(LIMITS[:4], 2)}


def lean_requests(c):
    reqs = []
    for lim in c['limits']:
        for w in c['words']:
            reqs.append({'op': 'pda_accepts', 'P': c['P'], 'w': list(w), 'limit': int(lim), 'sched': c.get('sched', [])})
    return reqs


def exact_run(P, w, limit):
    """exact configuration sets along w when every closure has at most `limit` configurations; None if one is larger
    (the Python loop pops one configuration per iteration: it completes iff |closure| <= limit)"""
    R, ok = oracles.pda_eps_closure(P, {(P.q0, ())}, limit)
    if not ok:
        return None
    for a in w:
        R, ok = oracles.pda_eps_closure(P, oracles.pda_step(P, a, R), limit)
        if not ok:
            return None
    return R


def judge(ctx, c, answers):
    P = enc.build_pda(c['P'])
    before = enc.canon_pda(P, drop_empty=False)
    it = iter(answers)
    res = []
    old = GambaTools.pda_epsilon_closure_max_iterations
    truth = {w: oracles.pda_accepts(P, w) for w in c['words']}
    try:
        for lim in c['limits']:
            GambaTools.pda_epsilon_closure_max_iterations = lim
            for w in c['words']:
                la = next(it)
                got = call(PA.pda_accepts_word, P, w, limit=20)
                sub = dict(c, words=[w], limits=[lim])
                exp = truth[w]
                if 'ok' not in got:
                    ctx.violation('pda-accepts-raises', {'case': sub, 'impl': got})
                    continue
                v = got['ok']
                if v and not exp:
                    ctx.violation('pda-unsound', {'case': sub, 'impl': v, 'exact': exp})
                R = exact_run(P, w, lim)
                m = la.get('ok', {})
                if R is not None:
                    res.append(v)          # answers under a truncated closure may depend on the pop order: not compared across hash seeds
                    ctx.count('untruncated')
                    full = any(q in P.F for q, _ in R)
                    if full != exp:
                        ctx.harness_errors = getattr(ctx, 'harness_errors', []) + [{'case': sub, 'error': 'oracles disagree'}]
                    if v != exp:
                        ctx.violation('pda-incomplete-below-limit', {'case': sub, 'impl': v, 'exact': exp})
                    elif m.get('accepts') != v or m.get('truncated') is not False:
                        ctx.violation('correspondence:pda_accepts', {'case': sub, 'impl': v, 'model': la}, no_input=True)
                else:
                    ctx.count('truncated')
                    if m.get('truncated') is not True:
                        ctx.violation('correspondence:pda_accepts(truncation flag)', {'case': sub, 'impl': v, 'model': la}, no_input=True)
                    if m.get('accepts') and not exp:
                        ctx.violation('model-unsound', {'case': sub, 'model': la}, no_input=True)
                ctx.count('accept' if exp else 'reject')
    finally:
        GambaTools.pda_epsilon_closure_max_iterations = old
    if enc.canon_pda(P, drop_empty=False) != before:
        ctx.violation('argument-mutated', {'case': c})
    if c['P']['delta'] and len(c['words']) <= 16 and not c.get('no_edit'):
        # history: the same PDA object after a legal in-place edit of its transition table must answer like a fresh equal object
        import copy, random
        r = random.Random(core.digest(c['P']))
        spec2 = copy.deepcopy(c['P'])
        k = r.randrange(len(spec2['delta']))
        p_, a_, u_, T_ = spec2['delta'].pop(k)
        del P.delta[p_, a_, u_]
        P2 = enc.build_pda(spec2)
        GambaTools.pda_epsilon_closure_max_iterations = 40
        try:
            for w in c['words']:
                if exact_run(P2, w, 40) is None:
                    continue
                g1 = call(PA.pda_accepts_word, P, w, limit=20)
                exp = oracles.pda_accepts(P2, w)
                if g1.get('ok') != exp:
                    ctx.violation('stale-result-after-argument-edit', {'case': dict(c, words=[w], limits=[40]), 'removed': [p_, a_, u_, T_],
                                                                       'on_edited_object': g1, 'exact': exp})
        finally:
            GambaTools.pda_epsilon_closure_max_iterations = old
        ctx.count('edit-history')
    ctx.record('pda/' + core.digest(c), res)
    eps = c['P']['eps']
    nt = any(a == eps for _, a, _, _ in c['P']['delta']) and any(u != eps or any(v != eps for _, v in T) for _, _, u, T in c['P']['delta'])
    ctx.case({'P': c['P'], 'words': c['words'][:4], 'limits': c['limits']}, nt and any(c['words']))


def run(ctx):
    core.run_cases(ctx, __import__('props.c09', fromlist=['x']), cases(ctx))
