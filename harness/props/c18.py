"""C18 — NFA union, concatenation and star are correct for arbitrary operands."""
import core, enc, gen, oracles
from core import call
from gambatools import nfa_algorithms as NA
from gambatools.identifier_generator import IdentifierGenerator

META = {
    'level': 'proof',
    'rule': 'seeded random pairs of NFAs with disjoint state sets (any naming scheme incl. names q0,q1,... that collide with '
            'generated names; epsilon in {"", "_", "ε", "e"}; equal or different epsilon symbols; plain dict / defaultdict), '
            'called after a random number of earlier calls (default generator state) or with an explicit generator; result compared '
            'with the Lean model (exact) and checked directly: valid NFA, new state not an operand state, language = union / '
            'concatenation / star on all words <=4 (union: exact product BFS), operands untouched; non-trivial = both operands accept '
            'some non-empty word; distinct by content; also operands with different epsilon symbols (second operand\'s epsilon an ordinary symbol of the first; first operand\'s epsilon an input symbol of the second must be rejected)',
    'assumptions': ['operand state sets disjoint; NFA.valid operands; delta is a dict (unique keys)'],
    'trusted_base': ['Spec: Gamba/Spec/Automata.lean'],
}


def cases(ctx):
    thorough = ctx.tier == 'thorough'
    rng = ctx.rng
    for i in range(500 if not thorough else 6000):
        Sig = rng.choice([['a', 'b'], ['a'], ['a', 'b', 'c']])
        eps = rng.choice(gen.EPSILONS)
        N1 = gen.random_nfa(rng, 4, Sig, eps, live=rng.random() < 0.7)
        r = rng.random()
        eps2 = N1['eps'] if r < 0.85 else rng.choice(gen.EPSILONS)
        N2 = gen.random_nfa(rng, 4, rng.choice([Sig, Sig, ['a', 'b']]), eps2, prefix=rng.choice(['p', 'r_', 'x']), live=rng.random() < 0.7)
        if rng.random() < 0.4:      # the operand with generator-like names q0, q1, ... may be either one
            N1, N2 = dict(N2, eps=N1['eps'], delta=[[q, N1['eps'] if a == N2['eps'] else a, T] for q, a, T in N2['delta']]), \
                dict(N1, eps=N2['eps'], delta=[[q, N2['eps'] if a == N1['eps'] else a, T] for q, a, T in N1['delta']])
            if N1['eps'] in N1['Sigma'] or N2['eps'] in N2['Sigma']:
                continue
        if i % 12 == 5:     # the SECOND operand's epsilon is an ordinary input symbol of the first one
            e2 = rng.choice(['_', 'e'])
            N1 = gen.random_nfa(rng, 4, ['a', e2], 'ε', live=True)
            N2 = gen.random_nfa(rng, 4, ['a', 'b'], e2, prefix='p', live=True)
        if set(N1['Q']) & set(N2['Q']):
            continue
        if i % 15 == 7:     # 11-12 numbered states q0 .. q11 in the first operand
            N1 = gen.numbered_nfa(rng)
            N2 = gen.random_nfa(rng, 3, ['a', 'b'], N1['eps'], prefix='p', live=True)
        if i % 9 == 4:      # immutable containers (frozenset) in the fields of an operand
            k = rng.choice([0, 1, 2])
            if k in (0, 2):
                N1 = dict(N1, frozen='all')
            if k in (1, 2):
                N2 = dict(N2, frozen=rng.choice(['all', 'delta']))
        if not thorough or ctx.mine(i):
            yield {'N1': N1, 'N2': N2, 'warm': rng.randint(0, 6), 'explicit': rng.choice([None, None, 0, 1, 5])}


def lean_requests(c):
    # the counter values are only known after running the implementation; they are recomputed deterministically here
    cu, cr = counters(c)
    return [{'op': 'nfa_union', 'N1': c['N1'], 'N2': c['N2'], 'counter': cu},
            {'op': 'nfa_concat', 'N1': c['N1'], 'N2': c['N2']},
            {'op': 'nfa_repetition', 'N': c['N1'], 'counter': cr}]


def counters(c):
    if c['explicit'] is not None:
        return c['explicit'], c['explicit']
    return c['warm'], c['warm']


def set_default_generators(n):
    """put the two default IdentifierGenerators (mutable default arguments) into the state reached after n earlier calls"""
    NA.nfa_union.__defaults__[0].index = n
    NA.nfa_repetition.__defaults__[0].index = n


def accepts_concat(N1, N2, w):
    return any(oracles.nfa_accepts(N1, w[:k]) and oracles.nfa_accepts(N2, w[k:]) for k in range(len(w) + 1))


def accepts_star(N, w):
    ok = [False] * (len(w) + 1)
    ok[0] = True
    for j in range(1, len(w) + 1):
        ok[j] = any(ok[i] and oracles.nfa_accepts(N, w[i:j]) for i in range(j))
    return ok[len(w)]


def judge(ctx, c, answers):
    N1, N2 = enc.build_nfa(c['N1']), enc.build_nfa(c['N2'])
    b1 = (enc.canon_nfa(N1, False), str(N1))
    b2 = (enc.canon_nfa(N2, False), str(N2))
    same_eps = c['N1']['eps'] == c['N2']['eps']
    Sig = sorted(set(N1.Sigma) | set(N2.Sigma))
    words = gen.all_words(Sig, 4 if len(Sig) <= 2 else 3)
    set_default_generators(c['warm'])
    res = []
    # representable? (result epsilon = N1.epsilon must not be an input symbol of N2, and N2.epsilon must not be one of N1 when re-keyed)
    # (theorems nfa_union_spec_eps / nfa_concat_spec_eps: only N1.epsilon must not be an input symbol of N2; nfa_*_eps_clash otherwise)
    representable = same_eps or c['N1']['eps'] not in N2.Sigma
    for name, la, f, args, ref in (
            ('nfa_union', answers[0], NA.nfa_union, (N1, N2), lambda w: oracles.nfa_accepts(N1, w) or oracles.nfa_accepts(N2, w)),
            ('nfa_concatenation', answers[1], NA.nfa_concatenation, (N1, N2), lambda w: accepts_concat(N1, N2, w)),
            ('nfa_repetition', answers[2], NA.nfa_repetition, (N1,), lambda w: accepts_star(N1, w))):
        if name != 'nfa_concatenation' and c['explicit'] is not None:
            got = call(f, *args, IdentifierGenerator(c['explicit']))
        else:
            got = call(f, *args)
        two = name != 'nfa_repetition'
        if two and not representable:
            ctx.count('not-representable')
            if 'ok' in got:
                ctx.violation(name, {'case': c, 'problems': ['the result epsilon is an input symbol of the second operand, yet an NFA was returned'],
                                     'impl': enc.canon_nfa(got['ok'])})
            elif 'err' not in la:
                ctx.violation('correspondence:' + name, {'case': c, 'impl': got, 'model': la}, no_input=True)
            continue
        if 'ok' not in got:
            ctx.violation(name + '-raises', {'case': c, 'impl': got})
            continue
        N = got['ok']
        cn = enc.canon_nfa(N)
        res.append(cn)
        problems = []
        if not oracles.nfa_valid(N):
            problems.append('invalid NFA')
        new = set(N.Q) - set(N1.Q) - (set(N2.Q) if two else set())
        if name != 'nfa_concatenation' and (len(new) != 1 or N.q0 not in new):
            problems.append('introduced state is not new')
        if N.epsilon != N1.epsilon:
            problems.append('epsilon symbol changed')
        bad = None
        if not problems:
            for w in words:
                if oracles.nfa_accepts(N, w) != ref(w):
                    bad = w
                    break
        if problems or bad is not None:
            ctx.violation(name, {'case': c, 'problems': problems, 'word': bad, 'impl': cn})
        if True:
            if 'ok' not in la or enc.canon_nfa_spec(la['ok']) != cn:
                ctx.violation('correspondence:' + name, {'case': c, 'impl': cn, 'model': la}, no_input=not (problems or bad))
        ctx.count(name)
    if (enc.canon_nfa(N1, False), str(N1)) != b1 or (enc.canon_nfa(N2, False), str(N2)) != b2:
        ctx.violation('argument-mutated', {'case': c})
    ctx.record('c18/' + core.digest(c), res)
    nt = any(w and oracles.nfa_accepts(N1, w) for w in words) and any(w and oracles.nfa_accepts(N2, w) for w in words)
    ctx.case(c, nt)


def run(ctx):
    core.run_cases(ctx, __import__('props.c18', fromlist=['x']), cases(ctx))
