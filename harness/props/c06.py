"""C06 — regexp-to-NFA and DFA-to-regexp conversions preserve the language exactly."""
import core, enc, gen, oracles
from core import call
from gambatools import regexp_algorithms as RA
from gambatools.nfa_algorithms import nfa_to_dfa

META = {
    'level': 'proof',
    'rule': 'regexp->NFA: all trees with <=2 (3) operators over {a,b} and random trees of size <=10; result compared with the Lean model '
            '(exact, generated names included) and checked directly: valid NFA, language = derivative-oracle language (exact, product BFS '
            'of the NFA against the derivative automaton of the expression). DFA->regexp: all DFAs with <=2 states over {a,b}, random '
            'DFAs with 1-5 states (states named start/accept included); the model is run with the elimination order the implementation '
            'used; the extracted expression is checked against the DFA by exact product BFS (derivative automaton), under 2-8 hash '
            'seeds (= elimination orders); non-trivial = expression with a star / DFA with >=2 reachable states and a cycle; distinct by content; also DFAs whose states are called start / accept / start1 / accept1 / wait; on a mismatch with the model for the observed elimination order every permutation of the states is tried (the theorem covers every order)',
    'assumptions': ['single-character symbols; DFA.valid'],
    'trusted_base': ['Spec: Gamba/Spec/Regexp.lean, Gamba/Spec/Automata.lean'],
}


class RxDet:
    """deterministic view of a regexp spec via Brzozowski derivatives (normalised by rx_mk_*)"""
    def __init__(self, r):
        self.start = canon(r)

    def step(self, s, a):
        return canon(oracles.rx_deriv(decanon(s), a))

    def final(self, s):
        return oracles.rx_nullable(decanon(s))


def canon(r):
    """ACI-normal form of sums so that the derivative automaton is finite"""
    t = r[0]
    if t in ('zero', 'one', 'sym'):
        return tuple(r)
    if t == 'star':
        return ('star', canon(r[1]))
    if t == 'cat':
        return ('cat', canon(r[1]), canon(r[2]))
    parts = set()

    def flat(x):
        if x[0] == 'sum':
            flat(x[1])
            flat(x[2])
        else:
            c = canon(x)
            if c != ('zero',):
                parts.add(c)
    flat(r)
    if not parts:
        return ('zero',)
    ps = sorted(parts, key=repr)
    out = ps[0]
    for p in ps[1:]:
        out = ('sum', out, p)
    return out


def decanon(t):
    return [t[0]] + [decanon(x) if isinstance(x, tuple) else x for x in t[1:]]


def rx_vs_automaton(r, A, Sigma, cap=4000):
    """shortest word on which regexp r and automaton A differ, None if equivalent; 'CAP' if the search was cut"""
    from collections import deque
    rd, ad = RxDet(r), oracles.Det(A)
    start = (rd.start, ad.start)
    seen = {start: ''}
    todo = deque([start])
    while todo:
        s = todo.popleft()
        if rd.final(s[0]) != ad.final(s[1]):
            return seen[s]
        if len(seen) > cap:
            return 'CAP'
        for a in sorted(Sigma):
            t = (rd.step(s[0], a), ad.step(s[1], a))
            if t not in seen:
                seen[t] = seen[s] + a
                todo.append(t)
    return None


def cases(ctx):
    thorough = ctx.tier == 'thorough'
    Sig = ['a', 'b']
    i = 0
    for k in range(0, 4 if thorough else 3):
        for r in gen.regexps_of_size(k, Sig):
            i += 1
            if k < 3 or ctx.mine(i):
                yield {'kind': 'r2n', 'r': r}
    rng = ctx.rng
    for i in range(400 if not thorough else 5000):
        Sg = rng.choice([['a', 'b'], ['a'], ['a', 'b', 'c']])
        if not thorough or ctx.mine(i):
            yield {'kind': 'r2n', 'r': gen.random_regexp(rng, rng.randint(2, 10), Sg)}
        else:
            gen.random_regexp(rng, rng.randint(2, 10), Sg)
    for i in range(60 if not thorough else 600):     # same operands under different operators / in exchanged order, side by side
        x = gen.random_regexp(rng, rng.randint(0, 2), ['a', 'b'])
        y = gen.random_regexp(rng, rng.randint(0, 2), ['a', 'b'])
        z = gen.random_regexp(rng, 1, ['a', 'b', 'c'])
        r = rng.choice([['sum', ['sum', x, y], ['cat', x, y]], ['sum', ['cat', x, ['star', y]], ['sum', x, ['star', y]]],
                        ['star', ['sum', ['cat', ['sum', x, y], z], ['cat', ['cat', x, y], z]]], ['sum', ['cat', x, y], ['cat', y, x]]])
        yield {'kind': 'r2n', 'r': r}
    # operands whose start state is already accepting, under every operator and on either side (nested stars, 1 + x, x*.y, 1 + x*.y ...)
    for i in range(120 if not thorough else 1200):
        a, b = ['sym', 'a'], ['sym', 'b']
        nul = rng.choice([['star', a], ['star', ['star', a]], ['sum', ['one'], a], ['sum', a, ['one']], ['one'], ['star', ['sum', ['one'], a]],
                          ['star', gen.random_regexp(rng, 1, ['a', 'b'])], ['cat', ['star', a], ['star', b]]])
        y = rng.choice([b, ['cat', b, a], gen.random_regexp(rng, rng.randint(0, 2), ['a', 'b'])])
        inner = rng.choice([['cat', ['star', nul], y], ['cat', nul, y], ['cat', y, ['star', nul]], ['star', nul], ['cat', ['star', nul], ['star', y]]])
        r = rng.choice([['sum', ['one'], inner], ['sum', inner, ['one']], ['star', ['sum', ['one'], inner]], ['cat', ['sum', ['one'], inner], y],
                        ['sum', ['zero'], inner], inner])
        if not thorough or ctx.mine(i):
            yield {'kind': 'r2n', 'r': r}
    for n, Sg in ((1, ['a']), (2, ['a']), (2, ['a', 'b']), (1, ['0', '1']), (2, ['1'])):
        for s in gen.exhaustive_dfas(n, Sg):
            yield {'kind': 'd2r', 'D': s}
    for i in range(250 if not thorough else 3000):
        s = gen.random_dfa(rng, 5, rng.choice([['a', 'b'], ['a'], ['a', 'b', 'c'], ['0', '1']]),
                           (lambda j: ['start', 'accept', 'start1', 'accept1', 'q'][j]) if i % 6 == 1 else
                           (lambda j: ['accept', 'wait', 'accept1', 'q', 'r'][j]) if i % 6 == 4 else None)
        if not thorough or ctx.mine(i):
            yield {'kind': 'd2r', 'D': s}


def impl_d2r(c):
    """run dfa_to_gnfa + gnfa_minimize, recording the elimination order actually used"""
    D = enc.build_dfa(c['D'])
    G = RA.dfa_to_gnfa(D)
    order = list(G.Q - {G.q_start, G.q_accept})
    RA.gnfa_minimize(G)
    return D, order, G.delta[G.q_start, G.q_accept]


def lean_requests(c):
    if c['kind'] == 'r2n':
        return [{'op': 'regexp_to_nfa', 'r': c['r']}]
    got = call(impl_d2r, c)
    c['_impl'] = got
    order = got['ok'][1] if 'ok' in got else list(c['D']['Q'])
    return [{'op': 'dfa_to_regexp', 'D': c['D'], 'order': order}]


def judge(ctx, c, answers):
    la = answers[0]
    if c['kind'] == 'r2n':
        r = enc.build_regexp(c['r'])
        got = call(RA.regexp_to_nfa, r)
        sub = {'kind': 'r2n', 'r': c['r']}
        if 'ok' not in got:
            ctx.violation('regexp_to_nfa-raises', {'case': sub, 'impl': got})
            return
        N = got['ok']
        cn = enc.canon_nfa(N)
        bad = None
        if not oracles.nfa_valid(N):
            ctx.violation('regexp_to_nfa-invalid', {'case': sub, 'impl': cn})
            bad = 'invalid'
        else:
            Sig = sorted(set(N.Sigma) | oracles.rx_symbols(c['r']))
            bad = rx_vs_automaton(c['r'], N, Sig)
            if bad == 'CAP':
                bad = None
                ctx.count('cap')
            if bad is not None:
                ctx.violation('regexp_to_nfa-language', {'case': sub, 'word': bad, 'impl': cn})
        if enc.regexp_to_spec(r) != c['r']:
            ctx.violation('argument-mutated', {'case': sub})
        # reading a missing transition of the result (N.delta[q, a], as the library's own checkers do) yields the empty set
        import copy
        N2 = copy.deepcopy(N)
        keys = set(N2.delta.keys())
        try:
            wrong = [(q, a) for q in sorted(N2.Q) for a in sorted(N2.Sigma) + [N2.epsilon] if (q, a) not in keys and len(N2.delta[q, a]) > 0]
        except KeyError:
            wrong = []
        if wrong:
            ctx.violation('regexp_to_nfa-missing-transition-not-empty', {'case': sub, 'key': list(wrong[0])})
        if 'ok' not in la or enc.canon_nfa_spec(la['ok']) != cn:
            ctx.violation('correspondence:regexp_to_nfa', {'case': sub, 'impl': cn, 'model': la}, no_input=bad is None)
        ctx.record('r2n/' + core.digest(c['r']), cn)
        ctx.case(sub, 'star' in repr(c['r']))
        return
    sub = {'kind': 'd2r', 'D': c['D']}
    got = c.get('_impl') or call(impl_d2r, c)
    if 'ok' not in got:
        ctx.violation('dfa_to_regexp-raises', {'case': sub, 'impl': got})
        return
    D, order, rx = got['ok']
    before = enc.canon_dfa(D)
    spec = enc.regexp_to_spec(rx)
    bad = rx_vs_automaton(spec, D, D.Sigma)
    if bad == 'CAP':
        ctx.count('cap')
        bad = None
        for w in gen.all_words(D.Sigma, 5 if len(D.Sigma) <= 2 else 4):
            if oracles.rx_matches(spec, w) != oracles.dfa_accepts(D, w):
                bad = w
                break
    if bad is not None:
        ctx.violation('dfa_to_regexp-language', {'case': sub, 'word': bad, 'order': order, 'impl': spec})
    # the public entry point, possibly with another elimination order
    g2 = call(RA.dfa_to_regexp, D, limit=20)
    if 'ok' not in g2:
        ctx.violation('dfa_to_regexp-raises', {'case': sub, 'impl': g2})
    else:
        s2 = enc.regexp_to_spec(g2['ok'])
        if s2 != spec:
            b2 = rx_vs_automaton(s2, D, D.Sigma)
            if b2 not in (None, 'CAP'):
                ctx.violation('dfa_to_regexp-language', {'case': sub, 'word': b2, 'impl': s2})
    if la.get('ok') != spec:
        # the implementation may rip the states in another order than the one read off `G.Q` (e.g. a sorted order); the theorem
        # `toRegexp_lang` covers EVERY elimination order, so the tie only requires the result to be the model's for SOME order
        import itertools
        perms = list(itertools.permutations(c['D']['Q']))
        if len(perms) > 720:
            perms = perms[:720]
        alt = ctx.lean.batch([{'op': 'dfa_to_regexp', 'D': c['D'], 'order': list(p)} for p in perms])
        if any(a.get('ok') == spec for a in alt):
            ctx.count('d2r:other-elimination-order')
        else:
            ctx.violation('correspondence:dfa_to_regexp', {'case': sub, 'order': order, 'impl': spec, 'model': la}, no_input=bad is None)
    if enc.canon_dfa(D) != before:
        ctx.violation('argument-mutated', {'case': sub})
    # language-level result must not depend on the order (hash seed): record a bounded language fingerprint
    fp = [w for w in gen.all_words(D.Sigma, 4 if len(D.Sigma) <= 2 else 3) if oracles.rx_matches(spec, w)]
    ctx.record('d2r/' + core.digest(c['D']), fp)
    ctx.count('d2r:states=%d' % len(D.Q))
    ctx.case(sub, len(oracles.reachable(D)) >= 2)


def run(ctx):
    core.run_cases(ctx, __import__('props.c06', fromlist=['x']), cases(ctx))
