"""C15 — simulation traces and derivations are genuine witnesses and are always produced."""
import core, enc, gen, oracles
from core import call
from gambatools.dfa_algorithms import dfa_simulate_word
from gambatools.nfa_algorithms import nfa_simulate_word
from gambatools.pda_algorithms import pda_simulate_word
from gambatools.cfg_algorithms import cfg_derive_word
from gambatools.cfg import Variable
from gambatools.global_settings import GambaTools

META = {
    'level': 'proof',
    'rule': 'DFA/NFA/PDA: seeded random automata (epsilon self-loops and cycles forced) x all words <=3; every returned trace is '
            'validated by an independent checker (starts (q0, w[, empty stack]); each row follows from the previous one by an epsilon or '
            'symbol move of the automaton, input shrinking from the front; ends accepting with nothing unread); None iff rejected (exact '
            'oracles); 5 s alarm per call (hang = violation); run under 2-8 hash seeds. CNF grammars x generated words: leftmost and '
            'rightmost derivations validated step by step and compared exactly with the Lean model. The Lean models of the simulators are '
            'run under random schedulers and their traces validated by the same checker; non-trivial = accepted non-empty word whose '
            'trace uses an epsilon move / derivation of >=3 steps; distinct by (object, word); also PDAs with epsilon push loops next to an epsilon branch, ambiguous stack symbols; a run not produced within 5 s and again 10 s for a word the acceptance test accepts at once is a violation; one NFA whose accepting run has more than a thousand consecutive epsilon steps',
    'assumptions': ['valid objects; CFGs in CNF with terminals/variables disjoint'],
    'trusted_base': ['Spec: Gamba/Spec/Automata.lean, PDA.lean, CFG.lean'],
}


def cases(ctx):
    thorough = ctx.tier == 'thorough'
    rng = ctx.rng
    K = 1 if not thorough else 10
    for i in range(250 * K):
        yield {'kind': 'dfa', 'X': gen.random_dfa(rng, 5, rng.choice([['a', 'b'], ['a']])), 'n': 3}
    for i in range(500 * K):
        yield {'kind': 'nfa', 'X': gen.random_nfa(rng, 5, rng.choice([['a', 'b'], ['a'], ['a', 'b', 'c']])), 'n': 3,
               'scheds': [[rng.randint(0, 5) for _ in range(6)] for _ in range(2)]}
    # an accepting run with more than a thousand consecutive epsilon steps (deeper than any recursion limit)
    yield {'kind': 'nfa', 'X': gen.late_long_chain_nfa(1300 if not thorough else 2100), 'n': 2, 'words': ['ab', 'a', 'b'], 'scheds': [[0, 1, 2]]}
    for i in range(200 * K):
        X = gen.push_loop_pda(rng) if i % 10 == 3 else gen.ambiguous_stack_pda(rng) if i % 10 == 7 else gen.random_pda(rng)
        yield {'kind': 'pda', 'X': X, 'n': 3, 'scheds': [[rng.randint(0, 5) for _ in range(6)]]}
    for i in range(250 * K):
        G = gen.random_cfg(rng, cnf=True, nvars=rng.randint(1, 4), multichar=rng.random() < 0.3)
        yield {'kind': 'cfg', 'X': G, 'n': 4}


def words_of(c):
    if 'words' in c:          # a replayed sub-case
        return list(c['words'])
    X = c['X']
    Sig = sorted(X['Sigma'])
    ws = gen.all_words(Sig, c['n'] if len(Sig) <= 2 else 2)
    if c['kind'] == 'cfg':
        rules = [(l, [(a, b) for a, b in r]) for l, _, r in X['R']]
        ok_cnf = all((len(r) == 0 and l == X['S']) or (len(r) == 1 and r[0][0] == 't') or
                     (len(r) == 2 and r[0][0] == 'v' and r[1][0] == 'v' and X['S'] not in (r[0][1], r[1][1])) for l, r in rules)
        if not ok_cnf:
            return []
        ws = [w for w in ws if w and oracles.cfg_accepts(rules, X['S'], w)][:6]
    return ws


def lean_requests(c):
    ws = words_of(c)
    c['_words'] = ws
    k = c['kind']
    if k == 'dfa':
        return [{'op': 'dfa_simulate', 'D': c['X'], 'w': list(w)} for w in ws]
    if k == 'nfa':
        return [{'op': 'nfa_simulate', 'N': c['X'], 'w': list(w), 'sched': s} for w in ws for s in c['scheds']]
    if k == 'pda':
        return [{'op': 'pda_simulate', 'P': c['X'], 'w': list(w), 'limit': 12, 'fuel': 60, 'sched': s} for w in ws for s in c['scheds']]
    return [{'op': 'cfg_derive', 'G': c['X'], 'w': list(w), 'leftmost': lm} for w in ws for lm in (True, False)]


def check_nfa_trace(N, w, tr):
    """independent validity check of a trace [(state, unread)]"""
    if not tr or tuple(tr[0]) != (N.q0, w):
        return 'does not start in (q0, w)'
    for (p, u), (q, v) in zip(tr, tr[1:]):
        if u == v:
            if q not in N.delta.get((p, N.epsilon), ()):
                return 'no epsilon move %s -> %s' % (p, q)
        elif u[1:] == v and u:
            if q not in N.delta.get((p, u[0]), ()):
                return 'no %s-move %s -> %s' % (u[0], p, q)
        else:
            return 'unread input does not shrink from the front'
    if tr[-1][1] != '' or tr[-1][0] not in N.F:
        return 'does not end accepting with nothing unread'
    return None


def check_dfa_trace(D, w, tr):
    if len(tr) != len(w) + 1 or tuple(tr[0]) != (D.q0, w):
        return 'wrong length or start'
    for i, ((p, u), (q, v)) in enumerate(zip(tr, tr[1:])):
        if u[1:] != v or not u or D.delta[p, u[0]] != q:
            return 'row %d does not follow' % (i + 1)
    return None


def check_pda_trace(P, w, tr):
    eps = P.epsilon
    if not tr or (tr[0][0], tr[0][1], list(tr[0][2])) != (P.q0, w, []):
        return 'does not start in (q0, w, empty stack)'
    for (p, u, s), (q, v, t) in zip(tr, tr[1:]):
        if u == v:
            a = eps
        elif u and u[1:] == v:
            a = u[0]
        else:
            return 'unread input does not shrink from the front'
        s, t = list(s), list(t)
        ok = False
        for (p1, a1, x), T in P.delta.items():
            if p1 != p or a1 != a:
                continue
            for (q1, y) in T:
                if q1 != q:
                    continue
                if x != eps and (not s or s[-1] != x):
                    continue
                s1 = s if x == eps else s[:-1]
                if y != eps:
                    s1 = s1 + [y]
                if s1 == t:
                    ok = True
        if not ok:
            return 'no move (%s,%s) -> (%s,%s) reading %r' % (p, ''.join(s), q, ''.join(t), a)
    if tr[-1][1] != '' or tr[-1][0] not in P.F:
        return 'does not end accepting with nothing unread'
    return None


def check_derivation(spec, w, d, leftmost):
    """d: list of forms, each a list of [kind, name]"""
    rules = {(l, tuple(map(tuple, r))) for l, _, r in spec['R']}
    if not d or [list(x) for x in d[0]] != [['v', spec['S']]]:
        return 'does not start with the start variable'
    for f, g in zip(d, d[1:]):
        vs = [i for i, x in enumerate(f) if x[0] == 'v']
        if not vs:
            return 'step from a terminal form'
        i = vs[0] if leftmost else vs[-1]
        A = f[i][1]
        k = len(g) - len(f) + 1
        if k < 0:
            return 'bad step'
        rhs = tuple(map(tuple, g[i:i + k]))
        if list(map(list, g[:i])) != list(map(list, f[:i])) or list(map(list, g[i + k:])) != list(map(list, f[i + 1:])):
            return 'not a %s step' % ('leftmost' if leftmost else 'rightmost')
        if (A, rhs) not in rules:
            return 'no rule %s -> %s' % (A, rhs)
    if [list(x) for x in d[-1]] != [['t', a] for a in w]:
        return 'does not end with the word'
    return None


def judge(ctx, c, answers):
    ws = c.get('_words')
    if ws is None:
        ws = words_of(c)
    k = c['kind']
    it = iter(answers)
    res = []
    timed_out = False
    if k == 'dfa':
        D = enc.build_dfa(c['X'])
        for w in ws:
            la = next(it)
            got = call(dfa_simulate_word, D, w, limit=5)
            sub = dict(kind=k, X=c['X'], w=w, words=[w], n=c.get('n', len(w)), scheds=c.get('scheds', []))
            tr = [[q, u] for q, u in got['ok']] if 'ok' in got else None
            err = 'raises %s' % got.get('err') if tr is None else check_dfa_trace(D, w, tr)
            if err:
                ctx.violation('dfa-trace', {'case': sub, 'problem': err, 'impl': tr})
            elif la.get('ok') != tr:
                ctx.violation('correspondence:dfa_simulate', {'case': sub, 'impl': tr, 'model': la}, no_input=True)
            res.append(tr)
            ctx.case(sub, len(w) >= 1)
    elif k == 'nfa':
        N = enc.build_nfa(c['X'])
        before = (enc.canon_nfa(N, False), str(N))
        for w in ws:
            acc = oracles.nfa_accepts(N, w)
            got = call(nfa_simulate_word, N, w, limit=5)
            sub = dict(kind=k, X=c['X'], w=w, words=[w], n=c.get('n', len(w)), scheds=c.get('scheds', []))
            if 'ok' not in got:
                ctx.violation('nfa-trace', {'case': sub, 'problem': 'raises/hangs: %s' % got.get('err'), 'accepted': acc})
            elif (got['ok'] is None) != (not acc):
                ctx.violation('nfa-trace', {'case': sub, 'problem': 'trace returned iff accepted fails', 'accepted': acc})
            elif acc:
                tr = [[q, u] for q, u in got['ok']]
                err = check_nfa_trace(N, w, tr)
                if err:
                    ctx.violation('nfa-trace', {'case': sub, 'problem': err, 'impl': tr})
                res.append(len(tr) > 0)
            for s in c['scheds']:
                la = next(it)
                m = la.get('ok', 'ERR') if 'ok' in la else 'ERR'
                if m == 'ERR' or (m is None) != (not acc) or (acc and check_nfa_trace(N, w, m)):
                    ctx.violation('correspondence:nfa_simulate', {'case': dict(sub, sched=s), 'model': la, 'accepted': acc}, no_input=True)
            ctx.count('nfa:accepted' if acc else 'nfa:rejected')
            ctx.case(sub, acc and len(w) >= 1 and gen.nfa_features(c['X'])['eps_edges'] >= 1)
        if (enc.canon_nfa(N, False), str(N)) != before:
            ctx.violation('argument-mutated', {'case': c})
    elif k == 'pda':
        P = enc.build_pda(c['X'])
        old = GambaTools.pda_epsilon_closure_max_iterations
        GambaTools.pda_epsilon_closure_max_iterations = 12
        try:
            for w in ws:
                res.append(w)
                acc = oracles.pda_accepts(P, w)
                from gambatools.pda_algorithms import pda_accepts_word
                says = call(pda_accepts_word, P, w, limit=5).get('ok')
                got = call(pda_simulate_word, P, w, limit=5)
                sub = dict(kind=k, X=c['X'], w=w, words=[w], n=c.get('n', len(w)), scheds=c.get('scheds', []))
                if 'ok' not in got:
                    # a stack-growing epsilon cycle can make the unbounded path search run forever: documented partial clause
                    if got.get('err') == 'fuel':
                        ctx.count('pda:path-search-timeout')
                        timed_out = True
                        if acc and says and getattr(ctx, '_retry', 0) < 3:
                            ctx._retry = getattr(ctx, '_retry', 0) + 1
                            # the acceptance test (same limit) answers at once, so a run exists among finitely many visited
                            # configurations; the library's worklist search finds it in milliseconds on the unchanged tree
                            again = call(pda_simulate_word, P, w, limit=10)
                            if again.get('err') == 'fuel':
                                ctx.violation('pda-trace-not-produced', {'case': sub, 'problem': 'no run after 5 s and again 10 s for a word '
                                              'that pda_accepts_word accepts at once', 'accepted': acc})
                        for s in c['scheds']:
                            next(it)
                        continue
                    ctx.violation('pda-trace', {'case': sub, 'problem': 'raises: %s %s' % (got.get('err'), got.get('msg')), 'accepted': acc})
                elif got['ok'] is not None:
                    tr = [[q, u, list(st)] for q, u, st in got['ok']]
                    err = check_pda_trace(P, w, tr)
                    if err or not acc:
                        ctx.violation('pda-trace', {'case': sub, 'problem': err or 'trace for a rejected word', 'impl': tr})
                    # whether a trace is found for an accepted word whose epsilon closure is cut by the iteration limit may depend
                    # on the pop order (the property allows it), so trace presence is not compared across hash seeds
                elif says:
                    ctx.violation('pda-trace', {'case': sub, 'problem': 'accepted (same limit) but no trace'})
                for s in c['scheds']:
                    la = next(it)
                    if 'ok' in la and la['ok'] is not None:
                        if check_pda_trace(P, w, la['ok']) or not acc:
                            ctx.violation('correspondence:pda_simulate', {'case': dict(sub, sched=s), 'model': la}, no_input=True)
                    elif 'err' in la and la['err'] != 'fuel':
                        ctx.violation('correspondence:pda_simulate', {'case': dict(sub, sched=s), 'model': la}, no_input=True)
                ctx.count('pda:accepted' if acc else 'pda:rejected')
                ctx.case(sub, acc and len(w) >= 1)
            # history: the SAME object after one target set was replaced under an existing key (the number of keys does not change);
            # the traces must follow the current transition table
            keys = sorted(k0 for k0, T in P.delta.items() if T)
            if keys and ws and 'words' not in c:
                import random
                r = random.Random(core.digest(c['X']))
                k0 = r.choice(keys)
                t_old = sorted(P.delta[k0])[0]
                t_new = (r.choice(sorted(P.Q)), t_old[1])
                P.delta[k0] = (set(P.delta[k0]) - {t_old}) | {t_new}
                from gambatools.pda_algorithms import pda_accepts_word
                for w in ws[:6]:
                    acc = oracles.pda_accepts(P, w)
                    says = call(pda_accepts_word, P, w, limit=5).get('ok')
                    got = call(pda_simulate_word, P, w, limit=5)
                    sub = dict(kind=k, X=c['X'], w=w, n=c.get('n', len(w)), edited=[list(k0), list(t_old), list(t_new)])
                    if 'ok' not in got:
                        if got.get('err') != 'fuel':
                            ctx.violation('pda-trace-after-edit', {'case': sub, 'problem': 'raises: %s %s' % (got.get('err'), got.get('msg')), 'accepted': acc})
                    elif got['ok'] is not None:
                        tr = [[q, u, list(st)] for q, u, st in got['ok']]
                        err = check_pda_trace(P, w, tr)
                        if err or not acc:
                            ctx.violation('pda-trace-after-edit', {'case': sub, 'problem': err or 'trace for a rejected word', 'impl': tr})
                    elif says:
                        ctx.violation('pda-trace-after-edit', {'case': sub, 'problem': 'accepted (same limit) but no trace'})
                ctx.count('pda:edit-history')
        finally:
            GambaTools.pda_epsilon_closure_max_iterations = old
    else:
        G = enc.build_cfg(c['X'])
        before = enc.cfg_to_spec(G)
        for w in ws:
            for lm, kind in ((True, 'leftmost'), (False, 'rightmost')):
                la = next(it)
                got = call(cfg_derive_word, G, w, kind, limit=5)
                sub = dict(kind=k, X=c['X'], w=w, type=kind, words=[w], n=c.get('n', len(w)))
                if 'ok' not in got:
                    ctx.violation('cfg-derivation', {'case': sub, 'problem': 'raises %s %s' % (got.get('err'), got.get('msg'))})
                    continue
                d = [[['v' if isinstance(x, Variable) else 't', str(x)] for x in f] for f in got['ok']]
                err = check_derivation(c['X'], w, d, lm)
                if err:
                    ctx.violation('cfg-derivation', {'case': sub, 'problem': err, 'impl': d})
                elif la.get('ok') != d:
                    ctx.violation('correspondence:cfg_derive', {'case': sub, 'impl': d, 'model': la}, no_input=True)
                res.append(d)
                ctx.case(sub, len(d) >= 4)
            g_any = call(cfg_derive_word, G, w, 'any', limit=5)
            g_lm = call(cfg_derive_word, G, w, 'leftmost', limit=5)
            if g_any != g_lm:
                ctx.violation('cfg-derivation', {'case': dict(kind=k, X=c['X'], w=w, type='any'), 'problem': "'any' differs from leftmost"})
        if enc.cfg_to_spec(G) != before:
            ctx.violation('argument-mutated', {'case': c})
    if not timed_out:        # a wall-clock cut is not an outcome of the code: such a case is not compared across hash seeds
        ctx.record('%s/%s' % (k, core.digest(c['X'])), res)


def run(ctx):
    core.run_cases(ctx, __import__('props.c15', fromlist=['x']), cases(ctx))
