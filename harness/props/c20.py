"""C20 — the DFA isomorphism test decides isomorphism of the reachable parts."""
import core, enc, gen, oracles
from core import call
from gambatools import dfa_algorithms as DA

META = {
    'level': 'proof',
    'rule': 'all ordered pairs of DFAs with <=2 states over {a} and sampled pairs of 2-state DFAs over {a,b}; seeded random pairs '
            '(1-5 states): renamed copies (with extra unreachable states), equivalent-but-not-isomorphic pairs (a DFA vs its minimised / '
            'unminimised form), inequivalent pairs; both routines, both argument orders, 5 s alarm per call; compared with the Lean '
            'model and a reference bijection search; non-trivial = both DFAs have >=2 reachable states; distinct by content; also pairs where a state of D1 is reached by two symbols and D2 splits them, the empty string as a state name; D2 with two symbols exchanged; transition tables filled in different orders; one 12-13-state DFA with all pairs of rows for one state (all ~25000 pairs, reference only)',
    'assumptions': ['DFA.valid (constructor), equal alphabets'],
    'trusted_base': ['Spec: Gamba/Spec/Iso.lean'],
}


def rename(s, f):
    return {'Q': [f(q) for q in s['Q']], 'Sigma': list(s['Sigma']), 'delta': [[f(q), a, f(r)] for q, a, r in s['delta']],
            'q0': f(s['q0']), 'F': [f(q) for q in s['F']]}


def cases(ctx):
    thorough = ctx.tier == 'thorough'
    small = list(gen.exhaustive_dfas(1, ['a'])) + list(gen.exhaustive_dfas(2, ['a']))
    for d1 in small:
        for d2 in small:
            yield {'D1': d1, 'D2': rename(d2, lambda q: 'p' + q[1:])}
    two = list(gen.exhaustive_dfas(2, ['a', 'b']))
    rng = ctx.rng
    for i in range(300 if not thorough else 4000):
        d1, d2 = rng.choice(two), rng.choice(two)
        yield {'D1': d1, 'D2': rename(d2, lambda q: 'p' + q[1:])}
    for i in range(600 if not thorough else 8000):
        Sig = rng.choice([['a', 'b'], ['a'], ['a', 'b', 'c']])
        d1 = gen.random_dfa(rng, 5, Sig)
        r = rng.random()
        if r < 0.35:
            perm = list(d1['Q'])
            rng.shuffle(perm)
            m = {q: 'r%d' % perm.index(q) for q in d1['Q']}
            d2 = rename(d1, lambda q: m[q])
            if rng.random() < 0.4:      # add an unreachable state
                d2['Q'].append('zz')
                d2['delta'] += [['zz', a, rng.choice(d2['Q'])] for a in Sig]
                if rng.random() < 0.5:
                    d2['F'].append('zz')
            if rng.random() < 0.25:     # break it slightly
                if d2['F'] and rng.random() < 0.5:
                    d2['F'] = d2['F'][1:]
                elif d2['delta']:
                    e = rng.choice(d2['delta'])
                    e[2] = rng.choice(d2['Q'])
        elif r < 0.5:
            # duplicate one state of d1: equivalent, not isomorphic (when the duplicate is reachable)
            d2 = rename(d1, lambda q: 'r_' + q)
            q = rng.choice(d2['Q'])
            d2['Q'].append('dup')
            d2['delta'] += [['dup', a, t] for (p, a, t) in d2['delta'] if p == q]
            if q in d2['F']:
                d2['F'].append('dup')
            for e in d2['delta']:
                if e[2] == q and rng.random() < 0.5:
                    e[2] = 'dup'
        else:
            d2 = rename(gen.random_dfa(rng, 5, Sig), lambda q: 'r_' + q)
        if len(Sig) >= 2 and rng.random() < 0.15:
            # a state of D1 whose a- and b-successor coincide; D2 = renamed copy that sends b to a (possibly altered) duplicate
            p0 = rng.choice(d1['Q'])
            a0, b0 = rng.sample(sorted(Sig), 2)
            t0 = [t for (p, a, t) in d1['delta'] if p == p0 and a == a0][0]
            for e in d1['delta']:
                if e[0] == p0 and e[1] == b0:
                    e[2] = t0
            d2 = rename(d1, lambda q: 'r_' + q)
            d2['Q'].append('dup')
            d2['delta'] += [['dup', a, t] for (p, a, t) in list(d2['delta']) if p == 'r_' + t0]
            if 'r_' + t0 in d2['F']:
                d2['F'].append('dup')
            for e in d2['delta']:
                if e[0] == 'r_' + p0 and e[1] == b0:
                    e[2] = 'dup'
            if rng.random() < 0.5:
                rng.choice([e for e in d2['delta'] if e[0] == 'dup'])[2] = rng.choice(d2['Q'])
        if rng.random() < 0.2:          # the empty string is a legal (falsy) state name
            q = rng.choice(d2['Q'] if r >= 0.35 or rng.random() < 0.7 else d1['Q'])
            if q in d2['Q']:
                d2 = rename(d2, lambda x: '' if x == q else x)
            else:
                d1 = rename(d1, lambda x: '' if x == q else x)
        if len(Sig) >= 2 and rng.random() < 0.1 and r >= 0.5:
            # D2 = D1 renamed with two symbols EXCHANGED (isomorphic only if D1 is symmetric in them), transitions listed in another order
            a0, b0 = rng.sample(sorted(Sig), 2)
            sw = {a0: b0, b0: a0}
            d2 = rename(d1, lambda q: 'r_' + q)
            d2['delta'] = [[p, sw.get(a, a), t] for p, a, t in d2['delta']]
        if rng.random() < 0.4:          # the transition tables are filled in different orders (row order, symbol order within a row)
            d2['delta'] = sorted(d2['delta'], key=lambda e: (rng.random(), e[1]))[::-1]
        if not thorough or ctx.mine(i):
            yield {'D1': d1, 'D2': d2, 'sched': [rng.randint(0, 6) for _ in range(8)]}
    # a chain of 3000 states against a renamed copy and against a copy with one changed transition (no model; dfa_isomorphic1 only:
    # the other routine builds a |Q1| x |Q2| table)
    yield {'chain': 3000}
    # 12-13 numbered states: all pairs of rows for one state (the last one in breadth-first order, so that the numbering of the
    # others does not depend on its row); D1 = base with row r1, D2 = renamed base with row r2: isomorphic iff r1 = r2 (checked by the reference)
    for i in range(1 if not thorough else 6):
        base = gen.numbered_dfa(rng, rng.choice([12, 13]), ['a', 'b'])
        yield {'rows': True, 'base': base, 'n1': 200, 'seed': rng.randrange(1 << 30)}


def row_pairs(c):
    import random
    r = random.Random(c['seed'])
    base = c['base']
    D = enc.build_dfa(base)
    order, todo = [D.q0], [D.q0]
    while todo:                      # breadth first, symbols in sorted order
        q = todo.pop(0)
        for a in sorted(D.Sigma):
            t = D.delta[q, a]
            if t not in order:
                order.append(t)
                todo.append(t)
    k = order[-1]
    Q = base['Q']
    rows = [(x, y) for x in Q for y in Q]
    first = r.sample(rows, min(c['n1'], len(rows)))

    def variant(row, f):
        d = {'Q': list(Q), 'Sigma': ['a', 'b'], 'q0': base['q0'], 'F': list(base['F']),
             'delta': [[p, a, (row[0] if a == 'a' else row[1]) if p == k else t] for p, a, t in base['delta']]}
        return rename(d, f)
    for r1 in first:
        d1 = variant(r1, lambda q: q)
        for r2 in rows:
            yield r1, r2, d1, variant(r2, lambda q: 'z' + q[1:])


def lean_requests(c):
    if c.get('rows') or c.get('chain'):
        return []
    s = c.get('sched', [])
    return [{'op': 'dfa_isomorphic1', 'D1': c['D1'], 'D2': c['D2'], 'sched': s},
            {'op': 'dfa_isomorphic1', 'D1': c['D2'], 'D2': c['D1'], 'sched': s},
            {'op': 'dfa_isomorphic', 'D1': c['D1'], 'D2': c['D2'], 'sched': s},
            {'op': 'dfa_isomorphic', 'D1': c['D2'], 'D2': c['D1'], 'sched': s}]


def judge(ctx, c, answers):
    if c.get('chain'):
        n = c['chain']
        mk = lambda pre, brk: {'Q': [pre + str(i) for i in range(n)], 'Sigma': ['a', 'b'], 'q0': pre + '0', 'F': [pre + str(n - 1)],
                               'delta': [[pre + str(i), 'a', pre + str(min(i + 1, n - 1))] for i in range(n)] +
                                        [[pre + str(i), 'b', pre + str(0 if i != brk else 1)] for i in range(n)]}
        A, B, Cc = enc.build_dfa(mk('x', -1)), enc.build_dfa(mk('y', -1)), enc.build_dfa(mk('z', n - 2))
        for X, Y, e in ((A, B, True), (A, Cc, False), (Cc, A, False)):
            g = call(DA.dfa_isomorphic1, X, Y, limit=60)
            if g != {'ok': e}:
                ctx.violation('dfa_isomorphic1', {'case': c, 'impl': g, 'expected': e})
        ctx.case(c, True)
        return
    if c.get('rows'):
        n = 0
        for r1, r2, d1, d2 in row_pairs(c):
            D1, D2 = enc.build_dfa(d1), enc.build_dfa(d2)
            exp = oracles.iso_ref(D1, D2)
            n += 1
            for name, f, A, B in (('dfa_isomorphic1', DA.dfa_isomorphic1, D1, D2), ('dfa_isomorphic', DA.dfa_isomorphic, D1, D2),
                                  ('dfa_isomorphic(swapped)', DA.dfa_isomorphic, D2, D1)):
                got = call(f, A, B, limit=5)
                if got != {'ok': exp}:
                    ctx.violation(name, {'case': {'D1': d1, 'D2': d2}, 'impl': got, 'expected': exp})
                    return
        ctx.count('row-pairs', n)
        ctx.case({'rows': True, 'base': c['base']}, True)
        return
    D1, D2 = enc.build_dfa(c['D1']), enc.build_dfa(c['D2'])
    b = (enc.canon_dfa(D1), enc.canon_dfa(D2))
    exp = oracles.iso_ref(D1, D2)
    if exp != oracles.iso_ref(D2, D1):
        ctx.harness_errors = getattr(ctx, 'harness_errors', []) + [{'case': c, 'error': 'reference not symmetric'}]
    res = []
    for (name, f, A, B), la in zip((('dfa_isomorphic1', DA.dfa_isomorphic1, D1, D2), ('dfa_isomorphic1(swapped)', DA.dfa_isomorphic1, D2, D1),
                                    ('dfa_isomorphic', DA.dfa_isomorphic, D1, D2), ('dfa_isomorphic(swapped)', DA.dfa_isomorphic, D2, D1)), answers):
        got = call(f, A, B, limit=5)
        res.append(got.get('ok', got.get('err')))
        if got != {'ok': exp}:
            ctx.violation(name, {'case': c, 'impl': got, 'expected': exp})
        elif la.get('ok') != exp:
            ctx.violation('correspondence:' + name, {'case': c, 'impl': got, 'model': la}, no_input=True)
    # two DFA objects over the SAME transition table object (as DFA(D.Q, D.Sigma, D.delta, D.q0, F2) gives): only the reachable part counts
    unreach = sorted(set(D1.Q) - oracles.reachable(D1))
    if unreach:
        from gambatools.dfa import DFA
        F2 = set(D1.F) ^ {unreach[0]}
        D3 = DFA(D1.Q, D1.Sigma, D1.delta, D1.q0, F2)
        e3 = oracles.iso_ref(D1, D3)
        for name, f in (('dfa_isomorphic1(shared table)', DA.dfa_isomorphic1), ('dfa_isomorphic(shared table)', DA.dfa_isomorphic)):
            g3 = call(f, D1, D3, limit=5)
            if g3 != {'ok': e3}:
                ctx.violation(name, {'case': c, 'F2': sorted(F2), 'impl': g3, 'expected': e3})
        ctx.count('shared-table')
    if exp:
        # consequences stated by the property
        if oracles.distinguish(D1, D2, D1.Sigma) is not None or len(oracles.reachable(D1)) != len(oracles.reachable(D2)):
            ctx.harness_errors = getattr(ctx, 'harness_errors', []) + [{'case': c, 'error': 'reference iso but languages/sizes differ'}]
    ctx.count('iso' if exp else ('equivalent-not-iso' if oracles.distinguish(D1, D2, D1.Sigma) is None else 'inequivalent'))
    if (enc.canon_dfa(D1), enc.canon_dfa(D2)) != b:
        ctx.violation('argument-mutated', {'case': c})
    ctx.record('iso/' + core.digest(c), res)
    ctx.case(c, len(oracles.reachable(D1)) >= 2 and len(oracles.reachable(D2)) >= 2)


def run(ctx):
    core.run_cases(ctx, __import__('props.c20', fromlist=['x']), cases(ctx))
