"""C17 — parsers build exactly what was written and reject malformed descriptions."""
import core, enc, gen
from core import call
from gambatools import dfa_algorithms as DA, nfa_algorithms as NA, pda_algorithms as PA, tm_algorithms as TA
from props.c16 import BUILD, PARSE, CANON, canon_model, OWN_KEYWORDS

META = {
    'level': 'proof',
    'rule': 'a known automaton (DFA/NFA/PDA/TM, seeded random) is rendered in many layouts (line order shuffled, optional declarations '
            'present or omitted when they can be derived, comment and blank lines, extra white space, labels grouped per edge or one per '
            'line) and must parse to exactly that automaton; every single-fault corruption (transition removed -> not total, second target '
            '-> nondeterministic, undeclared state, a used state missing from the states line, undeclared symbol, no initial line, two initial states, repeated declaration, '
            'transition with <3 words, ill-formed label) must be rejected with an error; outcomes compared with the Lean parser; every '
            'returned object is checked against its class invariant; non-trivial = layout differing from the printer\'s, or a corruption; '
            'distinct by text; also states named like a keyword of another automaton kind, a used state missing from the states line, symbols that only start like a word (a,b a-z); one description with more than 256 transitions (well-formed and with one fault)',
    'assumptions': ['ASCII text plus ε and □; state names \\w+ not equal to keywords of the format'],
    'trusted_base': ['Lean: Gamba/Model/Parse.lean'],
}


def decl_lines(kind, X, rng, omit):
    L = []
    used_states = set()
    if kind == 'tm':
        trans = [(p, q, a + b + ',' + d) for p, a, q, b, d in X['delta']]
    elif kind == 'pda':
        trans = [(p, q, a + ',' + u + v) for p, a, u, T in X['delta'] for q, v in T]
    elif kind == 'nfa':
        trans = [(p, q, a) for p, a, T in X['delta'] for q in T]
    else:
        trans = [(p, q, a) for p, a, q in X['delta']]
    for p, q, _ in trans:
        used_states |= {p, q}
    used_states |= {X['q0']} | set(X.get('F', []))
    can_omit_states = used_states == set(X['Q']) if kind != 'tm' else False
    if not (omit and can_omit_states and rng.random() < 0.5):
        qs = list(X['Q'])
        rng.shuffle(qs)
        L.append('states ' + ' '.join(qs))
    L.append('initial ' + X['q0'])
    if kind != 'tm':
        fs = list(X['F'])
        rng.shuffle(fs)
        if fs or rng.random() < 0.7:
            L.append('final ' + ' '.join(fs))
    else:
        L.append('accept ' + X['qa'])
        L.append('reject ' + X['qr'])
    # alphabets
    if kind in ('dfa', 'nfa'):
        eps = X.get('eps')
        used = {l for _, _, l in trans if l != eps}
        if not (omit and used == set(X['Sigma']) and rng.random() < 0.5):
            L.append('input_symbols ' + ' '.join(X['Sigma']))
    elif kind == 'pda':
        eps = X['eps']
        used_in = {l[0] for _, _, l in trans if l[0] != eps}
        used_st = ({l[2] for _, _, l in trans} | {l[3] for _, _, l in trans}) - {eps}
        if not (omit and used_in == set(X['Sigma']) and rng.random() < 0.5):
            L.append('input_symbols ' + ' '.join(X['Sigma']))
        if not (omit and used_st == set(X['Gamma']) and rng.random() < 0.5):
            L.append('stack_symbols ' + ' '.join(X['Gamma']))
    else:
        used_tape = {l[0] for _, _, l in trans} | {l[1] for _, _, l in trans}
        tape_wo = [g for g in X['Gamma']]
        if not (omit and used_tape | {X['blank']} == set(X['Gamma']) and rng.random() < 0.5):
            L.append('tape_symbols ' + ' '.join(tape_wo))
        if not (omit and set(X['Sigma']) == set(X['Gamma']) - {X['blank']} and rng.random() < 0.5):
            L.append('input_symbols ' + ' '.join(X['Sigma']))
    if kind in ('nfa', 'pda'):
        eps = X['eps']
        has_eps_char = any('ε' in l for _, _, l in trans)
        default = 'ε' if has_eps_char else '_'
        if not (omit and eps == default and rng.random() < 0.6):
            L.append('epsilon ' + eps)
    if kind == 'tm':
        has_box = any('□' in l for _, _, l in trans)
        default = '□' if has_box else '_'
        if not (omit and X['blank'] == default and rng.random() < 0.6):
            L.append('blank ' + X['blank'])
    return L, trans


def render(kind, X, rng, omit=True):
    L, trans = decl_lines(kind, X, rng, omit)
    T = []
    style = rng.choice(['grouped', 'single', 'mixed'])
    pairs = {}
    for p, q, l in trans:
        pairs.setdefault((p, q), []).append(l)
    for (p, q), ls in pairs.items():
        if style == 'grouped' or (style == 'mixed' and rng.random() < 0.5):
            T.append('%s %s %s' % (p, q, ' '.join(ls)))
        else:
            for l in ls:
                T.append('%s %s %s' % (p, q, l))
    lines = L + T
    rng.shuffle(lines)
    out = []
    for l in lines:
        if rng.random() < 0.15:
            out.append(rng.choice(['% a comment', '', '   ', '%states x y']))
        out.append(rng.choice(['', '  ', '\t']) + l.replace(' ', rng.choice([' ', '  ', ' \t ']), 1) + rng.choice(['', ' ']))
    return '\n'.join(out), L, T


def corrupt(kind, X, rng):
    """returns (fault name, text) for one single-fault corruption of a fully explicit rendering"""
    L, trans = decl_lines(kind, X, rng, omit=False)
    T = ['%s %s %s' % t for t in trans]
    faults = ['no-initial', 'two-initial', 'repeated-declaration', 'short-transition', 'undeclared-state', 'states-line-incomplete']
    if kind == 'dfa':
        if T:
            faults += ['not-total', 'nondeterministic']
        if X['Sigma']:
            faults += ['undeclared-symbol']
    if kind == 'nfa':
        faults += ['undeclared-symbol', 'malformed-symbol', 'malformed-symbol']
    if kind in ('pda', 'tm'):
        faults += ['bad-label']
    if kind == 'pda':
        faults += ['undeclared-symbol']
    f = rng.choice(faults)
    L2, T2 = list(L), list(T)
    fresh = 'zq7'
    if f == 'no-initial':
        L2 = [l for l in L2 if not l.startswith('initial')]
    elif f == 'two-initial':
        others = [q for q in X['Q'] if q != X['q0']]
        if not others:
            L2 = [('states ' + ' '.join(X['Q'] + [fresh])) if l.startswith('states') else l for l in L2]
            others = [fresh]
            if kind == 'dfa':
                T2 += ['%s %s %s' % (fresh, fresh, a) for a in X['Sigma']]
        L2 = [('initial %s %s' % (X['q0'], others[0])) if l.startswith('initial') else l for l in L2]
    elif f == 'repeated-declaration':
        L2.append(rng.choice(L2))
    elif f == 'states-line-incomplete':
        # the explicit states line misses a state that the description uses (initial / final / accept / reject / in a transition)
        used = {X['q0']} | set(X.get('F', [])) | {t[0] for t in trans} | {t[1] for t in trans}
        if kind == 'tm':
            used |= {X['qa'], X['qr']}
            drop = rng.choice([X['qa'], X['qr'], rng.choice(sorted(used))])
        else:
            drop = rng.choice(sorted(used))
        rest = [q for q in X['Q'] if q != drop]
        if not rest:
            return None
        L2 = [('states ' + ' '.join(rest)) if l.startswith('states') else l for l in L2]
    elif f == 'short-transition':
        T2.append('%s %s' % (X['q0'], X['q0']))
    elif f == 'undeclared-state':
        e = X.get('eps', '_')
        b = X.get('blank', '_')
        lab = {'dfa': (X['Sigma'] or ['a'])[0], 'nfa': (X['Sigma'] or ['a'])[0], 'pda': '%s,%s%s' % (e, e, e), 'tm': '%s%s,R' % (b, b)}[kind]
        T2.append('%s %s %s' % (X['q0'], fresh, lab))
    elif f == 'not-total':
        T2.pop(rng.randrange(len(T2)))
    elif f == 'nondeterministic':
        p, q, a = rng.choice(trans)
        other = [r for r in X['Q'] if r != q]
        if not other:
            return None
        T2.append('%s %s %s' % (p, other[0], a))
    elif f == 'undeclared-symbol':
        if kind == 'pda':
            T2.append('%s %s %s' % (X['q0'], X['q0'], 'z,%s%s' % (X['eps'], X['eps'])))
        else:
            T2.append('%s %s %s' % (X['q0'], X['q0'], 'z'))
            if kind == 'dfa':      # keep it deterministic and total apart from the symbol
                pass
    elif f == 'malformed-symbol':
        # a symbol that only STARTS like a word: a,b / a-z / a! (as a declared input symbol, or as a label)
        bad = rng.choice(['a,b', 'a-z', 'a!', 'b.c', 'x+y'])
        if rng.random() < 0.5 and any(l.startswith('input_symbols') for l in L2):
            L2 = [(l + ' ' + bad) if l.startswith('input_symbols') else l for l in L2]
        else:
            L2 = [l for l in L2 if not l.startswith('input_symbols')]
            T2.append('%s %s %s' % (X['q0'], X['q0'], bad))
    elif f == 'bad-label':
        T2.append('%s %s %s' % (X['q0'], X['q0'], rng.choice(['a;xy', 'abc', 'ab,X', 'a,x', ',xy'])))
    lines = L2 + T2
    rng.shuffle(lines)
    return f, '\n'.join(lines)


LOOKALIKE = ['Final', 'Initial', 'States', 'Accept', 'Reject', 'Blank', 'Epsilon', 'final_q', 'initial_q', 'states2', 'finalstate', 'initial0', 'input_symbols_x', 'statesman']     # keywords up to case, and words that only begin with a keyword: ordinary state names
FOREIGN = {'dfa': ['epsilon', 'accept', 'reject', 'blank', 'stack_symbols', 'tape_symbols'] + LOOKALIKE,
           'nfa': ['accept', 'reject', 'blank', 'stack_symbols', 'tape_symbols'] + LOOKALIKE,
           'pda': ['accept', 'reject', 'blank', 'tape_symbols'] + LOOKALIKE,
           'tm': ['epsilon', 'stack_symbols'] + LOOKALIKE}


def foreign_keyword_state(kind, X, rng):
    """rename one state to a word that is a declaration keyword of another automaton kind only (a legal state name here)"""
    import json
    q = rng.choice(X['Q'])
    new = rng.choice(FOREIGN[kind])
    if new in X['Q']:
        return X

    def ren(x):
        if isinstance(x, list):
            return [ren(y) for y in x]
        return x
    Y = json.loads(json.dumps(X))
    f = lambda s: new if s == q else s
    Y['Q'] = [f(s) for s in Y['Q']]
    Y['q0'] = f(Y['q0'])
    if 'F' in Y:
        Y['F'] = [f(s) for s in Y['F']]
    for k in ('qa', 'qr'):
        if k in Y:
            Y[k] = f(Y[k])
    if kind == 'dfa':
        Y['delta'] = [[f(p), a, f(t)] for p, a, t in Y['delta']]
    elif kind == 'nfa':
        Y['delta'] = [[f(p), a, [f(t) for t in T]] for p, a, T in Y['delta']]
    elif kind == 'pda':
        Y['delta'] = [[f(p), a, u, [[f(t), v] for t, v in T]] for p, a, u, T in Y['delta']]
    else:
        Y['delta'] = [[f(p), a, f(t), b, d] for p, a, t, b, d in Y['delta']]
    return Y


def usable(kind, X):
    if set(X['Q']) & OWN_KEYWORDS[kind]:
        return False
    if kind == 'pda' and (X['eps'] == '' or '∅' in X['Gamma']):
        return False
    if kind == 'nfa' and X['eps'] == '':
        return False
    return True


def cases(ctx):
    thorough = ctx.tier == 'thorough'
    rng = ctx.rng
    K = 1 if not thorough else 10
    for kind, n in (('dfa', 160), ('nfa', 160), ('pda', 120), ('tm', 120)):
        for i in range(n * K):
            X = {'dfa': lambda: gen.random_dfa(rng, 4), 'nfa': lambda: gen.random_nfa(rng, 4, eps=rng.choice(['_', 'ε', 'e'])),
                 'pda': lambda: gen.random_pda(rng), 'tm': lambda: gen.random_tm(rng)}[kind]()
            if kind == 'nfa' and rng.random() < 0.1:       # epsilon declared as '_' while 'ε' is an ORDINARY input symbol
                X = gen.random_nfa(rng, 4, ['a', 'ε'], '_')
            if kind == 'tm' and rng.random() < 0.15 and X['blank'] == '_' and '□' not in X['Gamma']:
                # blank declared as '_' while '□' is an ordinary tape symbol
                extra = [g for g in X['Gamma'] if g not in X['Sigma'] and g != X['blank']]
                if extra:
                    g0 = extra[0]
                    f = lambda x: '□' if x == g0 else x
                    X = dict(X, Gamma=[f(g) for g in X['Gamma']], delta=[[p, f(a), q, f(b), d] for p, a, q, b, d in X['delta']])
            if rng.random() < 0.25:
                X = foreign_keyword_state(kind, X, rng)
            if not usable(kind, X):
                continue
            for j in range(2):
                text, _, _ = render(kind, X, rng)
                yield {'kind': kind, 'X': X, 'text': text, 'fault': None}
            c = corrupt(kind, X, rng)
            if c:
                yield {'kind': kind, 'X': X, 'text': c[1], 'fault': c[0]}
    # a description with more than 256 transitions (130-150 states over two symbols), well-formed and with one fault
    for i in range(1 if not thorough else 6):
        X = gen.wide_dfa(rng)
        text, _, _ = render('dfa', X, rng)
        yield {'kind': 'dfa', 'X': X, 'text': text, 'fault': None}
        c = corrupt('dfa', X, rng)
        if c:
            yield {'kind': 'dfa', 'X': X, 'text': c[1], 'fault': c[0]}


def lean_requests(c):
    return [{'op': 'parse_' + c['kind'], 'text': c['text']}]


def judge(ctx, c, answers):
    k = c['kind']
    got = call(PARSE[k], c['text'])
    la = answers[0]
    sub = {'kind': k, 'X': c['X'], 'text': c['text'], 'fault': c['fault']}
    bad = False
    if c['fault'] is None:
        want = CANON[k](BUILD[k](c['X']))
        if 'ok' not in got:
            ctx.violation('well-formed-rejected', {'case': sub, 'impl': got})
            bad = True
        elif CANON[k](got['ok']) != want:
            ctx.violation('parsed-automaton-differs', {'case': sub, 'parsed': CANON[k](got['ok']), 'described': want})
            bad = True
    else:
        if 'ok' in got:
            ctx.violation('malformed-accepted', {'case': sub, 'parsed': CANON[k](got['ok'])})
            bad = True
    if 'ok' in got:
        try:
            got['ok']._check_validity()
        except Exception:
            ctx.violation('parser-returned-invalid-object', {'case': sub})
            bad = True
    same = ('ok' in got) == ('ok' in la) and ('ok' not in got or canon_model(k, la['ok']) == CANON[k](got['ok']))
    if not same:
        ctx.violation('correspondence:parse_' + k, {'case': sub, 'impl': str(got)[:300], 'model': la}, no_input=not bad)
    ctx.count('%s:%s' % (k, c['fault'] or 'well-formed'))
    ctx.record('c17/' + core.digest([k, c['text']]), CANON[k](got['ok']) if 'ok' in got else 'error')
    ctx.case({'kind': k, 'text': c['text'], 'fault': c['fault']}, True)


def run(ctx):
    core.run_cases(ctx, __import__('props.c17', fromlist=['x']), cases(ctx))
