"""C02 — bounded language enumeration is exact for every formalism (and generate_language dispatches to it)."""
import core, enc, gen, oracles
from core import call
from gambatools.dfa_algorithms import dfa_words_up_to_n
from gambatools.nfa_algorithms import nfa_words_up_to_n
from gambatools.pda_algorithms import pda_words_up_to_n
from gambatools.tm_algorithms import tm_words_up_to_n
from gambatools.cfg_algorithms import cfg_words_up_to_n
from gambatools.regexp_algorithms import regexp_words_up_to_n
from gambatools.language_generator import generate_language
from gambatools.global_settings import GambaTools

META = {
    'level': 'proof',
    'rule': 'seeded random objects of the six kinds x n in {0,1,2,3,(4)}; the enumerated set is compared with (i) the Lean model, '
            '(ii) the set {w over Sigma, |w|<=n : independent oracle accepts w}, (iii) generate_language; PDA: closure limit 6 and '
            'equality required only when the Lean model reports no truncation; TM: budgets {5,50}; non-trivial = enumeration with >=2 '
            'words and n>=1; distinct by (object, n); also regexps over {0,1}, unit-chain and near-CNF grammars (CNF-shaped rules, grammar not in CNF), PDAs with ambiguous multi-character stack symbols and fan-out; every untruncated enumeration is additionally compared with the library\'s own acceptance test on a sample of words; grammars whose shortest words come from deep thin derivations (n up to 9); a PDA with a finite closure of 150 configurations under the default limit',
    'assumptions': ['valid objects (constructors); single-character symbols'],
    'trusted_base': ['Spec: Gamba/Spec/*.lean'],
}


def cases(ctx):
    thorough = ctx.tier == 'thorough'
    rng = ctx.rng
    K = 1 if not thorough else 10
    for i in range(150 * K):
        if thorough and not ctx.mine(i):
            rng.random()
        yield {'kind': 'dfa', 'X': gen.random_dfa(rng, 5, rng.choice([['a', 'b'], ['a'], ['0', '1'], []])), 'ns': [0, 1, 2, 3, 4]}
    for i in range(150 * K):
        X = gen.random_nfa(rng, 5, rng.choice([['a', 'b'], ['a'], ['0', '1'], []]))
        if i % 10 == 3:
            X['frozen'] = rng.choice(['delta', 'all'])
        yield {'kind': 'nfa', 'X': X, 'ns': [0, 1, 2, 3, 4]}
    for i in range(150 * K):
        Sg = rng.choice([['a', 'b'], ['a'], ['a', 'b', 'c'], ['0', '1']])
        yield {'kind': 'regexp', 'X': gen.random_regexp(rng, rng.randint(0, 9), Sg), 'ns': [0, 1, 2, 3, 4]}
    for i in range(100 * K):
        yield {'kind': 'tm', 'X': gen.random_tm(rng), 'ns': [0, 1, 2, 3], 'k': rng.choice([1, 2, 3, 5, 50])}
    for i in range(120 * K):
        yield {'kind': 'cfg', 'X': gen.random_cfg(rng, cnf=rng.random() < 0.5, maxlen=3, multichar=rng.random() < 0.35), 'ns': [0, 1, 2, 3, 4]}
    for i in range(20 * K):
        yield {'kind': 'cfg', 'X': gen.ambiguous_cfg(rng), 'ns': [0, 1, 2, 3]}
    for i in range(20 * K):
        yield {'kind': 'cfg', 'X': gen.unit_chain_cfg(rng), 'ns': [0, 1, 2, 3]}
    for i in range(40 * K):
        yield {'kind': 'cfg', 'X': gen.near_cnf_cfg(rng), 'ns': [0, 1, 2, 3]}
    for i in range(20 * K):
        yield {'kind': 'cfg', 'X': gen.cnf_with_unproductive(rng), 'ns': [0, 1, 2, 3]}
    for i in range(8 * K):        # shallow-bushy vs deep-thin alternatives: words of length 6-9 matter
        yield {'kind': 'cfg', 'X': gen.doubling_cfg(rng), 'ns': [5, 6, 7, 8, 9]}
    # a finite epsilon closure of 100-400 configurations AFTER reading a symbol, under the default closure limit
    for L in ([150] if not thorough else [120, 150, 400]):
        yield {'kind': 'pda', 'X': late_chain_pda(L), 'ns': [1, 2], 'limit': 1000}
    for k in range(0, 3):          # symbols that print like the constants 0 and 1
        for r in gen.regexps_of_size(k, ['0', '1']):
            if k < 2 or rng.random() < (0.05 if not thorough else 0.5):
                yield {'kind': 'regexp', 'X': r, 'ns': [0, 1, 2]}
    for i in range(50 * K):
        yield {'kind': 'pda', 'X': gen.ambiguous_stack_pda(rng) if i % 12 == 5 else gen.fanout_pda(rng) if i % 12 == 9 else gen.random_pda(rng), 'ns': [0, 1, 2, 3] if i % 5 == 0 else [0, 1, 2]}


OPS = {'dfa': ('dfa_words', 'D'), 'nfa': ('nfa_words', 'N'), 'regexp': ('regexp_words', 'r'), 'tm': ('tm_words', 'T'),
       'cfg': ('cfg_words', 'G'), 'pda': ('pda_words', 'P')}


def late_chain_pda(L):
    """s -a-> c0, then an epsilon chain of L push / pop moves, then c<L> -b-> f: the closure after reading 'a' has L+1 configurations"""
    Q = ['s'] + ['c%d' % i for i in range(L + 1)] + ['f']
    delta = [['s', 'a', '_', [['c0', '_']]]]
    delta += [['c%d' % i, '_', '_' if i % 2 == 0 else 'x', [['c%d' % (i + 1), 'x' if i % 2 == 0 else '_']]] for i in range(L)]
    delta.append(['c%d' % L, 'b', '_', [['f', '_']]])
    return {'Q': Q, 'Sigma': ['a', 'b'], 'Gamma': ['x'], 'delta': delta, 'q0': 's', 'F': ['f'], 'eps': '_', 'dd': True}


def lean_requests(c):
    op, key = OPS[c['kind']]
    reqs = []
    for n in c['ns']:
        r = {'op': op, key: c['X'], 'n': n}
        if c['kind'] == 'tm':
            r['k'] = c['k']
        if c['kind'] == 'pda':
            r['limit'] = c.get('limit', 6)
        reqs.append(r)
    return reqs


def build(c):
    k = c['kind']
    return {'dfa': enc.build_dfa, 'nfa': enc.build_nfa, 'regexp': enc.build_regexp, 'tm': enc.build_tm,
            'cfg': enc.build_cfg, 'pda': enc.build_pda}[k](c['X'])


def snapshot(c, X):
    k = c['kind']
    if k == 'dfa':
        return enc.canon_dfa(X)
    if k == 'nfa':
        return (enc.canon_nfa(X, False), str(X))
    if k == 'regexp':
        return enc.regexp_to_spec(X)
    if k == 'tm':
        return enc.canon_tm(X)
    if k == 'cfg':
        return enc.cfg_to_spec(X)
    return enc.canon_pda(X, False)


def reference(c, X, n):
    k = c['kind']
    if k == 'dfa':
        return {w for w in gen.all_words(X.Sigma, n) if oracles.dfa_accepts(X, w)}
    if k == 'nfa':
        return {w for w in gen.all_words(X.Sigma, n) if oracles.nfa_accepts(X, w)}
    if k == 'regexp':
        return {w for w in gen.all_words(sorted(oracles.rx_symbols(c['X'])), n) if oracles.rx_matches(c['X'], w)}
    if k == 'tm':
        return {w for w in gen.all_words(X.Sigma, n) if oracles.tm_run(X, w, c['k'])[0] is True}
    if k == 'cfg':
        rules = [(l, [(a, b) for a, b in r]) for l, _, r in c['X']['R']]
        return {w for w in gen.all_words(c['X']['Sigma'], n) if oracles.cfg_accepts(rules, c['X']['S'], w)}
    return {w for w in gen.all_words(X.Sigma, n) if oracles.pda_accepts(X, w)}


from gambatools.dfa_algorithms import dfa_accepts_word
from gambatools.nfa_algorithms import nfa_accepts_word
from gambatools.regexp_algorithms import regexp_accepts_word
from gambatools.cfg_algorithms import cfg_accepts_word
from gambatools.pda_algorithms import pda_accepts_word
from gambatools.tm_algorithms import tm_accepts_word
ACCEPTS = {'dfa': dfa_accepts_word, 'nfa': nfa_accepts_word, 'regexp': regexp_accepts_word, 'cfg': cfg_accepts_word,
           'pda': pda_accepts_word, 'tm': tm_accepts_word}


def judge(ctx, c, answers):
    X = build(c)
    before = snapshot(c, X)
    f = {'dfa': dfa_words_up_to_n, 'nfa': nfa_words_up_to_n, 'regexp': regexp_words_up_to_n, 'cfg': cfg_words_up_to_n,
         'pda': pda_words_up_to_n}.get(c['kind'])
    old = GambaTools.pda_epsilon_closure_max_iterations
    GambaTools.pda_epsilon_closure_max_iterations = c.get('limit', 6)
    res = []
    try:
        for n, la in zip(c['ns'], answers):
            sub = dict(c, ns=[n])
            if c['kind'] == 'tm':
                got = call(tm_words_up_to_n, X, n, c['k'], limit=30)
                gl = got   # generate_language uses the default budget 1000; compared below only when equal budgets make sense
            else:
                got = call(f, X, n, limit=30)
                gl = call(generate_language, X, n, limit=30)
            if 'ok' not in got:
                ctx.violation('enumeration-raises', {'case': sub, 'impl': got})
                continue
            ws = got['ok']
            model = la.get('ok')
            truncated = False
            if c['kind'] == 'pda':
                truncated = bool(model and model.get('truncated'))
                model = model and model.get('words')
            if any(len(w) > n for w in ws):
                ctx.violation('enumeration-too-long-word', {'case': sub, 'impl': enc.words(ws)})
            if not truncated:
                res.append(enc.words(ws))      # a truncated PDA enumeration may depend on the pop order: not compared across hash seeds
                exp = reference(c, X, n)
                if set(ws) != exp:
                    d = sorted(set(ws) ^ exp, key=len)[0]
                    ctx.violation('enumeration-inexact', {'case': sub, 'word': d, 'impl': enc.words(ws), 'expected': enc.words(exp)})
                elif model is None or set(model) != exp:
                    ctx.violation('correspondence:' + OPS[c['kind']][0], {'case': sub, 'impl': enc.words(ws), 'model': la}, no_input=True)
                ctx.count('%s:n=%d' % (c['kind'], n))
            else:
                exp = reference(c, X, n)
                if not set(ws) <= exp:
                    ctx.violation('enumeration-unsound', {'case': sub, 'impl': enc.words(ws), 'expected': enc.words(exp)})
                ctx.count('pda:truncated')
            # "... exactly the set of words that the matching acceptance test accepts": the library's own acceptance test, sampled
            if not truncated and n == max(c['ns']) and core.digest(c['X'])[0] in '01234567':
                acc = ACCEPTS[c['kind']]
                Sig = sorted(oracles.rx_symbols(c['X'])) if c['kind'] == 'regexp' else sorted(X.Sigma)
                allw = gen.all_words(Sig, n)
                import random
                r = random.Random(core.digest(c['X']))
                sample = allw if len(allw) <= 40 else sorted(set(ws)) [:15] + r.sample(allw, 25)
                for w in sample:
                    a = call(acc, X, w, c['k'], limit=20) if c['kind'] == 'tm' else call(acc, X, w, limit=20)
                    if a.get('ok') is None and c['kind'] != 'tm' and 'ok' not in a:
                        ctx.violation('acceptance-test-raises', {'case': dict(sub, word=w), 'impl': a})
                        break
                    if bool(a.get('ok')) != (w in set(ws)):
                        ctx.violation('enumeration-differs-from-acceptance-test', {'case': sub, 'word': w, 'accepts_word': a.get('ok'),
                                                                                   'enumerated': w in set(ws)})
                        break
                ctx.count('acceptance-test-compared')
            if c['kind'] != 'tm' and gl.get('ok') != ws:
                ctx.violation('generate-language-differs', {'case': sub, 'impl': str(gl)[:200], 'direct': enc.words(ws)})
            ctx.case({'kind': c['kind'], 'X': c['X'], 'n': n}, n >= 1 and len(ws) >= 2)
    finally:
        GambaTools.pda_epsilon_closure_max_iterations = old
    if c['kind'] == 'tm':
        g = call(generate_language, X, 2, limit=30)
        d = call(tm_words_up_to_n, X, 2, limit=30)
        if g.get('ok') != d.get('ok'):
            ctx.violation('generate-language-differs', {'case': c})
    if snapshot(c, X) != before:
        ctx.violation('argument-mutated', {'case': c})
    ctx.record('%s/%s' % (c['kind'], core.digest(c)), res)


def run(ctx):
    core.run_cases(ctx, __import__('props.c02', fromlist=['x']), cases(ctx))
