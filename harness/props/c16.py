"""C16 — printing an object and parsing the text returns the same object."""
import core, enc, gen, oracles
from core import call
from gambatools import dfa_algorithms as DA, nfa_algorithms as NA, pda_algorithms as PA, tm_algorithms as TA, cfg_algorithms as CA
from gambatools.regexp import print_regexp, print_regexp_simple
from gambatools.regexp_parser import parse_regexp
from gambatools.regexp_simple_parser import parse_simple_regexp
import exercises as EX

META = {
    'level': 'proof',
    'rule': 'seeded random DFAs, NFAs, PDAs, TMs over single-character symbols with printable epsilon/blank (empty accepting set, empty '
            'alphabet, isolated states, several labels per edge, state names equal to keywords of other kinds); print_X compared with the '
            'Lean printer (exact text), parse_X(print_X(obj)) compared field by field with obj and with the Lean parser; regular '
            'expressions: both concrete syntaxes re-parsed (tree equality for the parenthesised syntax; same language on words <=4 and same '
            'printed form for the simple syntax); simple-format grammars re-parsed to an equal grammar; non-trivial = object with >=2 '
            'states and >=1 transition / expression with a nested operator; distinct by content; also DFAs / NFAs with set names {..} and pair names (p,q) re-read with the matching state_regex, PDA / TM marker symbols % & ! ~ ^ *; grammars with 18-30 alternatives for one variable, DFAs with 11-13 numbered states and one with more than 256 transitions',
    'assumptions': ['state names match \\w+ and are not keywords of the same format; ASCII symbols plus ε, □',
                    'the ANTLR-generated regexp parsers are tied by correspondence only (no Lean model)'],
    'trusted_base': ['Lean: Gamba/Model/Parse.lean is the model of parser and printers'],
}
OWN_KEYWORDS = {'dfa': {'states', 'final', 'initial', 'input_symbols'},
                'nfa': {'states', 'final', 'initial', 'input_symbols', 'epsilon'},
                'pda': {'states', 'final', 'initial', 'input_symbols', 'stack_symbols', 'epsilon'},
                'tm': {'states', 'final', 'initial', 'input_symbols', 'tape_symbols', 'blank', 'accept', 'reject'}}


def cases(ctx):
    thorough = ctx.tier == 'thorough'
    rng = ctx.rng
    K = 1 if not thorough else 10
    for i in range(250 * K):
        yield {'kind': 'dfa', 'X': gen.random_dfa(rng, 5)}
    for i in range(250 * K):
        X = gen.random_nfa(rng, 5, eps=rng.choice(['_', 'ε', 'e']))
        yield {'kind': 'nfa', 'X': X}
    # automata whose states carry the set / pair names of the constructions, re-read with the matching state pattern as the notebook
    # checkers do (parse_dfa(text, state_regex=state_set_regex()) etc.)
    for i in range(90 * K):
        sr = ['set', 'product', 'word_or_set'][i % 3]
        pool = {'set': ['{}', '{q0}', '{q0,q1}', '{q1,q2}', '{q0,q1,q2}'], 'product': ['(p0,q0)', '(p0,q1)', '(p1,q0)', '(p1,q1)', '(p2,q0)'],
                'word_or_set': ['q0', '{q1,q2}', '{q3}', 'q4', '{}']}[sr]
        if i % 2:
            X = gen.random_dfa(rng, 5, names=lambda j: pool[j])
            yield {'kind': 'dfa', 'X': X, 'sr': sr}
        else:
            X = gen.random_nfa(rng, 5, eps=rng.choice(['_', 'ε']), names=lambda j: pool[j])
            yield {'kind': 'nfa', 'X': X, 'sr': sr}
    for i in range(200 * K):
        X = gen.random_pda(rng, markers=True)
        e0 = X['eps']
        e1 = '_' if e0 == '' else e0
        fix = lambda x: e1 if x == e0 else x
        X['eps'] = e1
        X['Gamma'] = [g for g in X['Gamma'] if g != '∅']
        X['delta'] = [[p, fix(a), fix(u), [[q, fix(v)] for q, v in T]] for p, a, u, T in X['delta']
                      if u != '∅' and all(v != '∅' for _, v in T)]
        yield {'kind': 'pda', 'X': X}
    for i in range(200 * K):
        yield {'kind': 'tm', 'X': gen.random_tm(rng)}
    for i in range(250 * K):
        Sg = rng.choice([['a', 'b'], ['a'], ['a', 'b', 'c'], ['x', 'y']])
        yield {'kind': 'regexp', 'X': gen.random_regexp(rng, rng.randint(0, 8), Sg)}
    for i in range(150 * K):
        G = gen.random_cfg(rng, nvars=rng.randint(1, 4), maxlen=3)
        if all(any(l == v for l, _, _ in G['R']) for v in G['V']) and G['R'][0][0] == G['S']:
            if rng.random() < 0.3:      # a user-declared empty-word symbol
                G['eps'] = rng.choice(['e', '_', 'z'])
            yield {'kind': 'cfg', 'X': G}

    for i in range(10 * K):       # one variable with 18-30 alternatives: a printed rule much longer than 79 columns
        yield {'kind': 'cfg', 'X': gen.wide_cfg(rng)}
    for i in range(1 if not thorough else 4):      # more than 256 transitions
        yield {'kind': 'dfa', 'X': gen.wide_dfa(rng)}
    for i in range(30 * K):       # state names that are keywords up to case, or that merely begin with a keyword
        pool = rng.sample(['Final', 'Initial', 'States', 'Accept', 'Reject', 'Blank', 'Epsilon', 'final_q', 'initial_q', 'states2', 'statesman'], 5)
        if i % 2:
            yield {'kind': 'dfa', 'X': gen.random_dfa(rng, 5, names=lambda j: pool[j])}
        else:
            yield {'kind': 'nfa', 'X': gen.random_nfa(rng, 5, eps=rng.choice(['_', 'ε']), names=lambda j: pool[j])}
    for i in range(10 * K):       # 11-13 numbered states
        yield {'kind': 'dfa', 'X': gen.numbered_dfa(rng)}


BUILD = {'dfa': enc.build_dfa, 'nfa': enc.build_nfa, 'pda': enc.build_pda, 'tm': enc.build_tm}
PRINT = {'dfa': DA.print_dfa, 'nfa': NA.print_nfa, 'pda': PA.print_pda, 'tm': TA.print_tm}
PARSE = {'dfa': DA.parse_dfa, 'nfa': NA.parse_nfa, 'pda': PA.parse_pda, 'tm': TA.parse_tm}
CANON = {'dfa': enc.canon_dfa, 'nfa': enc.canon_nfa, 'pda': enc.canon_pda, 'tm': enc.canon_tm}
KEY = {'dfa': 'D', 'nfa': 'N', 'pda': 'P', 'tm': 'T'}


def canon_model(kind, o):
    if kind == 'dfa':
        return enc.canon_dfa_spec(o)
    if kind == 'nfa':
        return enc.canon_nfa_spec(o)
    if kind == 'pda':
        return enc.canon_pda_spec(o)
    d = {}
    for p, a, q, b, dr in o['delta']:
        d.setdefault((p, a), [p, a, q, b, dr])
    return {'Q': sorted(set(o['Q'])), 'Sigma': sorted(set(o['Sigma'])), 'Gamma': sorted(set(o['Gamma'])),
            'delta': sorted(d.values()), 'q0': o['q0'], 'qa': o['qa'], 'qr': o['qr'], 'blank': o['blank']}


def representable(kind, X):
    return not (set(X['Q']) & OWN_KEYWORDS[kind])


def lean_requests(c):
    k = c['kind']
    if k in BUILD:
        obj = BUILD[k](c['X'])
        text = call(PRINT[k], obj)
        c['_text'] = text
        reqs = [{'op': 'print_' + k, KEY[k]: c['X']}]
        if 'ok' in text:
            reqs.append({'op': 'parse_' + k, 'text': text['ok'], 'state_regex': c.get('sr', '')})
        return reqs
    if k == 'cfg':
        G = enc.build_cfg(c['X'])
        t = call(CA.cfg_print_simple, G)
        c['_cfgtext'] = t
        reqs = [{'op': 'print_simple_cfg', 'G': c['X']}]
        if 'ok' in t:
            reqs.append({'op': 'parse_simple_cfg', 'text': t['ok']})
            reqs.append({'op': 'parse_simple_cfg', 'text': messy(t['ok'], c['X'])})
        return reqs
    if k == 'regexp':
        r = enc.build_regexp(c['X'])
        c['_texts'] = [print_regexp(r), print_regexp_simple(r), spaced(print_regexp_simple(r), c['X'])]
        return [{'op': 'regexp_print', 'r': c['X']}, {'op': 'regexp_parse_full', 'text': c['_texts'][0]},
                {'op': 'regexp_parse_simple', 'text': c['_texts'][1]}, {'op': 'regexp_parse_simple', 'text': c['_texts'][2]}]
    return []


def messy(t, X):
    """a layout variant of a grammar text: comment line, blank line, extra blanks, explicit epsilon declaration"""
    h = int(core.digest(X)[:4], 16)
    lines = t.split('\n')
    if h % 2:
        lines = ['% grammar'] + lines
    if h % 3 == 0:
        lines = [l.replace(' | ', '|').replace(' -> ', '  ->') for l in lines]
    if h % 5 == 0 and 'ε' in t:
        lines = ['epsilon = ε', ''] + lines
    return '\n'.join(lines) + ('\n' if h % 7 == 0 else '')


def spaced(t, X):
    """a layout variant: blanks around operators, redundant parentheses around the whole expression"""
    h = core.digest(X)
    t2 = t.replace('+', ' + ') if int(h[0], 16) % 2 else t
    return '(%s)' % t2 if int(h[1], 16) % 2 else t2 + ' '


def judge(ctx, c, answers):
    k = c['kind']
    if k in BUILD:
        if not representable(k, c['X']):
            ctx.count(k + ':state-named-like-own-keyword')
            return
        obj = BUILD[k](c['X'])
        want = CANON[k](obj)
        text = c.get('_text') or call(PRINT[k], obj)
        if 'ok' not in text:
            ctx.violation('printer-raises', {'case': c_min(c), 'impl': text})
            return
        t = text['ok']
        if c.get('sr'):
            from gambatools.automaton_algorithms import state_set_regex, state_product_regex, state_word_or_set_regex
            rx = {'set': state_set_regex, 'product': state_product_regex, 'word_or_set': state_word_or_set_regex}[c['sr']]()
            back = call(PARSE[k], t, state_regex=rx)
        else:
            back = call(PARSE[k], t)
        bad = False
        if 'ok' not in back:
            ctx.violation('round-trip', {'case': c_min(c), 'text': t, 'problem': 'parse raises %s %s' % (back.get('err'), back.get('msg'))})
            bad = True
        elif CANON[k](back['ok']) != want:
            ctx.violation('round-trip', {'case': c_min(c), 'text': t, 'parsed': CANON[k](back['ok']), 'original': want})
            bad = True
        def norm(x):
            if k != 'pda' or not isinstance(x, str):      # print_pda iterates target SETS: label order within a line is hash dependent
                return x
            return '\n'.join(' '.join(l.split()[:2] + sorted(l.split()[2:])) if len(l.split()) > 2 and l.split()[0] not in OWN_KEYWORDS['pda'] else l
                             for l in x.split('\n'))
        if norm(answers[0].get('ok')) != norm(t):
            ctx.violation('correspondence:print_' + k, {'case': c_min(c), 'impl': t, 'model': answers[0]}, no_input=not bad)
        if len(answers) > 1:
            m = answers[1]
            if 'ok' not in m or canon_model(k, m['ok']) != (CANON[k](back['ok']) if 'ok' in back else None):
                ctx.violation('correspondence:parse_' + k, {'case': c_min(c), 'text': t, 'impl': str(back)[:300], 'model': m}, no_input=not bad)
        if CANON[k](obj) != want:
            ctx.violation('argument-mutated', {'case': c_min(c)})
        ctx.record('%s/%s' % (k, core.digest(c['X'])), norm(t))
        ctx.count(k)
        ctx.case(c_min(c), len(c['X']['Q']) >= 2 and len(c['X']['delta']) >= 1)
        return
    if k == 'regexp':
        r = enc.build_regexp(c['X'])
        t1 = print_regexp(r)
        b1 = EX.try_parse(parse_regexp, t1)
        if b1 is None or enc.regexp_to_spec(b1) != c['X']:
            ctx.violation('regexp-round-trip', {'case': c_min(c), 'text': t1, 'parsed': enc.regexp_to_spec(b1) if b1 is not None else None})
        for name, pr in (('simple', print_regexp_simple), ('str', str)):
            t2 = pr(r)
            b2 = EX.try_parse(parse_simple_regexp, t2.replace(' . ', '').replace(' + ', '+') if name == 'str' else t2)
            if b2 is None:
                ctx.violation('regexp-round-trip', {'case': c_min(c), 'syntax': name, 'text': t2, 'problem': 'does not parse'})
                continue
            s2 = enc.regexp_to_spec(b2)
            Sg = sorted(oracles.rx_symbols(c['X'])) or ['a']
            diff = [w for w in gen.all_words(Sg, 4 if len(Sg) <= 2 else 3) if oracles.rx_matches(c['X'], w) != oracles.rx_matches(s2, w)]
            if diff:
                ctx.violation('regexp-round-trip', {'case': c_min(c), 'syntax': name, 'text': t2, 'word': diff[0], 'parsed': s2})
            elif name == 'simple' and print_regexp_simple(b2) != t2:
                ctx.violation('regexp-round-trip', {'case': c_min(c), 'syntax': name, 'text': t2, 'reprinted': print_regexp_simple(b2)})
        if answers:
            texts = c.get('_texts') or [print_regexp(r), print_regexp_simple(r), spaced(print_regexp_simple(r), c['X'])]
            pm = answers[0].get('ok', {})
            if (pm.get('full'), pm.get('simple'), pm.get('str')) != (texts[0], texts[1], str(r)):
                ctx.violation('correspondence:regexp_print', {'case': c_min(c), 'impl': [texts[0], texts[1], str(r)], 'model': pm}, no_input=True)
            only_letters = all(len(a) == 1 and a.isalpha() and a.isascii() for a in oracles.rx_symbols(c['X']))
            for la, t, parser in ((answers[1], texts[0], parse_regexp), (answers[2], texts[1], parse_simple_regexp), (answers[3], texts[2], parse_simple_regexp)):
                b = EX.try_parse(parser, t)
                try:
                    bs = enc.regexp_to_spec(b) if b is not None else None
                except Exception:
                    bs = None
                if only_letters and la.get('ok') != bs:
                    ctx.violation('correspondence:regexp_parse', {'case': c_min(c), 'text': t, 'impl': bs, 'model': la}, no_input=True)
        ctx.count('regexp')
        ctx.case(c_min(c), len(repr(c['X'])) > 40)
        return
    G = enc.build_cfg(c['X'])
    t = call(CA.cfg_print_simple, G)
    if 'ok' not in t:
        ctx.violation('printer-raises', {'case': c_min(c), 'impl': t})
        return
    if answers:
        if answers[0].get('ok') != t['ok']:
            ctx.violation('correspondence:print_simple_cfg', {'case': c_min(c), 'impl': t['ok'], 'model': answers[0]}, no_input=True)
        for la, text in zip(answers[1:], [t['ok'], messy(t['ok'], c['X'])]):
            bb = EX.try_parse(CA.parse_simple_cfg, text)
            if bb is None:
                same = 'err' in la
            else:
                sb = enc.cfg_to_spec(bb)
                m = la.get('ok', {}).get('G')
                same = m is not None and (sorted(set(m['V'])), sorted(set(m['Sigma'])), m['S'], [[l, r] for l, _, r in m['R']]) == \
                    (sb['V'], sb['Sigma'], sb['S'], [[l, [list(x) for x in r]] for l, _, r in sb['R']]) and la['ok']['eps'] == str(bb.epsilon)
            if not same:
                ctx.violation('correspondence:parse_simple_cfg', {'case': c_min(c), 'text': text, 'model': str(la)[:300]}, no_input=True)
    b = EX.try_parse(CA.parse_simple_cfg, t['ok'])
    used_sigma = sorted({n for _, _, rhs in c['X']['R'] for kk, n in rhs if kk == 't'})
    if b is None:
        ctx.violation('cfg-round-trip', {'case': c_min(c), 'text': t['ok'], 'problem': 'does not parse'})
    else:
        s = enc.cfg_to_spec(b)
        same = (sorted(s['V']) == sorted(set(c['X']['V'])) and s['S'] == c['X']['S'] and sorted(s['Sigma']) == used_sigma and
                sorted([l, r] for l, _, r in s['R']) == sorted([l, [list(x) for x in r]] for l, _, r in c['X']['R']))
        if not same:
            ctx.violation('cfg-round-trip', {'case': c_min(c), 'text': t['ok'], 'parsed': s})
    ctx.count('cfg')
    ctx.case(c_min(c), len(c['X']['R']) >= 2)


def c_min(c):
    return {'kind': c['kind'], 'X': c['X'], 'sr': c['sr']} if c.get('sr') else {'kind': c['kind'], 'X': c['X']}


def run(ctx):
    core.run_cases(ctx, __import__('props.c16', fromlist=['x']), cases(ctx))
