"""C04 — minimisation returns an equivalent DFA with no two equivalent states."""
import core, enc, gen, oracles
from core import call
from gambatools import dfa_algorithms as DA

META = {
    'level': 'proof',
    'rule': 'all DFAs with <=3 states over {a} and <=2 states over {a,b} (quick) / <=3 over {a,b} (thorough), seeded random DFAs '
            'with 1-7 states (one state, F empty, F = Q, unreachable states, chains); the three routines are compared with the Lean '
            'models (exact, names included) and checked directly: valid DFA, same alphabet, language equal (exact product BFS), '
            'states pairwise distinguishable, size between the Nerode-class counts of reachable / all states, input untouched, same '
            'result under every hash seed; non-trivial = input with two equivalent states or an unreachable state; distinct by content; also modulo-n counter DFAs with random names (several refinement rounds), state names that look like class names (\'{q1,q2}\' next to equivalent q1, q2; \'a,b\': the recorded class-name finding is decided per case); one minimal DFA with ~256 states in which every pair of class positions occurs as a successor signature (table-filling model skipped there), names of 40+ characters with a common prefix',
    'assumptions': ['DFA.valid (constructor); state names \\w+'],
    'trusted_base': ['Spec: Gamba/Spec/Automata.lean (Dist, Reachable)'],
}
ROUTINES = [('dfa_minimize', DA.dfa_minimize), ('dfa_quotient', DA.dfa_quotient), ('dfa_hopcroft', DA.dfa_hopfcroft)]


def cases(ctx):
    thorough = ctx.tier == 'thorough'
    for n, Sig in ((1, ['a']), (2, ['a']), (3, ['a']), (2, ['a', 'b'])):
        for s in gen.exhaustive_dfas(n, Sig):
            yield {'D': s}
    if thorough:
        for i, s in enumerate(gen.exhaustive_dfas(3, ['a', 'b'])):
            if ctx.mine(i):
                yield {'D': s}
    rng = ctx.rng
    # one large minimal DFA in which every pair of class positions occurs as a successor signature (>= 11 classes: two-digit positions)
    for i in range(1 if not thorough else 4):
        yield {'D': gen.signature_complete_dfa(rng), 'sched': [], 'lean_ops': ['dfa_quotient', 'dfa_hopcroft']}
    n = 1100        # a unary countdown chain: ~n refinement rounds (deeper than the default recursion limit)
    yield {'D': {'Q': ['k%d' % i for i in range(n)], 'Sigma': ['a'], 'delta': [['k%d' % i, 'a', 'k%d' % min(i + 1, n - 1)] for i in range(n)],
                 'q0': 'k0', 'F': ['k%d' % (n - 1)]}, 'sched': [], 'lean_ops': [], 'only': ['dfa_quotient', 'dfa_hopcroft']}
    # long state names with a long common prefix (products of automata with descriptive names)
    for i in range(30 if not thorough else 300):
        s = gen.counter_dfa(rng) if i % 3 == 0 else gen.random_dfa(rng, 6)
        pre = rng.choice(['number_of_letters_a_seen_so_far_modulo_three_is_', 'q' * 40 + '_', 'state(' + 'x' * 30 + ')'])
        m = {q: pre + q for q in s['Q']}
        s = {'Q': [m[q] for q in s['Q']], 'Sigma': s['Sigma'], 'delta': [[m[p], a, m[q]] for p, a, q in s['delta']], 'q0': m[s['q0']],
             'F': [m[q] for q in s['F']]}
        if not thorough or ctx.mine(i):
            yield {'D': s, 'sched': [rng.randint(0, 7) for _ in range(10)]}
        s = gen.counter_dfa(rng) if i % 7 == 3 else gen.random_dfa(rng, 7)
        if i % 20 == 6 and len(s['Q']) <= 7:      # state names that look like class names (legal str names)
            pool = rng.choice([['q1', 'q2', '{q1,q2}', '{q1}', 'q3', '{q3}', 'q4'], ['a', 'b', 'a,b', 'c', '{a}', 'd', 'e']])
            m = dict(zip(s['Q'], pool))
            s = {'Q': [m[q] for q in s['Q']], 'Sigma': s['Sigma'], 'delta': [[m[p], a, m[q]] for p, a, q in s['delta']], 'q0': m[s['q0']],
                 'F': [m[q] for q in s['F']]}
        if i % 20 == 13:     # two equivalent states q1, q2 (one a copy of the other) next to a state literally named '{q1,q2}'
            b = gen.random_dfa(rng, 4)
            ren = dict(zip(b['Q'], ['q1', '{q1,q2}', 'q3', '{q3}']))
            f = lambda q: ren[q]
            s = {'Q': [f(q) for q in b['Q']] + ['q2'], 'Sigma': b['Sigma'], 'q0': f(b['q0']), 'F': [f(q) for q in b['F']],
                 'delta': [[f(p), a, f(q)] for p, a, q in b['delta']]}
            s['delta'] += [['q2', a, t] for p, a, t in s['delta'] if p == 'q1']
            if 'q1' in s['F']:
                s['F'].append('q2')
            for e in s['delta']:
                if e[2] == 'q1' and rng.random() < 0.5:
                    e[2] = 'q2'
        if i % 3 == 1:       # the transition table filled in another order (per state: another symbol order), as after parsing hand-written text
            s = dict(s, delta=sorted(s['delta'], key=lambda e: rng.random()))
        if not thorough or ctx.mine(i):
            yield {'D': s, 'sched': [rng.randint(0, 7) for _ in range(10)]}


def lean_requests(c):
    # `lean_ops` (large inputs): the table-filling model is cubic in |Q| on lists; it is then left to the independent oracles
    return [{'op': op, 'D': c['D'], 'sched': c.get('sched', [])} for op, _ in ROUTINES if op in c.get('lean_ops', [o for o, _ in ROUTINES])]


def judge(ctx, c, answers):
    D = enc.build_dfa(c['D'])
    before = enc.canon_dfa(D)
    n_all, _ = oracles.nerode_classes(D)
    n_reach, _ = oracles.nerode_classes(D, oracles.reachable(D))
    res = []
    # the documented naming scheme (classes named by sorted set notation) may itself merge two classes when names contain ',' or
    # are empty: decided with the reference partition, attributed to the recorded finding (same root cause as in C03)
    _, cls = oracles.nerode_classes(D)
    blocks = {}
    for q, k in cls.items():
        blocks.setdefault(k, set()).add(q)
    nm = {}
    collide = False
    for B in blocks.values():
        t = '{' + ','.join(sorted(B)) + '}'
        if t in nm and nm[t] != B:
            collide = True
        nm[t] = B
    if collide:
        ctx.count('class-name-collision')
        for (op, f), la in zip(ROUTINES, answers):
            got = call(f, D, limit=20)
            ok = 'ok' in got and oracles.dfa_valid(got['ok']) and oracles.distinguish(D, got['ok'], D.Sigma) is None
            if not ok:
                ctx.violation(op + '-class-name-collision', {'case': c, 'impl': str(got)[:300]}, finding_key='minimize-class-name-collision')
        ctx.case(c, False)
        return
    ops = c.get('lean_ops', [o for o, _ in ROUTINES])
    ans = iter(answers)
    for (op, f) in ROUTINES:
        if op not in c.get('only', [o for o, _ in ROUTINES]):
            continue
        la = next(ans) if op in ops else None
        got = call(f, D, limit=60)
        if 'ok' not in got:
            ctx.violation(op + '-raises', {'case': c, 'impl': got})
            continue
        M = got['ok']
        cm = enc.canon_dfa(M)
        res.append(cm)
        problems = []
        word = None
        if not oracles.dfa_valid(M):
            problems.append('invalid DFA')
        elif set(M.Sigma) != set(D.Sigma):
            problems.append('alphabet changed')
        else:
            word = oracles.distinguish(D, M, D.Sigma)
            if word is not None:
                problems.append('language differs on %r' % word)
            k, _ = oracles.nerode_classes(M)
            if k != len(M.Q):
                problems.append('two states of the result are equivalent')
            if not (n_reach <= len(M.Q) <= n_all):
                problems.append('size %d not in [%d, %d]' % (len(M.Q), n_reach, n_all))
        if problems:
            ctx.violation(op, {'case': c, 'problems': problems, 'impl': cm})
        if la is None:
            ctx.count(op + ':checked-by-oracles-only')
        elif 'ok' not in la or enc.canon_dfa_spec(la['ok']) != cm:
            ctx.violation('correspondence:' + op, {'case': c, 'impl': cm, 'model': la}, no_input=not problems)
        ctx.count(op)
    if enc.canon_dfa(D) != before:
        ctx.violation('argument-mutated', {'case': c})
    ctx.record('min/' + core.digest(c['D']), res)
    ctx.count('classes=%d' % min(n_all, 6))
    ctx.case(c, n_all < len(D.Q) or len(oracles.reachable(D)) < len(D.Q))


def run(ctx):
    core.run_cases(ctx, __import__('props.c04', fromlist=['x']), cases(ctx))
