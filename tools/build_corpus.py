#!/usr/bin/env python3
"""Builds corpus/<property>.jsonl from the seeded changes: for every seeded/<id>-<n>/ the check of its property is run against
/repo + patch (scratch worktree, GAMBA_REPO, corpus switched off); the smallest case with a concrete failing input is kept if replaying it
alone (a) raises the violation on the patched tree and (b) is silent on the unchanged tree.  Usage: tools/build_corpus.py [--jobs 6]"""
import argparse, glob, json, os, shutil, subprocess, sys, tempfile
from concurrent.futures import ThreadPoolExecutor
ap = argparse.ArgumentParser()
ap.add_argument('--jobs', type=int, default=6)
ap.add_argument('--only', default='')
a = ap.parse_args()
VERIF = os.path.dirname(os.path.dirname(os.path.abspath(__file__)))
CHECK = ['/venv/bin/python', os.path.join(VERIF, 'harness', 'check.py')]


def run(prop, env, extra=()):
    return subprocess.run(CHECK + ['--property', prop, '--tier', 'quick'] + list(extra), cwd=VERIF, env=env, capture_output=True, timeout=3600)


def one(d):
    name = os.path.basename(d)
    prop = name.split('-')[0]
    scratch = tempfile.mkdtemp(prefix='gamba-corpus-')
    try:
        wt = scratch + '/wt'
        subprocess.run(['git', '-C', '/repo', 'worktree', 'add', '-q', '--detach', wt, 'HEAD'], check=True)
        if subprocess.run(['git', '-C', wt, 'apply', os.path.join(d, 'patch.diff')]).returncode:
            return name, None, 'patch does not apply'
        rd = os.path.join(scratch, 'replays')
        env = dict(os.environ, GAMBA_REPO=wt, VERIF_NO_EVIDENCE='1', VERIF_NO_CORPUS='1', VERIF_REPLAY_DIR=rd, VERIF_REPLAY_ISOLATED_ONLY='1')
        run(prop, env)
        cands = []
        for f in sorted(glob.glob(rd + '/*.json')):
            r = json.load(open(f))
            if r['kind'] == 'lean-gate' or not r['detail'].get('case') or r.get('no_failing_input_found'):
                continue
            cands.append((len(json.dumps(r['detail']['case'])), f, r))
        cands.sort(key=lambda x: x[0])
        clean = dict(os.environ, VERIF_NO_EVIDENCE='1', VERIF_NO_CORPUS='1', VERIF_REPLAY_DIR=os.path.join(scratch, 'r2'), VERIF_REPLAY_ISOLATED_ONLY='1')
        for _, f, r in cands[:8]:
            again = run(prop, dict(env, VERIF_REPLAY_DIR=os.path.join(scratch, 'r1')), ['--replay', f])
            if again.returncode != 1 or b'no-failing-input-found' in again.stdout.split(b'VIOLATION', 1)[-1].split(b'\n')[0]:
                continue
            if run(prop, clean, ['--replay', f]).returncode != 0:
                continue
            return name, {'from': name, 'kind': r['kind'], 'case': r['detail']['case']}, 'ok'
        return name, None, 'no replayable failing input among %d candidates' % len(cands)
    finally:
        subprocess.run(['git', '-C', '/repo', 'worktree', 'remove', '--force', scratch + '/wt'], capture_output=True)
        shutil.rmtree(scratch, ignore_errors=True)


dirs = sorted(glob.glob(os.path.join(VERIF, 'seeded', 'C*-*')))
if a.only:
    dirs = [d for d in dirs if os.path.basename(d) in a.only.split(',')]
out = {}
with ThreadPoolExecutor(a.jobs) as ex:
    for name, entry, msg in ex.map(one, dirs):
        print(name, msg, flush=True)
        if entry:
            out.setdefault(name.split('-')[0], []).append(entry)
os.makedirs(os.path.join(VERIF, 'corpus'), exist_ok=True)
for prop, entries in out.items():
    path = os.path.join(VERIF, 'corpus', prop + '.jsonl')
    old = []
    if os.path.exists(path) and a.only:
        old = [json.loads(l) for l in open(path, encoding='utf8') if l.strip()]
        old = [e for e in old if e['from'] not in {x['from'] for x in entries}]
    with open(path, 'w', encoding='utf8') as f:
        for e in old + entries:
            f.write(json.dumps(e, ensure_ascii=False) + '\n')
print({p: len(v) for p, v in out.items()})
