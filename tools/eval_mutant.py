#!/usr/bin/env python3
"""Evaluate a seeded change: tools/eval_mutant.py <dir with patch.diff [demo.py]> [--props C01,C19] [--tier quick]
Applies the patch to a scratch copy of /repo (outside /repo and /verif), confirms tests pass / demo fails, runs the checks
against the copy (GAMBA_REPO) and reports which checks raise a VIOLATION.  Removes the scratch copy afterwards."""
import argparse, json, os, shutil, subprocess, sys, tempfile

ap = argparse.ArgumentParser()
ap.add_argument('dir')
ap.add_argument('--props', default='')
ap.add_argument('--tier', default='quick')
ap.add_argument('--patch', default='patch.diff')
ap.add_argument('--demo', default='demo.py')
ap.add_argument('--skip-tests', action='store_true')
a = ap.parse_args()
VERIF = os.path.dirname(os.path.dirname(os.path.abspath(__file__)))
scratch = tempfile.mkdtemp(prefix='gamba-mut-')
out = {'dir': a.dir}
try:
    subprocess.run(['git', '-C', '/repo', 'worktree', 'add', '-q', '--detach', scratch + '/wt', 'HEAD'], check=True)
    wt = scratch + '/wt'
    demo = os.path.abspath(os.path.join(a.dir, a.demo))
    env = dict(os.environ, PYTHONPATH=wt + '/src')
    if os.path.exists(demo):
        out['demo_without'] = subprocess.run(['/venv/bin/python', demo], env=env, cwd=wt, capture_output=True, timeout=600).returncode
    r = subprocess.run(['git', '-C', wt, 'apply', os.path.abspath(os.path.join(a.dir, a.patch))], capture_output=True)
    out['apply'] = r.returncode
    if r.returncode:
        out['apply_err'] = r.stderr.decode()[-300:]
    else:
        if not a.skip_tests:
            t = subprocess.run(['/venv/bin/python', '-m', 'pytest', '-q', '-p', 'no:cacheprovider'], env=env, cwd=wt, capture_output=True, timeout=900)
            out['tests'] = t.stdout.decode().strip().split('\n')[-1]
        if os.path.exists(demo):
            out['demo_with'] = subprocess.run(['/venv/bin/python', demo], env=env, cwd=wt, capture_output=True, timeout=600).returncode
        props = [p for p in a.props.split(',') if p] or ['C%02d' % i for i in range(1, 21)]
        out['checks'] = {}
        procs = {}
        for p in props:
            e = dict(os.environ, GAMBA_REPO=wt, VERIF_NO_EVIDENCE='1')
            procs[p] = subprocess.Popen(['/venv/bin/python', os.path.join(VERIF, 'harness', 'check.py'), '--property', p, '--tier', a.tier],
                                        env=e, cwd=VERIF, stdout=subprocess.PIPE, stderr=subprocess.DEVNULL)
        for p, pr in procs.items():
            so, _ = pr.communicate(timeout=3600)
            lines = so.decode().split('\n')
            kinds = sorted({l.split('kind=')[1].split()[0] for l in lines if l.startswith('VIOLATION') and 'kind=' in l})
            out['checks'][p] = {'rc': pr.returncode, 'kinds': kinds, 'no_input_only': all('no-failing-input-found' in l for l in lines if l.startswith('VIOLATION')) if kinds else None}
finally:
    subprocess.run(['git', '-C', '/repo', 'worktree', 'remove', '--force', scratch + '/wt'], capture_output=True)
    shutil.rmtree(scratch, ignore_errors=True)
print(json.dumps(out, indent=1))
