#!/usr/bin/env python3
"""Regenerates MANIFEST.json from the table below (keeps it valid at all times)."""
import json, os
HERE = os.path.dirname(os.path.dirname(os.path.abspath(__file__)))
PY = '/venv/bin/python harness/check.py'

TB = ('Trusted: Lean 4.33.0 kernel; axioms propext/Classical.choice/Quot.sound only (audited by #print axioms on every run); the Spec/*.lean definitions (those of DFA, epsilon-NFA, regular expressions and CFGs are proved equal to Mathlib definitions in lean/Bridge and need not be trusted); the correspondence harness (harness/*.py, lean/Driver) which ties the hand-written model to /repo by differential execution on generated inputs (a test, not a proof); CPython, copy.deepcopy, re, ANTLR are modelled not verified.')

CLAIMED = {
 'C01': ('proof', 'Theorems dfa_accepts_iff, epsClosure_exact, closure_terminates/closure_exact, eqa_exact, nfa_accepts_iff, nfa_accepts_sched_indep: the executable models of dfa_accepts_word / epsilon_closure / _nfa_cache / nfa_accepts_word equal the textbook run semantics for every valid automaton, word over the alphabet, fuel and pop order. Model tied to the code by exhaustive small-scope + seeded differential runs with an independent BFS oracle as third voice.', '6 C01'),
 'C05': ('proof', 'Theorems regexp_matches_iff, regexp_simplify_lang, regexp_simplify_size, regexp_simplify_nodes for all trees and words (nested stars, star of nullable operands). Tie: all trees with <=2/3 operators x all words <=3/4 plus random trees, derivative-based oracle as third voice.', '6 C05'),
 'C11': ('proof', 'Theorems tm_step_spec, tm_head_inv, tm_doTransition_spec, tm_accepts_true/false/none_iff, tm_budget_mono, tm_simulate_trace, tm_simulate_verdict: the model of the simulator realises the Sipser step relation with the library conventions, three-valued verdict exactly characterised, trace = prefix of the step sequence; for all machines, words, budgets.', '6 C11'),
 'C02': ('proof', 'Theorems dfa_words_exact, nfa_words_exact, regexp_words_exact, regexp_words_matches, tm_words_exact, cfg_words_exact_cnf, cfg_words_exact, pda_words_sound/exact/matches_accepts: each bounded enumerator model returns exactly the words of length <= n over Sigma that the spec language contains (= what the proved acceptance test accepts), for every n including 0. generate_language dispatch is tied by the harness. PDA clause under the no-truncation hypothesis the property states.', '6 C02'),
 'C03': ('proof', 'Theorems nfaToDfa_spec (termination within the fuel, valid total DFA, same alphabet, initial state = epsilon closure, every state reachable, language equal for words of every length), nfaToDfa_sched_indep, nfaToDfa_named, nfaToDfa_loop_partial; printStateSet_inj and nfaToDfa_named_clean (print_state_set names: the full statement for every NFA whose state names are non-empty and comma-free), and the formal boundary: printStateSet_collision_empty_name/_comma, nfaToDfa_name_collision_witness (recorded finding nfa2dfa-subset-name-collision). Spec bridged to Mathlib (epsilon-NFA, DFA).', '6 C03'),
 'C07': ('proof', 'Theorems cyk_total, cyk_cell_sound, cyk_cell_exact_of_valid (every cell holds exactly the variables deriving the subword), cfg_accepts_cnf_sound, cfg_accepts_cnf_iff_of_valid; for arbitrary grammars cfg_accepts_iff composes with the C08 pipeline theorem; CFG.Lang is proved equal to the Mathlib ContextFreeGrammar.language (Bridge). Tie: every table cell and verdict against a span-saturation oracle on the ORIGINAL grammar.', '6 C07'),
 'C08': ('proof', 'Per-phase theorems addStart_spec, removeEps_spec (incl. nullable_exact), elimUnit_spec (incl. derivable_exact, order independence), binarise_spec, isolateTerminals_spec (language preserved + postcondition + fresh variables new and pairwise distinct, also beyond 26 variables: freshVariable_fresh, freshVariables_distinct); the model tracks the aliasing of Alternative objects that the in-place phases observe. Composition toChomsky_spec and applyChomsky_lang (every phase prefix).', '6 C08'),
 'C09': ('proof', 'Theorems pda_moves_iff, pda_epsClosure_sound/complete/not_truncated, pda_accepts_sound (every limit, every pop order), pda_accepts_complete (whenever no closure on the way is truncated).', '6 C09'),
 'C18': ('proof', 'Theorems nfa_union_spec, nfa_concat_spec, nfa_repetition_spec (valid result, epsilon preserved, language = union / concatenation / Kleene star) for disjoint operands and any fresh state; nfa_union_spec_eps / nfa_concat_spec_eps for operands with DIFFERENT epsilon symbols (exact condition: the epsilon of the first operand is not an input symbol of the second) and nfa_*_eps_clash otherwise (the constructor assertion fails); genFresh_fresh (the generated name is never an operand state, whatever the counter), nfa_union_history_indep.', '6 C18'),
 'C04': ('proof', 'Theorems table_exact / minimizeTable_spec (table filling), quotient_spec (Moore refinement), hopcroft_spec / hopcroft_terminates (Hopcroft with the stale waiting-set entries of the code, every pop order): each routine terminates within its fuel and returns a valid DFA over the same alphabet whose states are exactly the Myhill-Nerode classes of ALL input states (DFA.IsNerode), hence same language, pairwise distinguishable states, size = number of classes (which lies between the class counts of reachable and of all states). With print_state_set names: minimize/quotient/hopcroft_named_clean (full statement for non-empty comma-free state names) and minimize_name_collision_witness (recorded finding minimize-class-name-collision).', '6 C04'),
 'C06': ('proof', 'Theorems regexpToNfa_spec (Thompson composition with generated names and the shared alphabet accumulator: valid NFA, language = denoted language, all word lengths), toGnfa_spec, rip_spec, rip_label_lang, toRegexp_lang (state elimination in EVERY order yields an expression denoting exactly L(D)).', '6 C06'),
 'C10': ('proof', 'Theorems pda_oneAccepting_spec, pda_emptyStack_spec / pda_emptyStackS_spec (with the drain state: same language and acceptance only with the empty stack), pda_pushPopS_spec, tripleCfg_sound / tripleCfg_complete / tripleCfg_lang (Sipser Lemma 2.27 for the model of the triple construction); the end-to-end composition pda_toCfg_lang (state names without an apostrophe; otherwise the recorded finding pda2cfg-variable-name-collision). Bridge (Mathlib): pda_accepts_iff_mathlib_cfg / pda_language_isContextFree state the PDA language through Mathlib\'s ContextFreeGrammar.language via the proved conversion.', '6 C10'),
 'C12': ('proof', 'Theorems compare_none_iff / compare_extra / compare_missing (language comparison: empty feedback iff equal; reported word genuine, right polarity, minimal length, extra before missing) and chk_*_sound for every object-level checker model (language-from-words, accept/reject lists, three products, complement, reverse, minimal, NFA->DFA, CYK table, derivations, Chomsky phases): verdict OK implies the exercise criterion. TEXT level (Model/CheckText.lean = library parsers o checker o verdict): complement/product/reverse/minimal/nfa2dfa/dfa2regexp/cyk/derivation/chomsky_text_sound with no hypothesis other than that the verdict is OK (validity and duplicate-freeness of parser results are proved); the whole pipeline is tied to the Python checkers on every (instance, answer) pair. The generated ANTLR regexp parser recovers from syntax errors; the Lean parser is strict, texts it rejects are outside the dfa2regexp tie. The language-file, accept/reject-list and word-list checkers (dfa/nfa/cfg) are modelled on text as well, with their own soundness theorems (C12d, C12e, C12f).', '6 C12'),
 'C15': ('proof', 'Theorems dfa_simulate_valid, nfa_simulate_valid, nfa_simulate_some_iff (a genuine accepting run is produced, in finite time, exactly for accepted words, every pop order; generic back-pointer search findPath_sound/none/total), pda_simulate_valid / _accepts / _none_iff, cfg_derive_valid / cfg_derive_rejects (leftmost and rightmost derivations from the CYK table). PDA termination is the partial clause pda_simulate_terminates_partial (finite epsilon-reachable universe).', '6 C15'),
 'C20': ('proof', 'Theorems isomorphic1_iff, isomorphic_iff (both routines terminate within their fuel and answer True exactly when the reachable parts are isomorphic, every exploration order), iso_symm, iso_lang, iso_rename, isomorphic_agree.', '6 C20'),
 'C13': ('proof', 'Theorems own_product_ok, own_complement_ok, own_reverse_ok, own_minimal_quotient_ok, own_minimal_hopcroft_ok, own_language_ok, own_chomsky_ok (+ own_chomsky_struct_ok, own_chomsky_ok_le3): the object-level checker models accept the object the generator function returns; own_nfa2dfa_ok, own_cyk_ok, own_derivation_ok, own_dfa2regexp_ok, own_minimal_*_ok_clean; TEXT level (arbitrary reference text that parses, printed key re-parsed): own_{complement,product,reverse,minimal,nfa2dfa,dfa2regexp,cyk,derivation}_text_ok. Four requested statements were refuted formally (*_stmt_false); each refutation replays on the real library. Tie: apply_command of notebooks/make_notebook.py on generated references + the shipped notebooks + the answer-key printer models. Five recorded findings (KNOWN_FINDINGS.json), each exercised by a fixed witness on every run. Chomsky phases at text level: tie only.', '6 C13'),
 'C19': ('proof', 'Order independence is proved per operation (c19_nfa_accepts, c19_nfa_words, c19_nfaToDfa, c19_hopcroft, c19_minimizers_agree, c19_toRegexp, c19_elimUnit, c19_isomorphic, c19_pda_accepts: identical value / same classes / same language for every scheduler). Argument immutability at the alias sites is proved in the heap micro-model (repetitionCopied_frame, concatCopied_frame, *_operand(s)_intact; the original shared versions are proved to mutate: *_mutates). PARTIAL: heap-level immutability outside the modelled alias sites, history independence and process-level hash-seed independence are carried by the harness (argument snapshots around every call, repeated calls, logging on/off, random call prefixes, in-place edits, 2-8 fresh processes with different PYTHONHASHSEED).', '6 C19'),
 'C16': ('proof', 'Theorems parse_print_dfa, parse_print_nfa, parse_print_pda, parse_print_tm (+ _raw variants): for every valid automaton whose state names are \\w+ and not keywords of the format and whose symbols are printable (single characters of the label classes for PDA/TM), parsing the printed text returns an automaton with the same states, alphabets, initial / accepting / halting states and transition function (F empty, alphabet empty, isolated states, several labels per edge included). parseFull_printFull, parseSimple_printSimple (both regexp syntaxes: same language, same printed form), parse_print_cfg (simple grammar format, Printable grammars); the Lean reference parsers / printers (Model/RegexpText.lean, Model/CfgText.lean) are tied to the ANTLR / regex based implementation by correspondence.', '6 C16'),
 'C17': ('proof', 'Theorems parseX_ok_valid for the four parsers (no parser ever returns an object violating its class invariant, for EVERY text), parseX_builds (the returned automaton is exactly the documented function of the parsed lines: declared or derived state set and alphabets, default epsilon / blank, last TM transition wins), rejection theorems (nondeterministic or non-total DFA, undeclared state, no / several initial states, repeated declaration, transition with fewer than three words), parseDfa/Nfa_ok_valid_gen (any state-label pattern: valid, duplicate-free states and keys), parseSimpleCfg_ok_valid; layout independence proved: comment / blank lines, white space, labels per line, ANY line order (parseLines_perm, parseDfa/Nfa_lines_perm, parse_any_layout_dfa), rejected texts stay rejected under permutation. Rendered layouts and single-fault corruptions are the tie.', '6 C17'),
 'C14': ('proof', 'Theorems product_valid/product_*_lang, complement_*, mapStates_*, noPrefix_*, makeTotal_*, freshState_fresh and the finite-language helper specs (lang*_spec, wordsOfLength_spec, wordsUpTo_spec). and reachableStates_zero/pos, removeUnreachable_spec, noExtend_spec, reverse_valid, reverse_lang. Product names (p,q): theorems for comma-free state names; with commas the recorded finding product-name-collision.', '6 C14'),
}

NOT_YET = 'check under construction in this round (model/tie exist or are being written; no theorem registered yet); see DESIGN.md section 6'

def main():
    props = [json.loads(l) for l in open(os.path.join(HERE, 'properties.jsonl'))]
    th = json.load(open(os.path.join(HERE, 'lean', 'theorems.json')))
    checks, na = [], []
    for p in props:
        pid = p['id']
        if pid in CLAIMED and th.get(pid, {}).get('full'):
            cat, text, ref = CLAIMED[pid]
            partial = th[pid].get('partial', [])
            checks.append({
                'property_id': pid,
                'quick_cmd': '%s --property %s --tier quick' % (PY, pid),
                'thorough_cmd': '%s --property %s --tier thorough' % (PY, pid),
                'evidence_file': 'evidence/%s.json' % pid,
                'replay_cmd_template': '%s --property %s --replay {path}' % (PY, pid),
                'engine': 'lean4-proof+correspondence',
                'level_claimed': {'category': cat, 'text': text + (' Partial clauses: ' + ', '.join(partial) if partial else ''),
                                  'design_ref': 'DESIGN.md section ' + ref},
                'level_note': TB,
                'technique': 'Lean 4 machine-checked proof about a hand-written executable model + differential correspondence check against /repo',
            })
        else:
            na.append({'property_id': pid, 'reason': NOT_YET})
    m = {
        'version': 1,
        'setup_cmd': 'cd lean && lake build',
        'hooks': {'guard': 'GAMBATOOLS_VERIF',
                  'enable': 'no hooks needed: all observation points are return values, stdout and argument snapshots',
                  'baseline_off_cmd': 'cd /repo && /venv/bin/python -m pytest -q -p no:cacheprovider',
                  'source_commits': [], 'add_only': True},
        'engines': [{'name': 'lean4-proof+correspondence', 'path': 'harness/check.py',
                     'serves_properties': [c['property_id'] for c in checks],
                     'kind_free_text': 'Lean 4 theorems (lean/Gamba/Props) about executable models (lean/Gamba/Model); models tied to /repo by a JSON-lines differential harness'}],
        'checks': checks,
        'not_applicable': na,
        'notes': 'Exit codes: 0 held, 1 violation (VIOLATION line + replay file), 2 harness could not run. VERIF_SEED seeds every random choice.',
    }
    json.dump(m, open(os.path.join(HERE, 'MANIFEST.json'), 'w'), indent=1)
    print('claimed:', [c['property_id'] for c in checks])

if __name__ == '__main__':
    main()
