#!/bin/bash
# usage: tools/eval_harmless.sh [dir ...]   -> runs all 20 quick checks against /repo + each behaviour-preserving patch under harmless/
# (scratch worktree, GAMBA_REPO); a check that reports a VIOLATION on one of these is a false alarm unless the patch itself is faulty
cd "$(dirname "$0")/.."
dirs="$@"; [ -z "$dirs" ] && dirs=$(ls -d harmless/*/)
for d in $dirs; do
  d=${d%/}
  python3 tools/eval_mutant.py $d --demo none.py > $d/result.json 2>/dev/null
  python3 - "$d" <<'PY'
import json,sys
d=sys.argv[1]
r=json.load(open(d+'/result.json'))
bad={p:v for p,v in r.get('checks',{}).items() if v['rc']!=0}
print(d, r.get('tests'), 'ALARMS:' if bad else 'silent', {p:(v['rc'],v['kinds'],v['no_input_only']) for p,v in bad.items()})
PY
done
