#!/bin/bash
# usage: tools/import_mut10.sh C05  -> copies /tmp/mut10/C05/out/{patch,demo,meta}1 to seeded/C05-<next> and evaluates it
id=$1; cd "$(dirname "$0")/.."
last=$(ls seeded | grep "^$id-" | sed "s/^$id-//" | sort -n | tail -1); n=$((last+1)); d=seeded/$id-$n
mkdir -p $d; cp /tmp/mut10/$id/out/patch1.diff $d/patch.diff; cp /tmp/mut10/$id/out/demo1.py $d/demo.py; cp /tmp/mut10/$id/out/meta1.json $d/meta_agent.json
python3 tools/eval_all_seeded.py --jobs 1 --only $id-$n
