#!/usr/bin/env python3
"""Re-evaluates every seeded change under seeded/<id>-<n>/ against the check of its property (and the cross-cutting C19) and writes
seeded/<id>-<n>/meta.json.  Usage: tools/eval_all_seeded.py [--jobs 4] [--extra C19]"""
import argparse, glob, json, os, subprocess, sys
from concurrent.futures import ThreadPoolExecutor
ap = argparse.ArgumentParser()
ap.add_argument('--jobs', type=int, default=4)
ap.add_argument('--only', default='')
a = ap.parse_args()
VERIF = os.path.dirname(os.path.dirname(os.path.abspath(__file__)))
EXTRA = {'C02-17': ['C19'], 'C14-17': ['C19'], 'C19-17': ['C11'], 'C19-1': ['C18'], 'C19-2': ['C10'], 'C07-1': ['C08', 'C02'], 'C08-1': ['C07', 'C02'], 'C06-1': ['C05'], 'C10-2': ['C19'], 'C04-2': ['C19']}


def one(d):
    name = os.path.basename(d)
    prop = name.split('-')[0]
    props = [prop] + EXTRA.get(name, [])
    r = subprocess.run([sys.executable, os.path.join(VERIF, 'tools', 'eval_mutant.py'), d, '--props', ','.join(props)], capture_output=True, timeout=7200)
    try:
        out = json.loads(r.stdout.decode())
    except Exception:
        out = {'error': r.stdout.decode()[-500:] + r.stderr.decode()[-500:]}
    agent = {}
    p = os.path.join(d, 'meta_agent.json')
    if os.path.exists(p):
        agent = json.load(open(p))
    checks = out.get('checks', {})
    meta = {
        'breaks_property': prop,
        'summary': agent.get('summary'), 'needs_to_manifest': agent.get('needs') or agent.get('needs_to_manifest'), 'files': agent.get('files'),
        'origin': 'written by an independent sub-agent that saw only the property text and a scratch worktree of /repo',
        'confirmed': {'existing_tests_with_patch': out.get('tests'), 'demo_exit_without_patch': out.get('demo_without'),
                      'demo_exit_with_patch': out.get('demo_with')},
        'ran': ['tools/eval_mutant.py %s --props %s   (scratch worktree of /repo + git apply patch.diff; pytest; demo.py; '
                'GAMBA_REPO=<worktree> harness/check.py --property P --tier quick)' % (os.path.relpath(d, VERIF), ','.join(props))],
        'detected_by': {p: {'exit': v['rc'], 'violation_kinds': v['kinds'], 'concrete_failing_input': (v['no_input_only'] is False)}
                        for p, v in checks.items()},
        'detected': any(v['rc'] == 1 for v in checks.values()),
    }
    if out.get('demo_with') == 0 and out.get('demo_without') == 0:
        # the demonstration passes WITH the change on the current /repo: a later repair of the library removed what the change relied on
        meta['still_breaks_property'] = False
        meta['note'] = 'neutralised by a later fix: commit of /repo (its demonstration no longer fails with the change applied)'
    json.dump(meta, open(os.path.join(d, 'meta.json'), 'w'), indent=1, ensure_ascii=False)
    return name, meta['detected'], {p: v['rc'] for p, v in checks.items()}, meta['confirmed']


dirs = sorted(glob.glob(os.path.join(VERIF, 'seeded', 'C*-*')))
if a.only:
    dirs = [d for d in dirs if os.path.basename(d) in a.only.split(',')]
with ThreadPoolExecutor(a.jobs) as ex:
    for name, det, rc, conf in ex.map(one, dirs):
        print(name, 'DETECTED' if det else ('NEUTRALISED' if conf.get('demo_exit_with_patch') == 0 and conf.get('demo_exit_without_patch') == 0 else 'MISSED'), rc, conf)
