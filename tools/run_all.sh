#!/bin/bash
# run every registered quick (or thorough) check once; usage: tools/run_all.sh [tier] [seed]
tier=${1:-quick}; seed=${2:-0}
cd "$(dirname "$0")/.."
fail=0
for p in C01 C02 C03 C04 C05 C06 C07 C08 C09 C10 C11 C12 C13 C14 C15 C16 C17 C18 C19 C20; do
  VERIF_SEED=$seed timeout 7200 /venv/bin/python harness/check.py --property $p --tier $tier 2>/dev/null | grep -E "VIOLATION|KNOWN|^$p " ; rc=${PIPESTATUS[0]}
  if [ "$rc" != "0" ]; then echo "   -> $p exit $rc"; fail=1; fi
done
exit $fail
