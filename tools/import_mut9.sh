#!/bin/bash
# usage: tools/import_mut2.sh C05  -> copies /tmp/mut9/C05/out/{patch,demo,meta}{1,2} to seeded/C05-13, seeded/C05-14 and evaluates them
id=$1; cd "$(dirname "$0")/.."
for i in 1 2; do n=$((i+16)); d=seeded/$id-$n; mkdir -p $d; cp /tmp/mut9/$id/out/patch$i.diff $d/patch.diff; cp /tmp/mut9/$id/out/demo$i.py $d/demo.py; cp /tmp/mut9/$id/out/meta$i.json $d/meta_agent.json; done
python3 tools/eval_all_seeded.py --jobs 2 --only $id-17,$id-18
